//! `parallel`-off twin: rebuilds every exported registration sequence with the
//! crate compiled without the `parallel` feature and compares (a) the executed
//! layout and (b) the outcome of two dispatches with what the parallel build
//! produced (C19 (v), C05 "with and without the parallel feature").

#[path = "../../engine/mc/src/spec.rs"]
mod spec;
#[path = "../../realrayon/src/rsys.rs"]
mod rsys;

use std::sync::atomic::{AtomicBool, AtomicU32, Ordering};
use std::sync::{Arc, Mutex};

use serde_json::{json, Value};
use shred::{Dispatcher, DispatcherBuilder, World};

use rsys::*;
use spec::*;

struct NoHook;
impl Hook for NoHook {
    fn ev(&self, _: &str, _: usize) {}
}

fn identify(d: &mut Dispatcher<'_, '_>, ctx: &Arc<Ctx>, world: &World) -> String {
    let (shape, ntl) = d.verif_layout();
    let was = ctx.ident.swap(true, Ordering::Relaxed);
    let mut stages: Vec<Vec<Vec<usize>>> = shape.iter().map(|s| s.iter().map(|n| vec![usize::MAX; *n]).collect()).collect();
    let mut inner: Vec<(usize, String)> = Vec::new();
    d.verif_visit(&mut |s, g, p, sys| {
        ctx.ident_log.lock().unwrap().clear();
        let before = ctx.inner_layouts.lock().unwrap().len();
        sys.run_now(world);
        let log = ctx.ident_log.lock().unwrap().clone();
        if log.len() == 1 && s < stages.len() && g < stages[s].len() && p < stages[s][g].len() {
            stages[s][g][p] = log[0];
        }
        let mut il = ctx.inner_layouts.lock().unwrap();
        while il.len() > before {
            inner.push(il.pop().unwrap());
        }
    });
    let mut tl = vec![usize::MAX; ntl];
    d.verif_visit_thread_local(&mut |i, sys| {
        ctx.ident_log.lock().unwrap().clear();
        sys.run_now(world);
        let log = ctx.ident_log.lock().unwrap().clone();
        if log.len() == 1 && i < tl.len() {
            tl[i] = log[0];
        }
    });
    ctx.ident.store(was, Ordering::Relaxed);
    inner.sort();
    // same text as engine/mc Layout::short()
    let st: Vec<String> = stages.iter().map(|s| s.iter().map(|g| g.iter().map(|x| x.to_string()).collect::<Vec<_>>().join(",")).collect::<Vec<_>>().join(" | ")).collect();
    let mut r = format!("[{}]", st.join(" ; "));
    if !tl.is_empty() {
        r.push_str(&format!(" tl{:?}", tl));
    }
    for (b, l) in &inner {
        r.push_str(&format!(" {{{}: {}}}", b, l));
    }
    r
}

fn main() {
    let args: Vec<String> = std::env::args().collect();
    let path = args.get(1).expect("usage: np <export.json> [--frag out.json]");
    let frag = args.iter().position(|a| a == "--frag").and_then(|i| args.get(i + 1).cloned());
    let items: Vec<Value> = serde_json::from_str(&std::fs::read_to_string(path).expect("read")).expect("parse");
    std::panic::set_hook(Box::new(|_| {}));
    let t0 = std::time::Instant::now();
    let mut layout_diffs: Vec<Value> = vec![];
    let mut outcome_diffs: Vec<Value> = vec![];
    let mut n = 0u64;
    for it in &items {
        let ops = match it.get("ops").and_then(plan_from_json) {
            Some(o) => o,
            None => continue,
        };
        n += 1;
        let info = PlanInfo::of(&ops);
        let ctx = Arc::new(Ctx {
            turn: Arc::new(NoHook),
            obs: Mutex::new(vec![vec![]; info.n()]),
            local: Mutex::new(vec![0; info.n()]),
            runs: Mutex::new(vec![0; info.n()]),
            dispatch_no: AtomicU32::new(0),
            ident: AtomicBool::new(false),
            ident_log: Mutex::new(vec![]),
            inner_layouts: Mutex::new(vec![]),
            identify,
        });
        let r = std::panic::catch_unwind(std::panic::AssertUnwindSafe(|| {
            let mut b = DispatcherBuilder::new();
            let mut next = 0;
            register_into(&mut b, &ops, &mut next, &ctx);
            let mut d = b.build();
            let world = new_world();
            let l = identify(&mut d, &ctx, &world);
            for i in 1..=2u32 {
                ctx.dispatch_no.store(i, Ordering::Relaxed);
                d.dispatch(&world);
            }
            (l, world_values(&world), ctx.obs.lock().unwrap().clone())
        }));
        match r {
            Err(_) => layout_diffs.push(json!({"plan": plan_short(&ops), "error": "panicked in the no-parallel build"})),
            Ok((l, vals, obs)) => {
                if Some(l.as_str()) != it.get("layout").and_then(|x| x.as_str()) {
                    layout_diffs.push(json!({"plan": plan_short(&ops), "parallel_build": it.get("layout"), "no_parallel_build": l}));
                }
                let ev: Option<Vec<u64>> = it.get("values").and_then(|v| v.as_array()).map(|a| a.iter().filter_map(|x| x.as_u64()).collect());
                let eo: Option<Vec<Vec<u64>>> = it.get("obs").and_then(|v| v.as_array()).map(|a| a.iter().map(|r| r.as_array().map(|b| b.iter().filter_map(|x| x.as_u64()).collect()).unwrap_or_default()).collect());
                if let (Some(ev), Some(eo)) = (ev, eo) {
                    if ev != vals || eo != obs {
                        outcome_diffs.push(json!({"plan": plan_short(&ops), "parallel_build_values": ev, "no_parallel_build_values": vals}));
                    }
                }
            }
        }
    }
    let out = json!({
        "engine": "no-parallel twin",
        "what": "every exported registration sequence rebuilt with the crate compiled without the `parallel` feature: executed layout and the outcome of two dispatches compared with the parallel build",
        "sequences": n, "layout_differences": layout_diffs.len(), "outcome_differences": outcome_diffs.len(),
        "examples": layout_diffs.iter().chain(outcome_diffs.iter()).take(5).collect::<Vec<_>>(), "wall_s": t0.elapsed().as_secs_f64(),
    });
    if let Some(p) = frag {
        std::fs::write(p, serde_json::to_string_pretty(&out).unwrap()).unwrap();
    }
    println!("no-parallel twin: sequences={} layout_differences={} outcome_differences={}", n, layout_diffs.len(), outcome_diffs.len());
    std::process::exit(if layout_diffs.is_empty() && outcome_diffs.is_empty() { 0 } else { 3 });
}
