#!/bin/sh
# Build the verification engines offline from files on disk.
set -e
cd "$(dirname "$0")"
export CARGO_NET_OFFLINE=true
(cd engine && cargo build --release --offline -p mc 2>&1 | tail -2)
(cd engine && cargo build --release --offline -p c06 --bin c06q 2>&1 | tail -2)
(cd realrayon && cargo build --release --offline 2>&1 | tail -2)
(cd noparallel && cargo build --release --offline 2>&1 | tail -2)
