//! Implements a container type providing RefCell-like semantics for objects
//! shared across threads.
//!
//! RwLock is traditionally considered to be the |Sync| analogue of RefCell.
//! However, for consumers that can guarantee that they will never mutably
//! borrow the contents concurrently with immutable borrows, an RwLock is
//! overkill, and has key disadvantages:
//! * Performance: Even the fastest existing implementation of RwLock (that of
//!   parking_lot) performs at least two atomic operations during immutable
//!   borrows. This makes mutable borrows significantly cheaper than immutable
//!   borrows, leading to weird incentives when writing performance-critical
//!   code.
//! * Features: Implementing AtomicRefCell on top of RwLock makes it impossible
//!   to implement useful things like AtomicRef{,Mut}::map.
//!
//! As such, we re-implement RefCell semantics from scratch with a single atomic
//! reference count. The primary complication of this scheme relates to keeping
//! things in a consistent state when one thread performs an illegal borrow and
//! panics. Since an AtomicRefCell can be accessed by multiple threads, and since
//! panics are recoverable, we need to ensure that an illegal (panicking) access by
//! one thread does not lead to undefined behavior on other, still-running threads.
//!
//! So we represent things as follows:
//! * Any value with the high bit set (so half the total refcount space) indicates
//!   a mutable borrow.
//! * Mutable borrows perform an atomic compare-and-swap, swapping in the high bit
//!   if the current value is zero. If the current value is non-zero, the thread
//!   panics and the value is left undisturbed.
//! * Immutable borrows perform an atomic increment. If the new value has the high
//!   bit set, the thread panics. The incremented refcount is left as-is, since it
//!   still represents a valid mutable borrow. When the mutable borrow is released,
//!   the refcount is set unconditionally to zero, clearing any stray increments by
//!   panicked threads.
//!
//! There are a few additional purely-academic complications to handle overflow,
//! which are documented in the implementation.
//!
//! The rest of this module is mostly derived by copy-pasting the implementation of
//! RefCell and fixing things up as appropriate. Certain non-threadsafe methods
//! have been removed. We segment the concurrency logic from the rest of the code to
//! keep the tricky parts small and easy to audit.

#![allow(unsafe_code)]

//
// /verif: this file is atomic_refcell 0.1.14 with ONE addition, `verif::point()` in front of every borrow and
// every release.  The synchronisation logic is untouched.
//
pub mod verif {
    use core::sync::atomic::{AtomicBool, Ordering};
    static POINTS: AtomicBool = AtomicBool::new(false);
    /// Make every borrow / release of every cell a scheduling point of the controlled runtime.  Only to be
    /// switched on inside controlled executions.
    pub fn set_points(on: bool) {
        POINTS.store(on, Ordering::SeqCst);
    }
    #[inline]
    pub(crate) fn point() {
        if POINTS.load(Ordering::Relaxed) && !std::thread::panicking() {
            shuttle::thread::yield_now();
        }
    }
}

use core::cell::UnsafeCell;
use core::cmp;
use core::fmt;
use core::fmt::{Debug, Display};
use core::marker::PhantomData;
use core::ops::{Deref, DerefMut};
use core::ptr::NonNull;
use core::sync::atomic;

#[cfg(not(feature = "portable-atomic"))]
use core::sync::atomic::AtomicUsize;

#[cfg(feature = "portable-atomic")]
use portable_atomic::AtomicUsize;

#[cfg(feature = "serde")]
use serde::{Deserialize, Serialize};

/// A threadsafe analogue to RefCell.
pub struct AtomicRefCell<T: ?Sized> {
    borrow: AtomicUsize,
    value: UnsafeCell<T>,
}

/// An error returned by [`AtomicRefCell::try_borrow`](struct.AtomicRefCell.html#method.try_borrow).
pub struct BorrowError {
    _private: (),
}

impl Debug for BorrowError {
    fn fmt(&self, f: &mut fmt::Formatter<'_>) -> fmt::Result {
        f.debug_struct("BorrowError").finish()
    }
}

impl Display for BorrowError {
    fn fmt(&self, f: &mut fmt::Formatter<'_>) -> fmt::Result {
        Display::fmt("already mutably borrowed", f)
    }
}

/// An error returned by [`AtomicRefCell::try_borrow_mut`](struct.AtomicRefCell.html#method.try_borrow_mut).
pub struct BorrowMutError {
    _private: (),
}

impl Debug for BorrowMutError {
    fn fmt(&self, f: &mut fmt::Formatter<'_>) -> fmt::Result {
        f.debug_struct("BorrowMutError").finish()
    }
}

impl Display for BorrowMutError {
    fn fmt(&self, f: &mut fmt::Formatter<'_>) -> fmt::Result {
        Display::fmt("already borrowed", f)
    }
}

impl<T> AtomicRefCell<T> {
    /// Creates a new `AtomicRefCell` containing `value`.
    #[inline]
    pub const fn new(value: T) -> AtomicRefCell<T> {
        AtomicRefCell {
            borrow: AtomicUsize::new(0),
            value: UnsafeCell::new(value),
        }
    }

    /// Consumes the `AtomicRefCell`, returning the wrapped value.
    #[inline]
    pub fn into_inner(self) -> T {
        debug_assert!(self.borrow.load(atomic::Ordering::Acquire) == 0);
        self.value.into_inner()
    }
}

impl<T: ?Sized> AtomicRefCell<T> {
    /// Immutably borrows the wrapped value.
    #[inline]
    pub fn borrow(&self) -> AtomicRef<'_, T> {
        verif::point();
        match AtomicBorrowRef::try_new(&self.borrow) {
            Ok(borrow) => AtomicRef {
                value: unsafe { NonNull::new_unchecked(self.value.get()) },
                borrow,
            },
            Err(s) => panic!("{}", s),
        }
    }

    /// Attempts to immutably borrow the wrapped value, but instead of panicking
    /// on a failed borrow, returns `Err`.
    #[inline]
    pub fn try_borrow(&self) -> Result<AtomicRef<'_, T>, BorrowError> {
        verif::point();
        match AtomicBorrowRef::try_new(&self.borrow) {
            Ok(borrow) => Ok(AtomicRef {
                value: unsafe { NonNull::new_unchecked(self.value.get()) },
                borrow,
            }),
            Err(_) => Err(BorrowError { _private: () }),
        }
    }

    /// Mutably borrows the wrapped value.
    #[inline]
    pub fn borrow_mut(&self) -> AtomicRefMut<'_, T> {
        verif::point();
        match AtomicBorrowRefMut::try_new(&self.borrow) {
            Ok(borrow) => AtomicRefMut {
                value: unsafe { NonNull::new_unchecked(self.value.get()) },
                borrow,
                marker: PhantomData,
            },
            Err(s) => panic!("{}", s),
        }
    }

    /// Attempts to mutably borrow the wrapped value, but instead of panicking
    /// on a failed borrow, returns `Err`.
    #[inline]
    pub fn try_borrow_mut(&self) -> Result<AtomicRefMut<'_, T>, BorrowMutError> {
        verif::point();
        match AtomicBorrowRefMut::try_new(&self.borrow) {
            Ok(borrow) => Ok(AtomicRefMut {
                value: unsafe { NonNull::new_unchecked(self.value.get()) },
                borrow,
                marker: PhantomData,
            }),
            Err(_) => Err(BorrowMutError { _private: () }),
        }
    }

    /// Returns a raw pointer to the underlying data in this cell.
    ///
    /// External synchronization is needed to avoid data races when dereferencing
    /// the pointer.
    #[inline]
    pub fn as_ptr(&self) -> *mut T {
        self.value.get()
    }

    /// Returns a mutable reference to the wrapped value.
    ///
    /// No runtime checks take place (unless debug assertions are enabled)
    /// because this call borrows `AtomicRefCell` mutably at compile-time.
    #[inline]
    pub fn get_mut(&mut self) -> &mut T {
        debug_assert!(self.borrow.load(atomic::Ordering::Acquire) == 0);
        unsafe { &mut *self.value.get() }
    }
}

//
// Core synchronization logic. Keep this section small and easy to audit.
//

const HIGH_BIT: usize = !(usize::MAX >> 1);
const MAX_FAILED_BORROWS: usize = HIGH_BIT + (HIGH_BIT >> 1);

struct AtomicBorrowRef<'b> {
    borrow: &'b AtomicUsize,
}

impl<'b> AtomicBorrowRef<'b> {
    #[inline]
    fn try_new(borrow: &'b AtomicUsize) -> Result<Self, &'static str> {
        let new = borrow.fetch_add(1, atomic::Ordering::Acquire) + 1;
        if new & HIGH_BIT != 0 {
            // If the new count has the high bit set, that almost certainly
            // means there's an pre-existing mutable borrow. In that case,
            // we simply leave the increment as a benign side-effect and
            // return `Err`. Once the mutable borrow is released, the
            // count will be reset to zero unconditionally.
            //
            // The overflow check here ensures that an unbounded number of
            // immutable borrows during the scope of one mutable borrow
            // will soundly trigger a panic (or abort) rather than UB.
            Self::check_overflow(borrow, new);
            Err("already mutably borrowed")
        } else {
            Ok(AtomicBorrowRef { borrow })
        }
    }

    #[cold]
    #[inline(never)]
    fn check_overflow(borrow: &'b AtomicUsize, new: usize) {
        if new == HIGH_BIT {
            // We overflowed into the reserved upper half of the refcount
            // space. Before panicking, decrement the refcount to leave things
            // in a consistent immutable-borrow state.
            //
            // This can basically only happen if somebody forget()s AtomicRefs
            // in a tight loop.
            borrow.fetch_sub(1, atomic::Ordering::Release);
            panic!("too many immutable borrows");
        } else if new >= MAX_FAILED_BORROWS {
            // During the mutable borrow, an absurd number of threads have
            // attempted to increment the refcount with immutable borrows.
            // To avoid hypothetically wrapping the refcount, we abort the
            // process once a certain threshold is reached.
            //
            // This requires billions of borrows to fail during the scope of
            // one mutable borrow, and so is very unlikely to happen in a real
            // program.
            //
            // To avoid a potential unsound state after overflowing, we make
            // sure the entire process aborts.
            //
            // Right now, there's no stable way to do that without `std`:
            // https://github.com/rust-lang/rust/issues/67952
            // As a workaround, we cause an abort by making this thread panic
            // during the unwinding of another panic.
            //
            // On platforms where the panic strategy is already 'abort', the
            // ForceAbort object here has no effect, as the program already
            // panics before it is dropped.
            struct ForceAbort;
            impl Drop for ForceAbort {
                fn drop(&mut self) {
                    panic!("Aborting to avoid unsound state of AtomicRefCell");
                }
            }
            let _abort = ForceAbort;
            panic!("Too many failed borrows");
        }
    }
}

impl<'b> Drop for AtomicBorrowRef<'b> {
    #[inline]
    fn drop(&mut self) {
        verif::point();
        let old = self.borrow.fetch_sub(1, atomic::Ordering::Release);
        // This assertion is technically incorrect in the case where another
        // thread hits the hypothetical overflow case, since we might observe
        // the refcount before it fixes it up (and panics). But that never will
        // never happen in a real program, and this is a debug_assert! anyway.
        debug_assert!(old & HIGH_BIT == 0);
    }
}

struct AtomicBorrowRefMut<'b> {
    borrow: &'b AtomicUsize,
}

impl<'b> Drop for AtomicBorrowRefMut<'b> {
    #[inline]
    fn drop(&mut self) {
        verif::point();
        self.borrow.store(0, atomic::Ordering::Release);
    }
}

impl<'b> AtomicBorrowRefMut<'b> {
    #[inline]
    fn try_new(borrow: &'b AtomicUsize) -> Result<AtomicBorrowRefMut<'b>, &'static str> {
        // Use compare-and-swap to avoid corrupting the immutable borrow count
        // on illegal mutable borrows.
        let old = match borrow.compare_exchange(
            0,
            HIGH_BIT,
            atomic::Ordering::Acquire,
            atomic::Ordering::Relaxed,
        ) {
            Ok(x) => x,
            Err(x) => x,
        };

        if old == 0 {
            Ok(AtomicBorrowRefMut { borrow })
        } else if old & HIGH_BIT == 0 {
            Err("already immutably borrowed")
        } else {
            Err("already mutably borrowed")
        }
    }
}

unsafe impl<T: ?Sized + Send> Send for AtomicRefCell<T> {}
unsafe impl<T: ?Sized + Send + Sync> Sync for AtomicRefCell<T> {}

//
// End of core synchronization logic. No tricky thread stuff allowed below
// this point.
//

impl<T: Clone> Clone for AtomicRefCell<T> {
    #[inline]
    fn clone(&self) -> AtomicRefCell<T> {
        AtomicRefCell::new(self.borrow().clone())
    }
}

impl<T: Default> Default for AtomicRefCell<T> {
    #[inline]
    fn default() -> AtomicRefCell<T> {
        AtomicRefCell::new(Default::default())
    }
}

impl<T: ?Sized + PartialEq> PartialEq for AtomicRefCell<T> {
    #[inline]
    fn eq(&self, other: &AtomicRefCell<T>) -> bool {
        *self.borrow() == *other.borrow()
    }
}

impl<T: ?Sized + Eq> Eq for AtomicRefCell<T> {}

impl<T: ?Sized + PartialOrd> PartialOrd for AtomicRefCell<T> {
    #[inline]
    fn partial_cmp(&self, other: &AtomicRefCell<T>) -> Option<cmp::Ordering> {
        self.borrow().partial_cmp(&*other.borrow())
    }
}

impl<T: ?Sized + Ord> Ord for AtomicRefCell<T> {
    #[inline]
    fn cmp(&self, other: &AtomicRefCell<T>) -> cmp::Ordering {
        self.borrow().cmp(&*other.borrow())
    }
}

impl<T> From<T> for AtomicRefCell<T> {
    fn from(t: T) -> AtomicRefCell<T> {
        AtomicRefCell::new(t)
    }
}

impl<'b> Clone for AtomicBorrowRef<'b> {
    #[inline]
    fn clone(&self) -> AtomicBorrowRef<'b> {
        AtomicBorrowRef::try_new(self.borrow).unwrap()
    }
}

/// A wrapper type for an immutably borrowed value from an `AtomicRefCell<T>`.
pub struct AtomicRef<'b, T: ?Sized + 'b> {
    value: NonNull<T>,
    borrow: AtomicBorrowRef<'b>,
}

// SAFETY: `AtomicRef<'_, T> acts as a reference. `AtomicBorrowRef` is a
// reference to an atomic.
unsafe impl<'b, T: ?Sized> Sync for AtomicRef<'b, T> where for<'a> &'a T: Sync {}
unsafe impl<'b, T: ?Sized> Send for AtomicRef<'b, T> where for<'a> &'a T: Send {}

impl<'b, T: ?Sized> Deref for AtomicRef<'b, T> {
    type Target = T;

    #[inline]
    fn deref(&self) -> &T {
        // SAFETY: We hold shared borrow of the value.
        unsafe { self.value.as_ref() }
    }
}

impl<'b, T: ?Sized> AtomicRef<'b, T> {
    /// Copies an `AtomicRef`.
    ///
    /// Like its [std-counterpart](core::cell::Ref::clone), this type does not implement `Clone`
    /// to not interfere with cloning the contained type.
    #[allow(clippy::should_implement_trait)]
    #[inline]
    pub fn clone(orig: &AtomicRef<'b, T>) -> AtomicRef<'b, T> {
        AtomicRef {
            value: orig.value,
            borrow: orig.borrow.clone(),
        }
    }

    /// Make a new `AtomicRef` for a component of the borrowed data.
    #[inline]
    pub fn map<U: ?Sized, F>(orig: AtomicRef<'b, T>, f: F) -> AtomicRef<'b, U>
    where
        F: FnOnce(&T) -> &U,
    {
        AtomicRef {
            value: NonNull::from(f(&*orig)),
            borrow: orig.borrow,
        }
    }

    /// Make a new `AtomicRef` for an optional component of the borrowed data.
    #[inline]
    pub fn filter_map<U: ?Sized, F>(orig: AtomicRef<'b, T>, f: F) -> Option<AtomicRef<'b, U>>
    where
        F: FnOnce(&T) -> Option<&U>,
    {
        Some(AtomicRef {
            value: NonNull::from(f(&*orig)?),
            borrow: orig.borrow,
        })
    }
}

impl<'b, T: ?Sized> AtomicRefMut<'b, T> {
    /// Make a new `AtomicRefMut` for a component of the borrowed data, e.g. an enum
    /// variant.
    #[inline]
    pub fn map<U: ?Sized, F>(mut orig: AtomicRefMut<'b, T>, f: F) -> AtomicRefMut<'b, U>
    where
        F: FnOnce(&mut T) -> &mut U,
    {
        AtomicRefMut {
            value: NonNull::from(f(&mut *orig)),
            borrow: orig.borrow,
            marker: PhantomData,
        }
    }

    /// Make a new `AtomicRefMut` for an optional component of the borrowed data.
    #[inline]
    pub fn filter_map<U: ?Sized, F>(
        mut orig: AtomicRefMut<'b, T>,
        f: F,
    ) -> Option<AtomicRefMut<'b, U>>
    where
        F: FnOnce(&mut T) -> Option<&mut U>,
    {
        Some(AtomicRefMut {
            value: NonNull::from(f(&mut *orig)?),
            borrow: orig.borrow,
            marker: PhantomData,
        })
    }
}

/// A wrapper type for a mutably borrowed value from an `AtomicRefCell<T>`.
pub struct AtomicRefMut<'b, T: ?Sized + 'b> {
    value: NonNull<T>,
    borrow: AtomicBorrowRefMut<'b>,
    // `NonNull` is covariant over `T`, but this is used in place of a mutable
    // reference so we need to be invariant over `T`.
    marker: PhantomData<&'b mut T>,
}

// SAFETY: `AtomicRefMut<'_, T> acts as a mutable reference.
// `AtomicBorrowRefMut` is a reference to an atomic.
unsafe impl<'b, T: ?Sized> Sync for AtomicRefMut<'b, T> where for<'a> &'a mut T: Sync {}
unsafe impl<'b, T: ?Sized> Send for AtomicRefMut<'b, T> where for<'a> &'a mut T: Send {}

impl<'b, T: ?Sized> Deref for AtomicRefMut<'b, T> {
    type Target = T;

    #[inline]
    fn deref(&self) -> &T {
        // SAFETY: We hold an exclusive borrow of the value.
        unsafe { self.value.as_ref() }
    }
}

impl<'b, T: ?Sized> DerefMut for AtomicRefMut<'b, T> {
    #[inline]
    fn deref_mut(&mut self) -> &mut T {
        // SAFETY: We hold an exclusive borrow of the value.
        unsafe { self.value.as_mut() }
    }
}

impl<'b, T: ?Sized + Debug + 'b> Debug for AtomicRef<'b, T> {
    fn fmt(&self, f: &mut fmt::Formatter<'_>) -> fmt::Result {
        <T as Debug>::fmt(self, f)
    }
}

impl<'b, T: ?Sized + Debug + 'b> Debug for AtomicRefMut<'b, T> {
    fn fmt(&self, f: &mut fmt::Formatter<'_>) -> fmt::Result {
        <T as Debug>::fmt(self, f)
    }
}

impl<T: ?Sized + Debug> Debug for AtomicRefCell<T> {
    fn fmt(&self, f: &mut fmt::Formatter<'_>) -> fmt::Result {
        match self.try_borrow() {
            Ok(borrow) => f
                .debug_struct("AtomicRefCell")
                .field("value", &borrow)
                .finish(),
            Err(_) => {
                // The RefCell is mutably borrowed so we can't look at its value
                // here. Show a placeholder instead.
                struct BorrowedPlaceholder;

                impl Debug for BorrowedPlaceholder {
                    fn fmt(&self, f: &mut fmt::Formatter<'_>) -> fmt::Result {
                        f.write_str("<borrowed>")
                    }
                }

                f.debug_struct("AtomicRefCell")
                    .field("value", &BorrowedPlaceholder)
                    .finish()
            }
        }
    }
}

#[cfg(feature = "serde")]
impl<'de, T: Deserialize<'de>> Deserialize<'de> for AtomicRefCell<T> {
    fn deserialize<D>(deserializer: D) -> Result<Self, D::Error>
    where
        D: serde::Deserializer<'de>,
    {
        T::deserialize(deserializer).map(Self::from)
    }
}

#[cfg(feature = "serde")]
impl<T: Serialize> Serialize for AtomicRefCell<T> {
    fn serialize<S>(&self, serializer: S) -> Result<S::Ok, S::Error>
    where
        S: serde::Serializer,
    {
        use serde::ser::Error;
        match self.try_borrow() {
            Ok(value) => value.serialize(serializer),
            Err(_err) => Err(S::Error::custom("already mutably borrowed")),
        }
    }
}
