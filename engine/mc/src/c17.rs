//! C17: MetaTable histories against a reference list (E3).

use std::collections::{HashSet, VecDeque};
use std::panic::{catch_unwind, AssertUnwindSafe};

use serde_json::{json, Value};
use shred::{CastFrom, Fetch, FetchMut, MetaTable, Resource, ResourceId, World};

use crate::report::{Collector, Finding};
use crate::sched::payload_str;

pub trait Obj {
    fn tag(&self) -> u8;
    fn addr(&self) -> usize;
    fn bump(&mut self);
    fn count(&self) -> u64;
}

#[derive(Default)]
pub struct Mz;
#[derive(Default)]
pub struct Ms(pub u64);
pub struct Ml(pub [u64; 40]);
impl Default for Ml {
    fn default() -> Self {
        Ml([0; 40])
    }
}
#[derive(Default)]
pub struct Mh(pub Vec<u64>);
/// implements the trait, never registered
#[derive(Default)]
pub struct Mu(pub u64);
/// registered with a cast that changes the address
#[derive(Default)]
pub struct Mbad(pub [u64; 4]);

/// zero-sized, registered with a cast that changes the address
#[derive(Default)]
pub struct Mzbad;

std::thread_local! {
    static ZCOUNT: std::cell::Cell<u64> = const { std::cell::Cell::new(0) };
    /// which type plays "type 5" (the one whose cast changes the address): false = `Mbad` (32 bytes), true = `Mzbad` (zero-sized)
    static BAD_IS_ZST: std::cell::Cell<bool> = const { std::cell::Cell::new(false) };
}

pub fn set_bad_is_zst(on: bool) {
    BAD_IS_ZST.with(|b| b.set(on));
}
fn bad_is_zst() -> bool {
    BAD_IS_ZST.with(|b| b.get())
}
impl Obj for Mzbad {
    fn tag(&self) -> u8 {
        5
    }
    fn addr(&self) -> usize {
        self as *const Mzbad as usize
    }
    fn bump(&mut self) {}
    fn count(&self) -> u64 {
        0
    }
}
unsafe impl CastFrom<Mzbad> for dyn Obj {
    fn cast(t: *mut Mzbad) -> *mut Self {
        // deliberately wrong: another (dangling) address
        (t as *mut u8).wrapping_add(16) as *mut Mzbad
    }
}

impl Obj for Mz {
    fn tag(&self) -> u8 {
        0
    }
    fn addr(&self) -> usize {
        self as *const Mz as usize
    }
    fn bump(&mut self) {
        ZCOUNT.with(|z| z.set(z.get() + 1));
    }
    fn count(&self) -> u64 {
        ZCOUNT.with(|z| z.get())
    }
}
impl Obj for Ms {
    fn tag(&self) -> u8 {
        1
    }
    fn addr(&self) -> usize {
        self as *const Ms as usize
    }
    fn bump(&mut self) {
        self.0 += 1
    }
    fn count(&self) -> u64 {
        self.0
    }
}
impl Obj for Ml {
    fn tag(&self) -> u8 {
        2
    }
    fn addr(&self) -> usize {
        self as *const Ml as usize
    }
    fn bump(&mut self) {
        self.0[0] += 1;
        self.0[39] += 1;
    }
    fn count(&self) -> u64 {
        if self.0[0] == self.0[39] {
            self.0[0]
        } else {
            u64::MAX
        }
    }
}
impl Obj for Mh {
    fn tag(&self) -> u8 {
        3
    }
    fn addr(&self) -> usize {
        self as *const Mh as usize
    }
    fn bump(&mut self) {
        self.0.push(1)
    }
    fn count(&self) -> u64 {
        self.0.len() as u64
    }
}
impl Obj for Mu {
    fn tag(&self) -> u8 {
        4
    }
    fn addr(&self) -> usize {
        self as *const Mu as usize
    }
    fn bump(&mut self) {
        self.0 += 1
    }
    fn count(&self) -> u64 {
        self.0
    }
}
impl Obj for Mbad {
    fn tag(&self) -> u8 {
        5
    }
    fn addr(&self) -> usize {
        self as *const Mbad as usize
    }
    fn bump(&mut self) {}
    fn count(&self) -> u64 {
        0
    }
}

macro_rules! good_cast {
    ($($t:ty),*) => { $(
        unsafe impl CastFrom<$t> for dyn Obj {
            fn cast(t: *mut $t) -> *mut Self { t }
        }
    )* };
}
good_cast!(Mz, Ms, Ml, Mh, Mu);

unsafe impl CastFrom<Mbad> for dyn Obj {
    fn cast(t: *mut Mbad) -> *mut Self {
        // deliberately wrong: points 8 bytes into the value
        (t as *mut u8).wrapping_add(8) as *mut Mbad
    }
}

const NT: usize = 6; // 0..3 good, 4 unregistered, 5 bad cast

#[derive(Clone, Copy, Debug, PartialEq, Eq, Hash)]
pub enum Op17 {
    Register(u8),
    Insert(u8),
    Remove(u8),
    Get(u8),
    GetMut(u8),
    Iter,
    IterMut,
    /// hold a shared / exclusive world guard on type i while iterating
    IterHoldingR(u8),
    IterHoldingW(u8),
    IterMutHoldingR(u8),
    /// create the resource through the entry API (`World::entry().or_insert_with`): inserts only if absent
    EntryInsert(u8),
    /// create the resource through a default provider (`World::setup::<Read<T>>()`): inserts only if absent
    SetupRead(u8),
    /// decoy: a value of type i under dynamic id 1 (never what a meta table converts or yields)
    InsertDyn(u8),
    RemoveDyn(u8),
}

/// Alphabet of the creation-path sweep: three registered types, every way of creating / removing a resource
/// (insert, entry API, default provider, a decoy under a dynamic id), lookups and iteration.
pub fn alphabet_paths() -> Vec<Op17> {
    let mut v = Vec::new();
    for i in 0..3u8 {
        v.push(Op17::Register(i));
        v.push(Op17::Insert(i));
        v.push(Op17::Remove(i));
    }
    v.extend([Op17::EntryInsert(0), Op17::EntryInsert(1), Op17::SetupRead(1), Op17::SetupRead(2), Op17::InsertDyn(1), Op17::RemoveDyn(1), Op17::InsertDyn(4), Op17::Get(1), Op17::GetMut(2), Op17::Iter, Op17::IterMut]);
    v
}

pub fn alphabet() -> Vec<Op17> {
    let mut v = Vec::new();
    for i in 0..4u8 {
        v.push(Op17::Register(i));
    }
    v.push(Op17::Register(5));
    for i in 0..NT as u8 {
        v.push(Op17::Insert(i));
        v.push(Op17::Remove(i));
        v.push(Op17::Get(i));
        v.push(Op17::GetMut(i));
    }
    v.push(Op17::Iter);
    v.push(Op17::IterMut);
    for i in 0..3u8 {
        v.push(Op17::IterHoldingR(i));
        v.push(Op17::IterHoldingW(i));
        v.push(Op17::IterMutHoldingR(i));
    }
    v
}

#[derive(Clone, Debug, Default)]
struct Model {
    /// first-registration order
    reg: Vec<u8>,
    present: [bool; NT],
    count: [u64; NT],
    /// the registration of the type with the address-changing cast was rejected by a panic (an implementation may
    /// reject it there instead of at the first conversion); the type then counts as not registered
    rejected_bad: bool,
    /// how the present resource was created: 0 insert, 1 entry API, 2 default provider
    prov: [u8; NT],
    dyn_present: [bool; NT],
}

fn rid(i: u8) -> ResourceId {
    match i {
        0 => ResourceId::new::<Mz>(),
        1 => ResourceId::new::<Ms>(),
        2 => ResourceId::new::<Ml>(),
        3 => ResourceId::new::<Mh>(),
        4 => ResourceId::new::<Mu>(),
        _ if bad_is_zst() => ResourceId::new::<Mzbad>(),
        _ => ResourceId::new::<Mbad>(),
    }
}

fn insert(w: &mut World, i: u8) {
    match i {
        0 => w.insert(Mz),
        1 => w.insert(Ms(0)),
        2 => w.insert(Ml::default()),
        3 => w.insert(Mh(vec![])),
        4 => w.insert(Mu(0)),
        _ if bad_is_zst() => w.insert(Mzbad),
        _ => w.insert(Mbad::default()),
    }
}

fn remove(w: &mut World, i: u8) {
    match i {
        0 => drop(w.remove::<Mz>()),
        1 => drop(w.remove::<Ms>()),
        2 => drop(w.remove::<Ml>()),
        3 => drop(w.remove::<Mh>()),
        4 => drop(w.remove::<Mu>()),
        _ if bad_is_zst() => drop(w.remove::<Mzbad>()),
        _ => drop(w.remove::<Mbad>()),
    }
}

fn register(t: &mut MetaTable<dyn Obj>, i: u8) {
    match i {
        0 => t.register::<Mz>(),
        1 => t.register::<Ms>(),
        2 => t.register::<Ml>(),
        3 => t.register::<Mh>(),
        _ if bad_is_zst() => t.register::<Mzbad>(),
        _ => t.register::<Mbad>(),
    }
}

fn res_addr(w: &mut World, i: u8) -> Option<usize> {
    w.get_mut_raw(rid(i)).map(|r| r as *mut dyn Resource as *mut u8 as usize)
}

fn cell_state(w: &World, i: u8) -> u8 {
    match unsafe { w.try_fetch_internal(rid(i)) } {
        None => 3,
        Some(c) => {
            if c.try_borrow_mut().is_ok() {
                0
            } else if c.try_borrow().is_ok() {
                1
            } else {
                2
            }
        }
    }
}

type Fail = (String, String, usize);

enum Hold<'a> {
    R0(Fetch<'a, Mz>),
    R1(Fetch<'a, Ms>),
    R2(Fetch<'a, Ml>),
    W0(FetchMut<'a, Mz>),
    W1(FetchMut<'a, Ms>),
    W2(FetchMut<'a, Ml>),
}

fn hold<'a>(w: &'a World, i: u8, ex: bool) -> Option<Hold<'a>> {
    Some(match (i, ex) {
        (0, false) => Hold::R0(w.try_fetch()?),
        (1, false) => Hold::R1(w.try_fetch()?),
        (2, false) => Hold::R2(w.try_fetch()?),
        (0, true) => Hold::W0(w.try_fetch_mut()?),
        (1, true) => Hold::W1(w.try_fetch_mut()?),
        _ => Hold::W2(w.try_fetch_mut()?),
    })
}

/// drain an iterator; returns tags in order, or the panic message
fn drain(w: &World, t: &MetaTable<dyn Obj>, mutably: bool, expect_state: u8) -> Result<Result<Vec<(u8, usize, u64)>, String>, String> {
    let r = catch_unwind(AssertUnwindSafe(|| -> Result<Vec<(u8, usize, u64)>, String> {
        let mut out = Vec::new();
        if mutably {
            for mut o in t.iter_mut(w) {
                let tag = o.tag();
                if cell_state(w, tag) != expect_state {
                    return Err(format!("while iter_mut yields type {} its cell probes as {} (expected {})", tag, cell_state(w, tag), expect_state));
                }
                o.bump();
                out.push((tag, o.addr(), o.count()));
            }
        } else {
            for o in t.iter(w) {
                let tag = o.tag();
                if cell_state(w, tag) != expect_state {
                    return Err(format!("while iter yields type {} its cell probes as {} (expected {})", tag, cell_state(w, tag), expect_state));
                }
                out.push((tag, o.addr(), o.count()));
            }
        }
        Ok(out)
    }));
    match r {
        Ok(Ok(v)) => Ok(Ok(v)),
        Ok(Err(e)) => Err(e),
        Err(p) => Ok(Err(payload_str(&*p))),
    }
}

pub fn run_history(h: &[Op17]) -> Result<Vec<u8>, Fail> {
    ZCOUNT.with(|z| z.set(0));
    let mut w = World::empty();
    let mut t: MetaTable<dyn Obj> = MetaTable::new();
    let mut m = Model::default();
    for (step, op) in h.iter().enumerate() {
        let fail = |sig: &str, msg: String| -> Fail { (sig.to_string(), msg, step) };
        match *op {
            Op17::Register(i) => {
                let r = catch_unwind(AssertUnwindSafe(|| register(&mut t, i)));
                match r {
                    Ok(()) => {
                        if !m.reg.contains(&i) {
                            m.reg.push(i);
                        }
                    }
                    Err(p) => {
                        if i != 5 {
                            return Err(fail("register-panicked", format!("{:?} panicked: {}", op, payload_str(&*p))));
                        }
                        // rejected at registration: the table must go on working for everybody else
                        m.rejected_bad = true;
                    }
                }
            }
            Op17::Insert(i) => {
                insert(&mut w, i);
                m.prov[i as usize] = 0;
                m.present[i as usize] = true;
                m.count[i as usize] = if i == 0 { m.count[0] } else { 0 };
            }
            Op17::Remove(i) => {
                remove(&mut w, i);
                m.present[i as usize] = false;
                m.prov[i as usize] = 0;
            }
            Op17::EntryInsert(i) => {
                match i {
                    0 => drop(w.entry::<Mz>().or_insert_with(|| Mz)),
                    _ => drop(w.entry::<Ms>().or_insert_with(|| Ms(0))),
                }
                let i = if i == 0 { 0usize } else { 1 };
                if !m.present[i] {
                    m.present[i] = true;
                    m.prov[i] = 1;
                    if i != 0 {
                        m.count[i] = 0;
                    }
                }
            }
            Op17::SetupRead(i) => {
                match i {
                    1 => w.setup::<shred::Read<Ms>>(),
                    _ => w.setup::<shred::Write<Ml>>(),
                }
                let i = if i == 1 { 1usize } else { 2 };
                if !m.present[i] {
                    m.present[i] = true;
                    m.prov[i] = 2;
                    m.count[i] = 0;
                }
            }
            Op17::InsertDyn(i) => {
                match i {
                    1 => w.insert_by_id(ResourceId::new_with_dynamic_id::<Ms>(1), Ms(77)),
                    _ => w.insert_by_id(ResourceId::new_with_dynamic_id::<Mu>(1), Mu(78)),
                }
                m.dyn_present[if i == 1 { 1 } else { 4 }] = true;
            }
            Op17::RemoveDyn(_) => {
                drop(w.remove_by_id::<Ms>(ResourceId::new_with_dynamic_id::<Ms>(1)));
                m.dyn_present[1] = false;
            }
            Op17::Get(i) | Op17::GetMut(i) => {
                if !m.present[i as usize] {
                    continue;
                }
                let addr = res_addr(&mut w, i).unwrap();
                let registered = m.reg.contains(&i);
                let mutably = matches!(op, Op17::GetMut(_));
                let r = catch_unwind(AssertUnwindSafe(|| -> Option<(u8, usize, u64)> {
                    let res = w.get_mut_raw(rid(i)).unwrap();
                    if mutably {
                        t.get_mut(res).map(|o| {
                            o.bump();
                            (o.tag(), o.addr(), o.count())
                        })
                    } else {
                        t.get(res).map(|o| (o.tag(), o.addr(), o.count()))
                    }
                }));
                match r {
                    Err(p) => {
                        if i != 5 || !(registered || m.rejected_bad) {
                            return Err(fail("meta-get-panicked", format!("{:?} panicked: {}", op, payload_str(&*p))));
                        }
                    }
                    Ok(Some(_)) if i == 5 && m.rejected_bad => {
                        return Err(fail("address-changing-cast-accepted", "the registration of the address-changing cast was rejected by a panic, yet a resource of that type is converted afterwards".to_string()));
                    }
                    Ok(None) => {
                        if registered {
                            return Err(fail("registered-type-not-converted", format!("{:?}: type {} is registered but get returned None", op, i)));
                        }
                    }
                    Ok(Some((tag, a, c))) => {
                        if !registered {
                            return Err(fail("unregistered-type-converted", format!("{:?}: type {} was never registered but get returned an object", op, i)));
                        }
                        if i == 5 {
                            return Err(fail("address-changing-cast-accepted", "a CastFrom implementation that changes the address was not rejected".to_string()));
                        }
                        if mutably {
                            m.count[i as usize] += 1;
                        }
                        if tag != i || a != addr || c != m.count[i as usize] {
                            return Err(fail("wrong-object-returned", format!("{:?}: object reports tag {} addr {:#x} count {}, the resource is type {} at {:#x} with count {}", op, tag, a, c, i, addr, m.count[i as usize])));
                        }
                    }
                }
            }
            Op17::Iter | Op17::IterMut | Op17::IterHoldingR(_) | Op17::IterHoldingW(_) | Op17::IterMutHoldingR(_) => {
                let (mutably, held): (bool, Option<(u8, bool)>) = match *op {
                    Op17::Iter => (false, None),
                    Op17::IterMut => (true, None),
                    Op17::IterHoldingR(i) => (false, Some((i, false))),
                    Op17::IterHoldingW(i) => (false, Some((i, true))),
                    Op17::IterMutHoldingR(i) => (true, Some((i, false))),
                    _ => unreachable!(),
                };
                let addrs: Vec<Option<usize>> = (0..NT as u8).map(|i| res_addr(&mut w, i)).collect();
                // a conflicting guard that is released BEFORE the iterator reaches its resource - or that is never
                // reached - is no conflict: iteration borrows each resource when it yields it, not earlier
                if let Some((hi, hex)) = held {
                    let full: Vec<u8> = m.reg.iter().copied().filter(|i| m.present[*i as usize]).collect();
                    let bad_cast = full.contains(&5);
                    if let (Some(pos), false, true) = (full.iter().position(|x| *x == hi), bad_cast, hex || mutably) {
                        for finish in [true, false] {
                            let r = catch_unwind(AssertUnwindSafe(|| -> Option<Vec<u8>> {
                                let g = hold(&w, hi, hex)?;
                                let mut tags = Vec::new();
                                if mutably {
                                    let mut it = t.iter_mut(&w);
                                    for _ in 0..pos {
                                        let mut o = it.next()?;
                                        o.bump();
                                        tags.push(o.tag());
                                    }
                                    drop(g);
                                    if finish {
                                        for mut o in it {
                                            o.bump();
                                            tags.push(o.tag());
                                        }
                                    }
                                } else {
                                    let mut it = t.iter(&w);
                                    for _ in 0..pos {
                                        tags.push(it.next()?.tag());
                                    }
                                    drop(g);
                                    if finish {
                                        for o in it {
                                            tags.push(o.tag());
                                        }
                                    }
                                }
                                Some(tags)
                            }));
                            let want: Vec<u8> = if finish { full.clone() } else { full[..pos].to_vec() };
                            match r {
                                Ok(Some(tags)) => {
                                    if mutably {
                                        for i in &tags {
                                            m.count[*i as usize] += 1;
                                        }
                                    }
                                    if tags != want {
                                        return Err(fail("iteration-wrong-set", format!("{:?} with the guard released after {} items ({}) yielded {:?}, expected {:?}", op, pos, if finish { "then run to the end" } else { "then dropped" }, tags, want)));
                                    }
                                }
                                Ok(None) => return Err(fail("iteration-wrong-set", format!("{:?}: the iterator ended before the {} items in front of the held resource were yielded", op, pos))),
                                Err(p) => return Err(fail("iteration-panicked", format!("{:?} panicked although the guard of type {} was released after {} items, before the iterator reached it ({}): {}", op, hi, pos, if finish { "then run to the end" } else { "then dropped" }, payload_str(&*p)))),
                            }
                        }
                    }
                }
                let guard = held.and_then(|(i, ex)| hold(&w, i, ex));
                let held_eff = if guard.is_some() { held } else { None };
                // expected sequence: registered & present, in first-registration order, until a conflict / bad cast
                let mut expect: Vec<u8> = Vec::new();
                let mut expect_panic = false;
                for i in &m.reg {
                    if !m.present[*i as usize] {
                        continue;
                    }
                    if *i == 5 {
                        expect_panic = true;
                        break;
                    }
                    if let Some((hi, hex)) = held_eff {
                        if hi == *i && (hex || mutably) {
                            expect_panic = true;
                            break;
                        }
                    }
                    expect.push(*i);
                }
                let want_state = if mutably { 2 } else { 1 };
                let got = drain(&w, &t, mutably, want_state).map_err(|e| fail("iteration-borrow-kind-wrong", e))?;
                drop(guard);
                match got {
                    Err(msg) => {
                        if !expect_panic {
                            return Err(fail("iteration-panicked", format!("{:?} panicked: {}", op, msg)));
                        }
                        // bumps performed before the panic
                        if mutably {
                            for i in &expect {
                                m.count[*i as usize] += 1;
                            }
                        }
                    }
                    Ok(items) => {
                        if expect_panic {
                            let sig = if m.reg.contains(&5) && m.present[5] { "address-changing-cast-accepted" } else { "conflicting-borrow-not-rejected" };
                            return Err(fail(sig, format!("{:?} completed with {:?} although a conflicting guard was alive or the cast is bad", op, items.iter().map(|x| x.0).collect::<Vec<_>>())));
                        }
                        if mutably {
                            for i in &expect {
                                m.count[*i as usize] += 1;
                            }
                        }
                        let tags: Vec<u8> = items.iter().map(|x| x.0).collect();
                        if tags != expect {
                            let sig = if tags.len() != expect.len() { "iteration-wrong-set" } else { "iteration-wrong-order" };
                            return Err(fail(sig, format!("{:?} yielded types {:?}, expected {:?} (first-registration order {:?}, present {:?})", op, tags, expect, m.reg, m.present)));
                        }
                        for (tag, a, c) in &items {
                            if Some(*a) != addrs[*tag as usize] || *c != m.count[*tag as usize] {
                                return Err(fail("wrong-object-returned", format!("{:?}: object of type {} reports addr {:#x} count {}, expected {:?} / {}", op, tag, a, c, addrs[*tag as usize], m.count[*tag as usize])));
                            }
                        }
                        // positional access through the std adaptors (nth, skip, step_by, last, count) sees the same
                        // sequence as next(): an iterator over "the registered types currently present"
                        if held_eff.is_none() {
                            let pos = catch_unwind(AssertUnwindSafe(|| -> Option<String> {
                                let n = expect.len();
                                for k in 0..=n + 1 {
                                    let a = t.iter(&w).nth(k).map(|o| o.tag());
                                    if a != expect.get(k).copied() {
                                        return Some(format!("iter().nth({}) yields {:?}, next() x{} yields {:?}", k, a, k + 1, expect.get(k)));
                                    }
                                    let b = t.iter_mut(&w).nth(k).map(|o| o.tag());
                                    if b != expect.get(k).copied() {
                                        return Some(format!("iter_mut().nth({}) yields {:?}, expected {:?}", k, b, expect.get(k)));
                                    }
                                    let sk: Vec<u8> = t.iter(&w).skip(k).map(|o| o.tag()).collect();
                                    if sk != expect[k.min(n)..] {
                                        return Some(format!("iter().skip({}) yields {:?}, expected {:?}", k, sk, &expect[k.min(n)..]));
                                    }
                                }
                                let st: Vec<u8> = t.iter(&w).step_by(2).map(|o| o.tag()).collect();
                                let want: Vec<u8> = expect.iter().copied().step_by(2).collect();
                                if st != want {
                                    return Some(format!("iter().step_by(2) yields {:?}, expected {:?}", st, want));
                                }
                                let mut it = t.iter(&w);
                                let two = (it.nth(1).map(|o| o.tag()), it.nth(0).map(|o| o.tag()));
                                if two != (expect.get(1).copied(), expect.get(2).copied()) {
                                    return Some(format!("nth(1) then nth(0) on one iterator yield {:?}, expected {:?}", two, (expect.get(1), expect.get(2))));
                                }
                                if t.iter(&w).count() != n || t.iter(&w).last().map(|o| o.tag()) != expect.last().copied() {
                                    return Some("count() / last() disagree with next()".into());
                                }
                                None
                            }));
                            match pos {
                                Ok(None) => {}
                                Ok(Some(e)) => return Err(fail("positional-access-differs-from-next", e)),
                                Err(p) => return Err(fail("iteration-panicked", format!("positional access panicked: {}", payload_str(&*p)))),
                            }
                        }
                    }
                }
                // nothing leaked
                for i in 0..NT as u8 {
                    let s = cell_state(&w, i);
                    let want = if m.present[i as usize] { 0 } else { 3 };
                    if s != want {
                        return Err(fail("borrow-leaked-by-iteration", format!("after {:?} the cell of type {} probes as {} (expected {})", op, i, s, want)));
                    }
                }
            }
        }
    }
    // what the table yields over the history's own world, whichever way its resources were created
    if !(m.reg.contains(&5) && m.present[5]) {
        let want: Vec<u8> = m.reg.iter().copied().filter(|i| m.present[*i as usize]).collect();
        for mutably in [false, true] {
            let got: Result<Vec<u8>, String> = catch_unwind(AssertUnwindSafe(|| if mutably { t.iter_mut(&w).map(|o| o.tag()).collect::<Vec<u8>>() } else { t.iter(&w).map(|o| o.tag()).collect::<Vec<u8>>() })).map_err(|p| payload_str(&*p));
            match got {
                Err(e) => return Err(("iteration-panicked".into(), format!("iterating the world after the history panicked: {}", e), h.len())),
                Ok(g) if g != want => {
                    let sig = if g.len() != want.len() { "iteration-wrong-set" } else { "iteration-wrong-order" };
                    return Err((sig.into(), format!("{} over the history's world yields types {:?}, expected {:?} (first-registration order {:?}, present {:?}, created by {:?} [0 insert, 1 entry API, 2 default provider], decoys under a dynamic id {:?})", if mutably { "iter_mut" } else { "iter" }, g, want, m.reg, m.present, m.prov, m.dyn_present), h.len()));
                }
                Ok(_) => {}
            }
        }
    }
    // observed state: what the table yields over a probe world in which every good type is present
    // (this reads the registration tables themselves, so merged states really have the same futures)
    let mut probe = World::empty();
    for i in 0..4u8 {
        insert(&mut probe, i);
    }
    let observed: Vec<u8> = match catch_unwind(AssertUnwindSafe(|| t.iter(&probe).map(|o| o.tag()).collect::<Vec<u8>>())) {
        Ok(v) => v,
        Err(_) => vec![250],
    };
    let expect: Vec<u8> = m.reg.iter().copied().filter(|i| *i != 5).collect();
    if observed != expect {
        let sig = if observed.len() != expect.len() { "iteration-wrong-set" } else { "iteration-wrong-order" };
        return Err((sig.into(), format!("over a world holding every type the table yields {:?}, first-registration order is {:?}", observed, expect), h.len()));
    }
    // the lookup path (`get`) reads another table than iteration does: probe it for every type too
    let mut got: Vec<u8> = Vec::new();
    for i in 0..5u8 {
        if i == 4 {
            insert(&mut probe, 4);
        }
        let r = catch_unwind(AssertUnwindSafe(|| {
            let res = probe.get_mut_raw(rid(i)).unwrap();
            let addr = res as *mut dyn Resource as *mut u8 as usize;
            t.get(res).map(|o| (o.tag(), o.addr() == addr))
        }));
        let registered = m.reg.contains(&i);
        let code = match r {
            Err(_) => 200,
            Ok(None) => 100,
            Ok(Some((tag, same))) => tag + if same { 0 } else { 50 },
        };
        let want = if registered { i } else { 100 };
        if code != want {
            let sig = match code {
                200 => "meta-get-panicked",
                100 => "registered-type-not-converted",
                _ if !registered => "unregistered-type-converted",
                _ => "wrong-object-returned",
            };
            return Err((sig.into(), format!("get on a resource of type {} gives code {} (tag, +50 = other address, 100 = None, 200 = panic), expected {}", i, code, want), h.len()));
        }
        got.push(code);
    }
    let mut key = observed;
    key.push(97);
    key.extend(got);
    key.push(98);
    key.extend(m.reg.iter().copied().filter(|i| *i == 5));
    key.push(m.rejected_bad as u8);
    key.push(99);
    for i in 0..NT {
        key.push(m.present[i] as u8 | m.prov[i] << 1 | (m.dyn_present[i] as u8) << 3);
    }
    Ok(key)
}

pub struct C17Stats {
    pub histories: u64,
    pub states: u64,
    pub transitions: u64,
    pub max_depth: usize,
    pub capped: bool,
}

fn finding(sig: String, msg: String, h: &[Op17], at: usize) -> Finding {
    Finding {
        prop: "C17".into(),
        sig,
        msg: format!("{} | at step {} of history {:?}", msg, at, h),
        replay: json!({"kind":"c17-history","history": h.iter().map(|o| format!("{:?}", o)).collect::<Vec<_>>()}),
        size: h.len(),
    }
}

pub fn run(depth: usize, deadline: std::time::Instant, threads: usize, col: &mut Collector) -> (C17Stats, Vec<Value>) {
    run_with(alphabet(), depth, deadline, threads, col)
}

pub fn run_with(alpha: Vec<Op17>, depth: usize, deadline: std::time::Instant, threads: usize, col: &mut Collector) -> (C17Stats, Vec<Value>) {
    let mut st = C17Stats { histories: 0, states: 0, transitions: 0, max_depth: 0, capped: false };
    let mut seen: HashSet<Vec<u8>> = HashSet::new();
    let mut frontier: VecDeque<Vec<Op17>> = VecDeque::new();
    seen.insert(run_history(&[]).unwrap_or_default());
    frontier.push_back(vec![]);
    let mut sample = None;
    // level-synchronous BFS, each level in parallel
    let mut level: Vec<Vec<Op17>> = vec![vec![]];
    let mut d = 0;
    while !level.is_empty() && d < depth {
        d += 1;
        if std::time::Instant::now() > deadline {
            st.capped = true;
            break;
        }
        let results: std::sync::Mutex<Vec<(Vec<Op17>, Result<Vec<u8>, Fail>)>> = std::sync::Mutex::new(Vec::new());
        let next = std::sync::atomic::AtomicUsize::new(0);
        let zst = bad_is_zst();
        std::thread::scope(|s| {
            for _ in 0..threads {
                s.spawn(|| {
                    set_bad_is_zst(zst);
                    let mut local = Vec::new();
                    loop {
                        let i = next.fetch_add(1, std::sync::atomic::Ordering::Relaxed);
                        if i >= level.len() {
                            break;
                        }
                        for op in &alpha {
                            let mut h2 = level[i].clone();
                            h2.push(*op);
                            let r = run_history(&h2);
                            local.push((h2, r));
                        }
                    }
                    results.lock().unwrap().extend(local);
                });
            }
        });
        let mut rs = results.into_inner().unwrap();
        rs.sort_by(|a, b| format!("{:?}", a.0).cmp(&format!("{:?}", b.0)));
        let mut nextlevel = Vec::new();
        for (h2, r) in rs {
            st.histories += 1;
            st.transitions += 1;
            match r {
                Ok(key) => {
                    if seen.insert(key) {
                        st.max_depth = st.max_depth.max(h2.len());
                        if sample.is_none() && h2.len() == 4 {
                            sample = Some(json!({"history": h2.iter().map(|o| format!("{:?}", o)).collect::<Vec<_>>()}));
                        }
                        nextlevel.push(h2);
                    }
                }
                Err((sig, msg, at)) => col.add(finding(sig, msg, &h2, at)),
            }
        }
        level = nextlevel;
    }
    let _ = frontier;
    st.states = seen.len() as u64;
    (st, sample.into_iter().collect())
}

// ---------------------------------------------------------------------------
// many registered types: tables of 1..=24 distinct types (different sizes), every type looked up after every
// registration, repeated registrations at every size, iteration over worlds holding every other type
// ---------------------------------------------------------------------------

pub struct Mk<const K: usize>(pub [u8; K], pub u64);
impl<const K: usize> Obj for Mk<K> {
    fn tag(&self) -> u8 {
        K as u8
    }
    fn addr(&self) -> usize {
        self as *const Mk<K> as usize
    }
    fn bump(&mut self) {
        self.1 += 1
    }
    fn count(&self) -> u64 {
        self.1
    }
}
unsafe impl<const K: usize> CastFrom<Mk<K>> for dyn Obj {
    fn cast(t: *mut Mk<K>) -> *mut Self {
        t
    }
}

macro_rules! per_k {
    ($k:expr, $f:ident, $($arg:expr),*) => {
        match $k {
            0 => $f::<0>($($arg),*), 1 => $f::<1>($($arg),*), 2 => $f::<2>($($arg),*), 3 => $f::<3>($($arg),*), 4 => $f::<4>($($arg),*), 5 => $f::<5>($($arg),*),
            6 => $f::<6>($($arg),*), 7 => $f::<7>($($arg),*), 8 => $f::<8>($($arg),*), 9 => $f::<9>($($arg),*), 10 => $f::<10>($($arg),*), 11 => $f::<11>($($arg),*),
            12 => $f::<12>($($arg),*), 13 => $f::<13>($($arg),*), 14 => $f::<14>($($arg),*), 15 => $f::<15>($($arg),*), 16 => $f::<16>($($arg),*), 17 => $f::<17>($($arg),*),
            18 => $f::<18>($($arg),*), 19 => $f::<19>($($arg),*), 20 => $f::<20>($($arg),*), 21 => $f::<21>($($arg),*), 22 => $f::<22>($($arg),*), _ => $f::<23>($($arg),*),
        }
    };
}
fn mk_register<const K: usize>(t: &mut MetaTable<dyn Obj>) {
    t.register::<Mk<K>>()
}
fn mk_insert<const K: usize>(w: &mut World) {
    w.insert(Mk::<K>([0; K], 0))
}
fn mk_get<const K: usize>(t: &MetaTable<dyn Obj>, w: &mut World) -> Option<(u8, bool)> {
    let res = w.get_mut_raw(ResourceId::new::<Mk<K>>())?;
    let addr = res as *mut dyn Resource as *mut u8 as usize;
    t.get(res).map(|o| (o.tag(), o.addr() == addr))
}

/// returns the number of (table size, probe) cases
pub fn many_types_sweep(col: &mut Collector) -> u64 {
    let mut cases = 0u64;
    for repeat_at in 0..=24usize {
        // register types 0..n one after the other; when the table holds `repeat_at` types, register its first,
        // middle and last type once more (a repeat must change nothing)
        let mut t: MetaTable<dyn Obj> = MetaTable::new();
        let mut w = World::empty();
        for k in 0..24usize {
            per_k!(k, mk_insert, &mut w);
        }
        for n in 1..=24usize {
            let reg = catch_unwind(AssertUnwindSafe(|| {
                per_k!(n - 1, mk_register, &mut t);
                if n == repeat_at {
                    for r in [0, n / 2, n - 1] {
                        per_k!(r, mk_register, &mut t);
                    }
                }
            }));
            cases += 1;
            if let Err(p) = reg {
                col.add(Finding {
                    prop: "C17".into(),
                    sig: "register-panicked".into(),
                    msg: format!("registering type #{} (table of {} types{}) panicked: {}", n - 1, n, if n == repeat_at { ", then its first / middle / last type once more" } else { "" }, payload_str(&*p)),
                    replay: json!({"kind":"c17-many-types","n":n,"repeat_at":repeat_at}),
                    size: n,
                });
                break;
            }
            let mut bad: Option<String> = None;
            let r = catch_unwind(AssertUnwindSafe(|| {
                for k in 0..24usize {
                    let got = per_k!(k, mk_get, &t, &mut w);
                    let want = if k < n { Some((k as u8, true)) } else { None };
                    if got != want {
                        return Some(format!("get on a resource of type #{} gives {:?} (tag, same address), expected {:?}", k, got, want));
                    }
                }
                let tags: Vec<u8> = t.iter(&w).map(|o| o.tag()).collect();
                let want: Vec<u8> = (0..n as u8).collect();
                if tags != want {
                    return Some(format!("iter yields types {:?}, expected {:?}", tags, want));
                }
                let tags: Vec<u8> = t.iter_mut(&w).map(|o| o.tag()).collect();
                if tags != want {
                    return Some(format!("iter_mut yields types {:?}, expected {:?}", tags, want));
                }
                None
            }));
            match r {
                Ok(None) => {}
                Ok(Some(e)) => bad = Some(e),
                Err(p) => bad = Some(format!("panicked: {}", payload_str(&*p))),
            }
            if let Some(e) = bad {
                col.add(Finding {
                    prop: "C17".into(),
                    sig: "many-types-table-wrong".into(),
                    msg: format!("table of {} distinct registered types (first / middle / last registered again at size {}): {}", n, repeat_at, e),
                    replay: json!({"kind":"c17-many-types","n":n,"repeat_at":repeat_at}),
                    size: n,
                });
                break;
            }
        }
    }
    cases
}
