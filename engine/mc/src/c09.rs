//! C09: World as a faithful typed map.  Histories of map operations over three
//! resource types (zero-sized, heap-owning, large) x dynamic ids {0,1}, against
//! a BTreeMap reference model, with tracked payloads (E3, DESIGN.md §5.5).

use std::any::TypeId;
use std::cell::{Cell, RefCell};
use std::collections::{BTreeMap, BTreeSet, HashSet, VecDeque};
use std::panic::{catch_unwind, AssertUnwindSafe};

use serde_json::{json, Value};
use shred::{Read, Resource, ResourceId, World, Write};

use crate::report::{Collector, Finding};
use crate::sched::payload_str;

std::thread_local! {
    static NEXT: Cell<u64> = const { Cell::new(1) };
    static LIVE: RefCell<BTreeSet<u64>> = const { RefCell::new(BTreeSet::new()) };
    static ZLIVE: Cell<i64> = const { Cell::new(0) };
    static TRACK_ERR: RefCell<Option<String>> = const { RefCell::new(None) };
    /// the concrete dynamic ids behind the key indices 0..ND (index 0 is always dynamic id 0, the slot of the typed calls)
    static DYN: Cell<[u64; 3]> = const { Cell::new([0, 1, 2]) };
    static ND: Cell<u8> = const { Cell::new(2) };
}

pub fn set_dyn(ids: &[u64]) {
    assert!(ids.len() >= 2 && ids.len() <= 3 && ids[0] == 0);
    let mut a = [0u64, 1, 2];
    a[..ids.len()].copy_from_slice(ids);
    DYN.with(|d| d.set(a));
    ND.with(|n| n.set(ids.len() as u8));
}

fn nd() -> u8 {
    ND.with(|n| n.get())
}

fn reset_tracker() {
    NEXT.with(|n| n.set(1));
    LIVE.with(|l| l.borrow_mut().clear());
    ZLIVE.with(|z| z.set(0));
    TRACK_ERR.with(|e| *e.borrow_mut() = None);
}

fn fresh_serial() -> u64 {
    let s = NEXT.with(|n| {
        let v = n.get();
        n.set(v + 1);
        v
    });
    LIVE.with(|l| l.borrow_mut().insert(s));
    s
}

fn drop_serial(s: u64) {
    let was = LIVE.with(|l| l.borrow_mut().remove(&s));
    if !was {
        TRACK_ERR.with(|e| *e.borrow_mut() = Some(format!("value with serial {} dropped twice (or never constructed)", s)));
    }
}

/// zero-sized
pub struct Z;
impl Default for Z {
    fn default() -> Self {
        ZLIVE.with(|z| z.set(z.get() + 1));
        Z
    }
}
impl Drop for Z {
    fn drop(&mut self) {
        ZLIVE.with(|z| z.set(z.get() - 1));
    }
}

/// heap-owning
pub struct H {
    serial: u64,
    data: Vec<u64>,
    text: String,
}
impl Default for H {
    fn default() -> Self {
        let s = fresh_serial();
        H { serial: s, data: vec![s; 5], text: format!("heap-{}", s) }
    }
}
impl Drop for H {
    fn drop(&mut self) {
        drop_serial(self.serial);
    }
}

/// large
pub struct L {
    head: u64,
    pad: [u64; 62],
    tail: u64,
}
impl Default for L {
    fn default() -> Self {
        let s = fresh_serial();
        L { head: s, pad: [s ^ 0x5555; 62], tail: s }
    }
}
impl Drop for L {
    fn drop(&mut self) {
        drop_serial(self.head);
    }
}

pub trait R9: Resource + Default {
    const TY: u8;
    /// serial (0 for the zero-sized type); also checks internal consistency
    fn serial(&self) -> Result<u64, String>;
}
impl R9 for Z {
    const TY: u8 = 0;
    fn serial(&self) -> Result<u64, String> {
        Ok(0)
    }
}
impl R9 for H {
    const TY: u8 = 1;
    fn serial(&self) -> Result<u64, String> {
        if self.data.len() == 5 && self.data.iter().all(|x| *x == self.serial) && self.text == format!("heap-{}", self.serial) {
            Ok(self.serial)
        } else {
            Err(format!("heap value with serial {} is corrupted", self.serial))
        }
    }
}
impl R9 for L {
    const TY: u8 = 2;
    fn serial(&self) -> Result<u64, String> {
        if self.head == self.tail && self.pad.iter().all(|x| *x == self.head ^ 0x5555) {
            Ok(self.head)
        } else {
            Err(format!("large value with head {} tail {} is corrupted", self.head, self.tail))
        }
    }
}

fn type_id_of(ty: u8) -> TypeId {
    match ty {
        0 => TypeId::of::<Z>(),
        1 => TypeId::of::<H>(),
        _ => TypeId::of::<L>(),
    }
}

fn rid(ty: u8, d: u8) -> ResourceId {
    ResourceId::from_type_id_and_dynamic_id(type_id_of(ty), DYN.with(|x| x.get())[d as usize])
}

#[derive(Clone, Copy, Debug, PartialEq, Eq, Hash)]
pub enum Op9 {
    Insert(u8),
    /// (value type, key type, dyn id)
    InsertById(u8, u8, u8),
    Remove(u8),
    RemoveById(u8, u8, u8),
    EntryOrInsert(u8),
    EntryOrInsertWith(u8),
    HasValue(u8),
    /// presence queries (`has_value`, `has_value_raw`, `entry` is left out) while a shared / exclusive guard of
    /// that very resource is alive: they are not fetches and answer the same
    HasValueHeld(u8, bool),
    HasValueRaw(u8, u8),
    GetMut(u8),
    GetMutRaw(u8, u8),
    TryFetch(u8),
    TryFetchMut(u8),
    Fetch(u8),
    FetchMut(u8),
    TryFetchById(u8, u8, u8),
    TryFetchMutById(u8, u8, u8),
    SetupRead(u8),
    SetupWrite(u8),
    ExecWrite(u8),
    /// `exec` with `(Read<T1>, Write<T2>)`, T1 != T2: each missing member gets its default, whatever else is present
    ExecPair(u8, u8),
    SystemDataOpt(u8),
}

pub fn alphabet(full: bool) -> Vec<Op9> {
    let mut v = Vec::new();
    for t in 0..3u8 {
        v.push(Op9::Insert(t));
        v.push(Op9::Remove(t));
        v.push(Op9::EntryOrInsert(t));
        v.push(Op9::EntryOrInsertWith(t));
        v.push(Op9::HasValue(t));
        v.push(Op9::HasValueHeld(t, false));
        v.push(Op9::HasValueHeld(t, true));
        v.push(Op9::GetMut(t));
        v.push(Op9::TryFetch(t));
        v.push(Op9::TryFetchMut(t));
        v.push(Op9::Fetch(t));
        v.push(Op9::FetchMut(t));
        v.push(Op9::SetupRead(t));
        v.push(Op9::SetupWrite(t));
        v.push(Op9::ExecWrite(t));
        for t2 in 0..3u8 {
            if t2 != t {
                v.push(Op9::ExecPair(t, t2));
            }
        }
        v.push(Op9::SystemDataOpt(t));
        for d in 0..nd() {
            v.push(Op9::HasValueRaw(t, d));
            v.push(Op9::GetMutRaw(t, d));
            for k in 0..3u8 {
                // matching, plus mismatching type arguments
                if k == t || full || (k == (t + 1) % 3 && d == 1) {
                    v.push(Op9::InsertById(t, k, d));
                    v.push(Op9::RemoveById(t, k, d));
                    v.push(Op9::TryFetchById(t, k, d));
                    v.push(Op9::TryFetchMutById(t, k, d));
                }
            }
        }
    }
    v
}

type Model = BTreeMap<(u8, u8), u64>;

/// outcome classes compared between implementation and model
#[derive(Debug, PartialEq, Eq, Clone)]
enum Out {
    Unit,
    Bool(bool),
    /// None / Some(serial)
    Val(Option<u64>),
    Panic,
}

macro_rules! by_type {
    ($ty:expr, $f:ident, $($arg:expr),*) => {
        match $ty {
            0 => $f::<Z>($($arg),*),
            1 => $f::<H>($($arg),*),
            _ => $f::<L>($($arg),*),
        }
    };
}

fn ser<T: R9>(v: &T) -> Result<u64, String> {
    v.serial()
}

// every helper returns (implementation outcome, serial of a value it constructed, if any)
fn do_insert<T: R9>(w: &mut World) -> Result<(Out, Option<u64>), String> {
    let v = T::default();
    let s = ser(&v)?;
    w.insert(v);
    Ok((Out::Unit, Some(s)))
}
fn do_insert_by_id<T: R9>(w: &mut World, id: ResourceId) -> Result<(Out, Option<u64>), String> {
    let v = T::default();
    let s = ser(&v)?;
    w.insert_by_id(id, v);
    Ok((Out::Unit, Some(s)))
}
fn do_remove<T: R9>(w: &mut World) -> Result<(Out, Option<u64>), String> {
    match w.remove::<T>() {
        None => Ok((Out::Val(None), None)),
        Some(v) => Ok((Out::Val(Some(ser(&v)?)), None)),
    }
}
fn do_remove_by_id<T: R9>(w: &mut World, id: ResourceId) -> Result<(Out, Option<u64>), String> {
    match w.remove_by_id::<T>(id) {
        None => Ok((Out::Val(None), None)),
        Some(v) => Ok((Out::Val(Some(ser(&v)?)), None)),
    }
}
fn do_entry<T: R9>(w: &mut World, with: bool) -> Result<(Out, Option<u64>), String> {
    let v = T::default();
    let s = ser(&v)?;
    let g = if with { w.entry::<T>().or_insert_with(move || v) } else { w.entry::<T>().or_insert(v) };
    let got = ser(&*g)?;
    Ok((Out::Val(Some(got)), Some(s)))
}
fn do_has<T: R9>(w: &mut World) -> Result<(Out, Option<u64>), String> {
    Ok((Out::Bool(w.has_value::<T>()), None))
}
fn do_get_mut<T: R9>(w: &mut World) -> Result<(Out, Option<u64>), String> {
    match w.get_mut::<T>() {
        None => Ok((Out::Val(None), None)),
        Some(v) => Ok((Out::Val(Some(ser(v)?)), None)),
    }
}
fn do_try_fetch<T: R9>(w: &mut World) -> Result<(Out, Option<u64>), String> {
    match w.try_fetch::<T>() {
        None => Ok((Out::Val(None), None)),
        Some(v) => Ok((Out::Val(Some(ser(&*v)?)), None)),
    }
}
fn do_try_fetch_mut<T: R9>(w: &mut World) -> Result<(Out, Option<u64>), String> {
    match w.try_fetch_mut::<T>() {
        None => Ok((Out::Val(None), None)),
        Some(v) => Ok((Out::Val(Some(ser(&*v)?)), None)),
    }
}
fn do_fetch<T: R9>(w: &mut World) -> Result<(Out, Option<u64>), String> {
    let v = w.fetch::<T>();
    Ok((Out::Val(Some(ser(&*v)?)), None))
}
fn do_fetch_mut<T: R9>(w: &mut World) -> Result<(Out, Option<u64>), String> {
    let v = w.fetch_mut::<T>();
    Ok((Out::Val(Some(ser(&*v)?)), None))
}
fn do_try_fetch_by_id<T: R9>(w: &mut World, id: ResourceId) -> Result<(Out, Option<u64>), String> {
    match w.try_fetch_by_id::<T>(id) {
        None => Ok((Out::Val(None), None)),
        Some(v) => Ok((Out::Val(Some(ser(&*v)?)), None)),
    }
}
fn do_try_fetch_mut_by_id<T: R9>(w: &mut World, id: ResourceId) -> Result<(Out, Option<u64>), String> {
    match w.try_fetch_mut_by_id::<T>(id) {
        None => Ok((Out::Val(None), None)),
        Some(v) => Ok((Out::Val(Some(ser(&*v)?)), None)),
    }
}
fn do_setup_read<T: R9>(w: &mut World) -> Result<(Out, Option<u64>), String> {
    w.setup::<Read<T>>();
    Ok((Out::Unit, None))
}
fn do_setup_write<T: R9>(w: &mut World) -> Result<(Out, Option<u64>), String> {
    w.setup::<(Write<T>, Option<Read<T>>)>();
    Ok((Out::Unit, None))
}
fn do_exec_write<T: R9>(w: &mut World) -> Result<(Out, Option<u64>), String> {
    let s = w.exec(|d: Write<T>| ser(&*d))?;
    Ok((Out::Val(Some(s)), None))
}
fn do_has_held<T: R9>(w: &mut World, excl: bool) -> Result<(Out, Option<u64>), String> {
    if !w.has_value::<T>() {
        return Ok((Out::Bool(false), None));
    }
    let w: &World = w;
    // fetches of a PRESENT slot while a guard of it is alive: a fetch that the guard rules out panics - it never
    // answers "absent" (None), which would disagree with the presence queries and with the map
    let by_id = |want_shared_ok: bool| -> Result<(), String> {
        let id = ResourceId::new::<T>();
        let sh = catch_unwind(AssertUnwindSafe(|| w.try_fetch_by_id::<T>(id.clone()).is_some()));
        let ex = catch_unwind(AssertUnwindSafe(|| w.try_fetch_mut_by_id::<T>(id.clone()).is_some()));
        let ty = catch_unwind(AssertUnwindSafe(|| w.try_fetch::<T>().is_some()));
        for (what, got, may_succeed) in [("try_fetch_by_id", sh, want_shared_ok), ("try_fetch_mut_by_id", ex, false), ("try_fetch", ty, want_shared_ok)] {
            match got {
                Ok(false) => return Err(format!("fetch-disagrees: {} returned None for a present slot while a guard of it is alive", what)),
                Ok(true) if !may_succeed => return Err(format!("fetch-disagrees: {} returned a guard although a conflicting guard is alive", what)),
                Err(_) if may_succeed => return Err(format!("fetch-disagrees: {} panicked although only a shared guard is alive", what)),
                _ => {}
            }
        }
        Ok(())
    };
    // the same queries made from a destructor that runs while the thread unwinds from a panic (no guard alive):
    // unwinding changes nothing about what the world holds
    {
        struct Probe<'a, T: R9>(&'a World, &'a std::cell::Cell<[bool; 4]>, std::marker::PhantomData<T>);
        impl<'a, T: R9> Drop for Probe<'a, T> {
            fn drop(&mut self) {
                let w = self.0;
                let a = w.try_fetch::<T>().is_some();
                let b = w.try_fetch_mut::<T>().is_some();
                let c = w.try_fetch_by_id::<T>(ResourceId::new::<T>()).is_some();
                let d = w.has_value::<T>() && std::thread::panicking();
                self.1.set([a, b, c, d]);
            }
        }
        let seen = std::cell::Cell::new([false; 4]);
        let _ = catch_unwind(AssertUnwindSafe(|| {
            let _p = Probe::<T>(w, &seen, std::marker::PhantomData);
            std::panic::resume_unwind(Box::new(0u8));
        }));
        let got = seen.get();
        if got != [true; 4] {
            return Err(format!("fetch-disagrees: queried from a destructor while the thread unwinds, a present slot with no guard alive answers try_fetch={} try_fetch_mut={} try_fetch_by_id={} has_value(while panicking)={}", got[0], got[1], got[2], got[3]));
        }
    }
    let (a, b) = if excl {
        let g = w.fetch_mut::<T>();
        let r = (w.has_value::<T>(), w.has_value_raw(ResourceId::new::<T>()));
        by_id(false)?;
        drop(g);
        r
    } else {
        let g = w.fetch::<T>();
        let r = (w.has_value::<T>(), w.has_value_raw(ResourceId::new::<T>()));
        by_id(true)?;
        drop(g);
        r
    };
    Ok((Out::Bool(a && b), None))
}
fn do_exec_pair<A: R9, B: R9>(w: &mut World) -> Result<(Out, Option<u64>), String> {
    let s = w.exec(|(a, b): (Read<A>, Write<B>)| {
        ser(&*a)?;
        ser(&*b)
    })?;
    Ok((Out::Val(Some(s)), None))
}
fn do_sysdata_opt<T: R9>(w: &mut World) -> Result<(Out, Option<u64>), String> {
    let d: Option<Read<T>> = w.system_data();
    match d {
        None => Ok((Out::Val(None), None)),
        Some(v) => Ok((Out::Val(Some(ser(&*v)?)), None)),
    }
}

/// Apply `op` to the world and to the model; Err = disagreement / broken invariant.
fn apply(w: &mut World, m: &mut Model, op: Op9) -> Result<(), (String, String)> {
    let next_before = NEXT.with(|n| n.get());
    let zs = |t: u8, s: u64| if t == 0 { 0 } else { s };
    let r = catch_unwind(AssertUnwindSafe(|| -> Result<(Out, Option<u64>), String> {
        match op {
            Op9::Insert(t) => by_type!(t, do_insert, w),
            Op9::InsertById(t, k, d) => by_type!(t, do_insert_by_id, w, rid(k, d)),
            Op9::Remove(t) => by_type!(t, do_remove, w),
            Op9::RemoveById(t, k, d) => by_type!(t, do_remove_by_id, w, rid(k, d)),
            Op9::EntryOrInsert(t) => by_type!(t, do_entry, w, false),
            Op9::EntryOrInsertWith(t) => by_type!(t, do_entry, w, true),
            Op9::HasValue(t) => by_type!(t, do_has, w),
            Op9::HasValueHeld(t, excl) => by_type!(t, do_has_held, w, excl),
            Op9::HasValueRaw(k, d) => Ok((Out::Bool(w.has_value_raw(rid(k, d))), None)),
            Op9::GetMut(t) => by_type!(t, do_get_mut, w),
            Op9::GetMutRaw(k, d) => Ok((Out::Bool(w.get_mut_raw(rid(k, d)).is_some()), None)),
            Op9::TryFetch(t) => by_type!(t, do_try_fetch, w),
            Op9::TryFetchMut(t) => by_type!(t, do_try_fetch_mut, w),
            Op9::Fetch(t) => by_type!(t, do_fetch, w),
            Op9::FetchMut(t) => by_type!(t, do_fetch_mut, w),
            Op9::TryFetchById(t, k, d) => by_type!(t, do_try_fetch_by_id, w, rid(k, d)),
            Op9::TryFetchMutById(t, k, d) => by_type!(t, do_try_fetch_mut_by_id, w, rid(k, d)),
            Op9::SetupRead(t) => by_type!(t, do_setup_read, w),
            Op9::SetupWrite(t) => by_type!(t, do_setup_write, w),
            Op9::ExecWrite(t) => by_type!(t, do_exec_write, w),
            Op9::ExecPair(a, b) => match (a, b) {
                (0, 1) => do_exec_pair::<Z, H>(w),
                (0, _) => do_exec_pair::<Z, L>(w),
                (1, 0) => do_exec_pair::<H, Z>(w),
                (1, _) => do_exec_pair::<H, L>(w),
                (_, 0) => do_exec_pair::<L, Z>(w),
                _ => do_exec_pair::<L, H>(w),
            },
            Op9::SystemDataOpt(t) => by_type!(t, do_sysdata_opt, w),
        }
    }));
    let (got, made) = match r {
        Ok(Ok((o, made))) => (o, made),
        Ok(Err(e)) => return Err((if e.starts_with("fetch-disagrees") { "fetch-disagrees-with-presence".into() } else { "value-corrupted".into() }, e)),
        Err(p) => {
            let _ = payload_str(&*p);
            (Out::Panic, None)
        }
    };
    // model
    let expect: Out = match op {
        Op9::Insert(t) => {
            m.insert((t, 0), made.unwrap_or(next_before));
            Out::Unit
        }
        Op9::InsertById(t, k, d) => {
            if t != k {
                Out::Panic
            } else {
                m.insert((k, d), made.unwrap_or(next_before));
                Out::Unit
            }
        }
        Op9::Remove(t) => Out::Val(m.remove(&(t, 0)).map(|s| zs(t, s))),
        Op9::RemoveById(t, k, d) => {
            if t != k {
                Out::Panic
            } else {
                Out::Val(m.remove(&(k, d)).map(|s| zs(t, s)))
            }
        }
        Op9::EntryOrInsert(t) | Op9::EntryOrInsertWith(t) => {
            let s = *m.entry((t, 0)).or_insert(made.unwrap_or(next_before));
            Out::Val(Some(zs(t, s)))
        }
        Op9::HasValue(t) | Op9::HasValueHeld(t, _) => Out::Bool(m.contains_key(&(t, 0))),
        Op9::HasValueRaw(k, d) | Op9::GetMutRaw(k, d) => Out::Bool(m.contains_key(&(k, d))),
        Op9::GetMut(t) | Op9::TryFetch(t) | Op9::TryFetchMut(t) | Op9::SystemDataOpt(t) => Out::Val(m.get(&(t, 0)).map(|s| zs(t, *s))),
        Op9::Fetch(t) | Op9::FetchMut(t) => match m.get(&(t, 0)) {
            Some(s) => Out::Val(Some(zs(t, *s))),
            None => Out::Panic,
        },
        Op9::TryFetchById(t, k, d) | Op9::TryFetchMutById(t, k, d) => {
            if t != k {
                Out::Panic
            } else {
                Out::Val(m.get(&(k, d)).map(|s| zs(t, *s)))
            }
        }
        Op9::SetupRead(t) | Op9::SetupWrite(t) => {
            // a default provider creates the value only if absent
            m.entry((t, 0)).or_insert(next_before);
            Out::Unit
        }
        Op9::ExecWrite(t) => {
            let s = *m.entry((t, 0)).or_insert(next_before);
            Out::Val(Some(zs(t, s)))
        }
        Op9::ExecPair(a, b) => {
            // members are set up in order; only the heap-owning and the large type draw a serial number
            let mut nx = next_before;
            if !m.contains_key(&(a, 0)) {
                m.insert((a, 0), nx);
                if a != 0 {
                    nx += 1;
                }
            }
            let s = *m.entry((b, 0)).or_insert(nx);
            Out::Val(Some(zs(b, s)))
        }
    };
    if got != expect {
        let sig = match (&got, &expect) {
            (Out::Panic, _) => "unexpected-panic",
            (_, Out::Panic) => "mismatching-type-argument-accepted-or-missing-panic",
            _ => "result-differs-from-map-model",
        };
        return Err((sig.into(), format!("{:?} returned {:?}, the map model says {:?}", op, got, expect)));
    }
    Ok(())
}

/// Probe the whole universe and compare with the model.
fn probe(w: &mut World, m: &Model) -> Result<(), (String, String)> {
    let nd = nd();
    for t in 0..3u8 {
        for d in 0..nd {
            let id = rid(t, d);
            let present = w.has_value_raw(id.clone());
            if present != m.contains_key(&(t, d)) {
                return Err(("presence-differs".into(), format!("key (type {}, dyn {}) present = {}, model says {}", t, d, present, !present)));
            }
            if let Some(r) = w.get_mut_raw(id.clone()) {
                let tid = (*r).type_id();
                if tid != type_id_of(t) {
                    return Err(("stored-value-has-wrong-type".into(), format!("the value stored under (type {}, dyn {}) has a different concrete type", t, d)));
                }
                // type verified: typed view through the by-id fetch
                let s = match t {
                    0 => w.try_fetch_by_id::<Z>(id).map(|v| v.serial()),
                    1 => w.try_fetch_by_id::<H>(id).map(|v| v.serial()),
                    _ => w.try_fetch_by_id::<L>(id).map(|v| v.serial()),
                };
                match s {
                    Some(Ok(s)) => {
                        if t != 0 && Some(&s) != m.get(&(t, d)) {
                            return Err(("slot-holds-another-value".into(), format!("key (type {}, dyn {}) holds serial {}, model says {:?}", t, d, s, m.get(&(t, d)))));
                        }
                    }
                    Some(Err(e)) => return Err(("value-corrupted".into(), e)),
                    None => return Err(("presence-differs".into(), "by-id fetch found nothing for a present key".into())),
                }
            }
        }
    }
    // tracked payloads: exactly the modelled values are alive
    let live: BTreeSet<u64> = LIVE.with(|l| l.borrow().clone());
    let want: BTreeSet<u64> = m.iter().filter(|((t, _), _)| *t != 0).map(|(_, s)| *s).collect();
    if live != want {
        return Err(("leak-or-double-drop".into(), format!("live tracked values {:?}, the model holds {:?}", live, want)));
    }
    let zl = ZLIVE.with(|z| z.get());
    let zw = m.keys().filter(|(t, _)| *t == 0).count() as i64;
    if zl != zw {
        return Err(("leak-or-double-drop".into(), format!("{} zero-sized values alive, the model holds {}", zl, zw)));
    }
    if let Some(e) = TRACK_ERR.with(|e| e.borrow().clone()) {
        return Err(("leak-or-double-drop".into(), e));
    }
    Ok(())
}

/// Replay a history on a fresh world; returns the presence bitmap of the final state.
pub fn run_history(h: &[Op9]) -> Result<u16, (String, String, usize)> {
    reset_tracker();
    let mut w = World::empty();
    let mut m = Model::new();
    for (i, op) in h.iter().enumerate() {
        apply(&mut w, &mut m, *op).map_err(|(s, e)| (s, e, i))?;
        probe(&mut w, &m).map_err(|(s, e)| (s, e, i))?;
    }
    let mut bits = 0u16;
    for ((t, d), _) in &m {
        bits |= 1 << (t * 3 + d);
    }
    drop(w);
    let live = LIVE.with(|l| l.borrow().len());
    let zl = ZLIVE.with(|z| z.get());
    if live != 0 || zl != 0 {
        return Err(("leak-or-double-drop".into(), format!("{} tracked and {} zero-sized values still alive after the world was dropped", live, zl), h.len()));
    }
    if let Some(e) = TRACK_ERR.with(|e| e.borrow().clone()) {
        return Err(("leak-or-double-drop".into(), e, h.len()));
    }
    Ok(bits)
}

pub struct C9Stats {
    pub histories: u64,
    pub transitions: u64,
    pub states: u64,
    pub max_depth: usize,
    pub capped: bool,
}

fn finding(sig: String, msg: String, h: &[Op9], at: usize) -> Finding {
    Finding {
        prop: "C09".into(),
        sig,
        msg: format!("{} | at step {} of history {:?} | dynamic ids {:?}", msg, at, h, &DYN.with(|d| d.get())[..nd() as usize]),
        replay: json!({"kind":"c09-history","history": h.iter().map(|o| format!("{:?}", o)).collect::<Vec<_>>(), "dyn_ids": DYN.with(|d| d.get())[..nd() as usize].iter().map(|x| x.to_string()).collect::<Vec<_>>()}),
        size: h.len(),
    }
}

/// (a) every history up to `depth` over `alpha` (no de-duplication), in
/// parallel over the first operation; (b) BFS with de-duplication on the
/// observed state (presence bitmap) until closure, every op from every state.
pub fn run(depth: usize, full: bool, dyn_ids: &[u64], deadline: std::time::Instant, threads: usize, col: &mut Collector) -> (C9Stats, Vec<Value>) {
    set_dyn(dyn_ids);
    let alpha = alphabet(full);
    let mut st = C9Stats { histories: 0, transitions: 0, states: 0, max_depth: 0, capped: false };
    // (b) BFS with dedup
    let mut seen: HashSet<u16> = HashSet::new();
    let mut frontier: VecDeque<Vec<Op9>> = VecDeque::new();
    seen.insert(0);
    frontier.push_back(vec![]);
    let mut samples = Vec::new();
    while let Some(h) = frontier.pop_front() {
        for op in &alpha {
            let mut h2 = h.clone();
            h2.push(*op);
            st.transitions += 1;
            st.histories += 1;
            match run_history(&h2) {
                Ok(bits) => {
                    if seen.insert(bits) {
                        st.max_depth = st.max_depth.max(h2.len());
                        frontier.push_back(h2);
                    }
                }
                Err((sig, msg, at)) => col.add(finding(sig, msg, &h2, at)),
            }
        }
    }
    st.states = seen.len() as u64;
    // (a) exhaustive histories without dedup
    let results = std::sync::Mutex::new((0u64, 0u64, Collector::default(), false));
    let next = std::sync::atomic::AtomicUsize::new(0);
    std::thread::scope(|s| {
        for _ in 0..threads {
            s.spawn(|| {
                set_dyn(dyn_ids);
                let mut hist = 0u64;
                let mut trans = 0u64;
                let mut c = Collector::default();
                let mut capped = false;
                loop {
                    let i = next.fetch_add(1, std::sync::atomic::Ordering::Relaxed);
                    if i >= alpha.len() {
                        break;
                    }
                    let mut stack: Vec<usize> = vec![i];
                    // iterative DFS over index vectors
                    fn rec(alpha: &[Op9], h: &mut Vec<Op9>, depth: usize, hist: &mut u64, trans: &mut u64, c: &mut Collector, deadline: std::time::Instant, capped: &mut bool) {
                        if *capped {
                            return;
                        }
                        if *hist % 4096 == 0 && std::time::Instant::now() > deadline {
                            *capped = true;
                            return;
                        }
                        *hist += 1;
                        *trans += h.len() as u64;
                        match run_history(h) {
                            Ok(_) => {}
                            Err((sig, msg, at)) => {
                                c.add(finding(sig, msg, h, at));
                                return;
                            }
                        }
                        if h.len() >= depth {
                            return;
                        }
                        for op in alpha {
                            h.push(*op);
                            rec(alpha, h, depth, hist, trans, c, deadline, capped);
                            h.pop();
                        }
                    }
                    let mut h = vec![alpha[stack.pop().unwrap()]];
                    rec(&alpha, &mut h, depth, &mut hist, &mut trans, &mut c, deadline, &mut capped);
                }
                let mut r = results.lock().unwrap();
                r.0 += hist;
                r.1 += trans;
                r.2.merge(c);
                r.3 |= capped;
            });
        }
    });
    let r = results.into_inner().unwrap();
    st.histories += r.0;
    st.transitions += r.1;
    st.capped = r.3;
    st.max_depth = st.max_depth.max(depth);
    col.merge(r.2);
    samples.push(json!({"history": [format!("{:?}", alpha[1]), format!("{:?}", alpha[alpha.len() / 2]), format!("{:?}", alpha[alpha.len() - 3])], "note": "one of the enumerated histories; every step is compared with the BTreeMap model and followed by a probe of all 6 keys"}));
    (st, samples)
}

// ---------------------------------------------------------------------------
// type zoo: the map laws for resource types that are legitimate but unusual (boxed trait objects of `Resource`
// itself, smart pointers, unit, tuples, options, collections): every history of <= `depth` operations
// ---------------------------------------------------------------------------

pub trait ZooTy: Resource + Sized {
    const NAME: &'static str;
    fn make(n: u64) -> Self;
    fn read(&self) -> u64;
}
impl ZooTy for Box<dyn Resource> {
    const NAME: &'static str = "Box<dyn Resource>";
    fn make(n: u64) -> Self {
        Box::new(n)
    }
    fn read(&self) -> u64 {
        (**self).downcast_ref::<u64>().copied().unwrap_or(u64::MAX)
    }
}
impl ZooTy for Box<u64> {
    const NAME: &'static str = "Box<u64>";
    fn make(n: u64) -> Self {
        Box::new(n)
    }
    fn read(&self) -> u64 {
        **self
    }
}
impl ZooTy for std::sync::Arc<u64> {
    const NAME: &'static str = "Arc<u64>";
    fn make(n: u64) -> Self {
        std::sync::Arc::new(n)
    }
    fn read(&self) -> u64 {
        **self
    }
}
impl ZooTy for u64 {
    const NAME: &'static str = "u64";
    fn make(n: u64) -> Self {
        n
    }
    fn read(&self) -> u64 {
        *self
    }
}
impl ZooTy for () {
    const NAME: &'static str = "()";
    fn make(_: u64) -> Self {}
    fn read(&self) -> u64 {
        0
    }
}
impl ZooTy for (u64, String) {
    const NAME: &'static str = "(u64, String)";
    fn make(n: u64) -> Self {
        (n, n.to_string())
    }
    fn read(&self) -> u64 {
        if self.1 == self.0.to_string() {
            self.0
        } else {
            u64::MAX
        }
    }
}
impl ZooTy for Option<u64> {
    const NAME: &'static str = "Option<u64>";
    fn make(n: u64) -> Self {
        if n % 2 == 0 {
            Some(n)
        } else {
            None
        }
    }
    fn read(&self) -> u64 {
        self.unwrap_or(1)
    }
}
impl ZooTy for Vec<Box<dyn Resource>> {
    const NAME: &'static str = "Vec<Box<dyn Resource>>";
    fn make(n: u64) -> Self {
        vec![Box::new(n), Box::new(n as u8)]
    }
    fn read(&self) -> u64 {
        self.first().and_then(|b| (**b).downcast_ref::<u64>().copied()).unwrap_or(u64::MAX)
    }
}
impl ZooTy for std::sync::Mutex<u64> {
    const NAME: &'static str = "Mutex<u64>";
    fn make(n: u64) -> Self {
        std::sync::Mutex::new(n)
    }
    fn read(&self) -> u64 {
        *self.lock().unwrap()
    }
}

#[derive(Clone, Copy, Debug, PartialEq, Eq)]
pub enum ZOp {
    Insert(u8),
    InsertById(u8),
    Remove(u8),
    Entry,
    SetupWrite,
}

fn zoo_history<T: ZooTy>(h: &[ZOp]) -> Result<(), (String, String, usize)> {
    let ids = [ResourceId::new::<T>(), ResourceId::new_with_dynamic_id::<T>(1)];
    let mut w = World::empty();
    let mut model: [Option<u64>; 2] = [None, None];
    let mut n = 10u64;
    for (step, op) in h.iter().enumerate() {
        n += 2;
        let fail = |sig: &str, msg: String| (sig.to_string(), format!("{} [resource type {}]", msg, T::NAME), step);
        let r = catch_unwind(AssertUnwindSafe(|| -> Result<(), (String, String)> {
            match *op {
                ZOp::Insert(_) => {
                    w.insert(T::make(n));
                    model[0] = Some(T::make(n).read());
                }
                ZOp::InsertById(d) => {
                    w.insert_by_id(ids[d as usize].clone(), T::make(n));
                    model[d as usize] = Some(T::make(n).read());
                }
                ZOp::Remove(d) => {
                    let got = if d == 0 { w.remove::<T>() } else { w.remove_by_id::<T>(ids[1].clone()) };
                    let got = got.map(|v| v.read());
                    if got != model[d as usize] {
                        return Err(("remove-returns-wrong-value".into(), format!("remove of slot {} returned {:?}, the model holds {:?}", d, got, model[d as usize])));
                    }
                    model[d as usize] = None;
                }
                ZOp::Entry => {
                    // (the stored value's type is looked at before anything is read through a typed guard)
                    drop(w.entry::<T>().or_insert_with(|| T::make(n)));
                    if w.get_mut_raw(ids[0].clone()).map(|r| r.is::<T>()) != Some(true) {
                        return Err(("stored-value-has-another-type".into(), "after entry().or_insert_with the value stored in slot 0 is not of the slot's type".to_string()));
                    }
                    let v = w.entry::<T>().or_insert_with(|| T::make(n + 1)).read();
                    let want = model[0].unwrap_or(T::make(n).read());
                    if v != want {
                        return Err(("entry-overwrote-or-lost-value".into(), format!("entry().or_insert_with gave {}, expected {}", v, want)));
                    }
                    model[0] = Some(want);
                }
                ZOp::SetupWrite => {
                    // the typed read path of system data over this type
                    if model[0].is_some() {
                        let v = w.exec(|d: shred::ReadExpect<T>| d.read());
                        if Some(v) != model[0] {
                            return Err(("fetch-differs".into(), format!("ReadExpect sees {}, the model holds {:?}", v, model[0])));
                        }
                    }
                }
            }
            Ok(())
        }));
        match r {
            Ok(Ok(())) => {}
            Ok(Err((sig, msg))) => return Err(fail(&sig, msg)),
            Err(p) => return Err(fail("well-typed-call-panicked", format!("{:?} panicked: {}", op, payload_str(&*p)))),
        }
        // probes on both slots
        for d in 0..2usize {
            let id = ids[d].clone();
            if w.has_value_raw(id.clone()) != model[d].is_some() {
                return Err(fail("presence-differs", format!("after {:?}: slot {} present = {}, model says {}", op, d, w.has_value_raw(id), model[d].is_some())));
            }
            let is_t = w.get_mut_raw(id.clone()).map(|r| r.is::<T>());
            if is_t != model[d].map(|_| true) {
                return Err(fail("stored-value-has-another-type", format!("after {:?}: the value stored in slot {} is a {}: {:?} (None = absent), the model holds {:?}", op, d, T::NAME, is_t, model[d])));
            }
            let got = catch_unwind(AssertUnwindSafe(|| w.try_fetch_by_id::<T>(id.clone()).map(|g| g.read()))).map_err(|p| fail("well-typed-call-panicked", format!("try_fetch_by_id on slot {} panicked: {}", d, payload_str(&*p))))?;
            if got != model[d] {
                return Err(fail("fetch-differs", format!("after {:?}: slot {} fetches as {:?}, the model holds {:?}", op, d, got, model[d])));
            }
        }
    }
    Ok(())
}

fn zoo_type<T: ZooTy>(depth: usize, col: &mut Collector) -> u64 {
    let alpha = [ZOp::Insert(0), ZOp::InsertById(0), ZOp::InsertById(1), ZOp::Remove(0), ZOp::Remove(1), ZOp::Entry, ZOp::SetupWrite];
    let mut count = 0u64;
    let mut level: Vec<Vec<ZOp>> = vec![vec![]];
    for _ in 0..depth {
        let mut next = Vec::new();
        for h in &level {
            for op in &alpha {
                let mut h2 = h.clone();
                h2.push(*op);
                count += 1;
                match zoo_history::<T>(&h2) {
                    Ok(()) => next.push(h2),
                    Err((sig, msg, at)) => col.add(Finding {
                        prop: "C09".into(),
                        sig,
                        msg: format!("{} | at step {} of history {:?}", msg, at, h2),
                        replay: json!({"kind":"c09-zoo-history","type":T::NAME,"history": h2.iter().map(|o| format!("{:?}", o)).collect::<Vec<_>>()}),
                        size: h2.len(),
                    }),
                }
            }
        }
        level = next;
    }
    count
}

/// every history of <= `depth` operations for each zoo type; returns (types, histories)
pub fn zoo_sweep(depth: usize, col: &mut Collector) -> (u64, u64) {
    let mut n = 0;
    n += zoo_type::<Box<dyn Resource>>(depth, col);
    n += zoo_type::<Box<u64>>(depth, col);
    n += zoo_type::<std::sync::Arc<u64>>(depth, col);
    n += zoo_type::<u64>(depth, col);
    n += zoo_type::<()>(depth, col);
    n += zoo_type::<(u64, String)>(depth, col);
    n += zoo_type::<Option<u64>>(depth, col);
    n += zoo_type::<Vec<Box<dyn Resource>>>(depth, col);
    n += zoo_type::<std::sync::Mutex<u64>>(depth, col);
    (9, n)
}

// ---------------------------------------------------------------------------
// fetches made from a destructor while the thread unwinds and a CONFLICTING guard is alive.  On a correct tree the
// fetch panics (a second panic during unwinding: the process aborts), so every case runs in its own child process.
// What must never happen is an ANSWER: "absent" (the slot is present) or a guard (the conflicting one is alive).
// ---------------------------------------------------------------------------

pub const UNWIND_CASES: usize = 8;
pub fn unwind_case_label(k: usize) -> String {
    let (held, q) = (k / 4, k % 4);
    format!("{} guard alive, {} from a destructor during unwinding", if held == 0 { "exclusive" } else { "shared" }, ["try_fetch_mut", "try_fetch_mut_by_id", "try_fetch", "try_fetch_by_id"][q])
}
pub fn unwind_probe_child(k: usize) -> i32 {
    use std::io::Write;
    struct P<'a>(&'a World, usize);
    impl<'a> Drop for P<'a> {
        fn drop(&mut self) {
            let w = self.0;
            let id = ResourceId::new::<u64>();
            let some = match self.1 {
                0 => w.try_fetch_mut::<u64>().is_some(),
                1 => w.try_fetch_mut_by_id::<u64>(id).is_some(),
                2 => w.try_fetch::<u64>().is_some(),
                _ => w.try_fetch_by_id::<u64>(id).is_some(),
            };
            println!("ANSWER {}", if some { "guard" } else { "absent" });
            let _ = std::io::stdout().flush();
        }
    }
    let mut w = World::empty();
    w.insert(5u64);
    let (held, q) = (k / 4, k % 4);
    if held == 1 && q >= 2 {
        // shared + shared is allowed: the answer must be a guard
        let _g = w.fetch::<u64>();
        let _ = catch_unwind(AssertUnwindSafe(|| {
            let _p = P(&w, q);
            std::panic::resume_unwind(Box::new(0u8));
        }));
        println!("DONE");
        return 0;
    }
    println!("START");
    let _ = std::io::stdout().flush();
    if held == 0 {
        let _g = w.fetch_mut::<u64>();
        let _ = catch_unwind(AssertUnwindSafe(|| {
            let _p = P(&w, q);
            std::panic::resume_unwind(Box::new(0u8));
        }));
    } else {
        let _g = w.fetch::<u64>();
        let _ = catch_unwind(AssertUnwindSafe(|| {
            let _p = P(&w, q);
            std::panic::resume_unwind(Box::new(0u8));
        }));
    }
    println!("DONE");
    0
}
/// parent side: number of cases run
pub fn unwind_probe(col: &mut Collector) -> u64 {
    let exe = match std::env::current_exe() {
        Ok(e) => e,
        Err(_) => return 0,
    };
    let mut n = 0;
    for k in 0..UNWIND_CASES {
        let out = match std::process::Command::new(&exe).arg("unwind-probe").arg(k.to_string()).stderr(std::process::Stdio::null()).output() {
            Ok(o) => o,
            Err(_) => continue,
        };
        n += 1;
        let text = String::from_utf8_lossy(&out.stdout).to_string();
        let answer = text.lines().find(|l| l.starts_with("ANSWER")).map(|l| l.to_string());
        let allowed_guard = k / 4 == 1 && k % 4 >= 2;
        let bad = match (&answer, allowed_guard) {
            (Some(a), true) => a != "ANSWER guard",
            (Some(_), false) => true,
            (None, true) => true,
            (None, false) => false,
        };
        if bad {
            col.add(Finding {
                prop: "C09".into(),
                sig: "fetch-disagrees-while-unwinding".into(),
                msg: format!("{}: the fetch of a present slot answered {:?} (expected: {})", unwind_case_label(k), answer, if allowed_guard { "a guard" } else { "no answer - the conflicting guard rules the fetch out, it panics" }),
                replay: json!({"kind":"c09-unwind-probe","case":k}),
                size: 1,
            });
        }
    }
    n
}
