//! Plan-level invariants evaluated in every builder state (E1).

use std::collections::{BTreeMap, BTreeSet};

use crate::hsys::Layout;
use crate::obs::Obs;
use crate::spec::*;

#[derive(Clone, Debug)]
pub struct Viol {
    pub prop: &'static str,
    /// structural signature (matched against known_findings.json)
    pub sig: String,
    pub msg: String,
}

fn v(prop: &'static str, sig: &str, msg: String) -> Viol {
    Viol { prop, sig: sig.to_string(), msg }
}

#[derive(Clone, Copy, Default, Debug)]
pub struct Props {
    pub c01: bool,
    pub c02: bool,
    pub c03: bool,
    pub c04: bool,
    pub c07: bool,
    pub c10: bool,
    pub c12: bool,
    pub c13: bool,
    pub c18: bool,
    pub c20: bool,
    /// check C10 for every system of the state, not only the last one added
    pub c10_all: bool,
    /// a top-level call that was (rightly) rejected is treated as not having happened and the sequence
    /// goes on (C18, C20)
    pub continue_after_reject: bool,
}

impl Props {
    pub fn from_list(l: &[&str]) -> Props {
        let mut p = Props::default();
        for x in l {
            match *x {
                "C01" => p.c01 = true,
                "C02" => p.c02 = true,
                "C03" => p.c03 = true,
                "C04" => p.c04 = true,
                "C07" => p.c07 = true,
                "C10" => p.c10 = true,
                "C12" => p.c12 = true,
                "C13" => p.c13 = true,
                "C18" => {
                    p.c18 = true;
                    p.continue_after_reject = true;
                }
                "C20" => {
                    p.c20 = true;
                    p.continue_after_reject = true;
                }
                _ => {}
            }
        }
        p
    }
}

pub fn sanitize(n: &str) -> String {
    n.replace([' ', '-', '/'], "_")
}

/// does the effective access of `id` (a batch) depend on thread-local systems
/// registered inside it (at any depth)?  returns masks without them.
fn eff_without_tl(info: &PlanInfo, id: usize) -> (u64, u64) {
    let n = &info.nodes[id];
    match n.kind {
        Kind::Tl if n.parent.is_some() => (0, 0),
        Kind::Batch => {
            let mut r = n.reads.iter().fold(0u64, |m, x| m | (1u64 << x));
            let mut w = n.writes.iter().fold(0u64, |m, x| m | (1u64 << x));
            for c in &n.children {
                let (cr, cw) = eff_without_tl(info, *c);
                r |= cr;
                w |= cw;
            }
            (r, w)
        }
        _ => (n.eff_reads, n.eff_writes),
    }
}

fn conflict_masks(a: (u64, u64), b: (u64, u64)) -> bool {
    (a.1 & (b.0 | b.1)) != 0 || (a.0 & b.1) != 0
}

/// Is the call that registered the op at `path` present and successful?
fn call_ok(obs: &Obs, path: &[usize]) -> Option<bool> {
    obs.calls.iter().find(|c| c.path == path).map(|c| c.panic.is_none())
}

pub fn ill_formed(ops: &[Op], idx: usize) -> Option<(&'static str, String)> {
    // names registered by successful earlier calls of this sequence
    let mut names: BTreeSet<&str> = BTreeSet::new();
    for (i, op) in ops.iter().enumerate() {
        let (name, deps): (&str, &[String]) = match op {
            Op::Sys(s) => (&s.name, &s.deps),
            Op::Batch(b) => (&b.name, &b.deps),
            _ => ("", &[]),
        };
        let mut bad: Option<(&'static str, String)> = None;
        for d in deps {
            if !names.contains(d.as_str()) {
                bad = Some(("unknown-dep", d.clone()));
                break;
            }
        }
        if bad.is_none() && !name.is_empty() && names.contains(name) {
            bad = Some(("dup-name", name.to_string()));
        }
        // a system whose `running_time()` panics: the call unwinds with the user's payload and registers nothing
        if bad.is_none() && matches!(op, Op::Sys(s) if s.time == 9) {
            bad = Some(("user-panic", "running_time".to_string()));
        }
        if i == idx {
            return bad;
        }
        if bad.is_none() && !name.is_empty() && matches!(op, Op::Sys(_) | Op::Batch(_)) {
            names.insert(name);
        }
    }
    None
}

/// C18 for one sequence (recursively for inner ones).
fn check_c18_seq(ops: &[Op], path: &mut Vec<usize>, obs: &Obs, out: &mut Vec<Viol>) {
    for (i, op) in ops.iter().enumerate() {
        path.push(i);
        if let Op::Batch(b) = op {
            check_c18_seq(&b.inner, path, obs, out);
        }
        let expect = ill_formed(ops, i);
        match (obs.calls.iter().find(|c| c.path == *path), &expect) {
            (None, _) => {}
            (Some(c), None) => {
                if let Some(p) = &c.panic {
                    out.push(v("C18", "wellformed-call-panicked", format!("well-formed call at {:?} panicked: {}", path, p)));
                }
            }
            (Some(c), Some((kind, name))) => match &c.panic {
                None => out.push(v("C18", "illformed-call-accepted", format!("ill-formed call ({} {:?}) at {:?} did not panic", kind, name, path))),
                Some(msg) => {
                    if *kind == "user-panic" {
                        if !msg.contains("HSYS running_time panics") {
                            out.push(v("C18", "wellformed-call-panicked", format!("the call at {:?} (whose running_time() panics) unwound with another payload: {}", path, msg)));
                        }
                    } else if !msg.contains(&format!("\"{}\"", name)) {
                        out.push(v("C18", "panic-message-lacks-name", format!("panic message of {} at {:?} does not quote {:?}: {}", kind, path, name, msg)));
                    }
                }
            },
        }
        path.pop();
    }
}

/// Every failed call is a top-level call that is ill-formed (so its rejection is right).
pub fn only_expected_rejections(ops: &[Op], obs: &Obs) -> bool {
    obs.build_panic.is_none()
        && obs.calls.iter().all(|c| c.panic.is_none() || (c.path.len() == 1 && matches!(ops.get(c.path[0]), Some(Op::Sys(_))) && ill_formed(ops, c.path[0]).is_some()))
}

/// All builder calls of the plan succeeded?
pub fn all_calls_ok(obs: &Obs) -> bool {
    obs.calls.iter().all(|c| c.panic.is_none())
}

struct SeqView<'a> {
    ops: &'a [Op],
    /// node ids of the members in op order (None for barriers)
    ids: Vec<Option<usize>>,
    layout: &'a Layout,
    depth: usize,
}

fn seq_views<'a>(ops: &'a [Op], info: &PlanInfo, members: &[usize], layout: &'a Layout, depth: usize, out: &mut Vec<SeqView<'a>>) {
    let mut ids = Vec::new();
    let mut k = 0;
    for (i, op) in ops.iter().enumerate() {
        match op {
            Op::Barrier => ids.push(None),
            _ => {
                // a rejected top-level registration has no member
                let is_rejected = depth == 0 && info.rejected.iter().any(|r| info.nodes[*r].op_index == i);
                if is_rejected {
                    ids.push(None);
                } else {
                    ids.push(Some(members[k]));
                    k += 1;
                }
            }
        }
    }
    for (i, op) in ops.iter().enumerate() {
        if let (Op::Batch(b), Some(id)) = (op, ids[i]) {
            if let Some(il) = layout.inner_of(id) {
                seq_views(&b.inner, info, &info.nodes[id].children, il, depth + 1, out);
            }
        }
    }
    out.push(SeqView { ops, ids, layout, depth });
}

fn check_seq(p: &Props, sv: &SeqView, info: &PlanInfo, last_only: bool, out: &mut Vec<Viol>) {
    let l = sv.layout;
    // position table
    let mut pos: BTreeMap<usize, (usize, usize, usize)> = BTreeMap::new();
    let mut seen_twice = false;
    for (s, st) in l.stages.iter().enumerate() {
        for (g, gr) in st.iter().enumerate() {
            for (q, id) in gr.iter().enumerate() {
                if pos.insert(*id, (s, g, q)).is_some() {
                    seen_twice = true;
                }
            }
        }
    }
    let stage_members: Vec<usize> = sv.ids.iter().flatten().copied().filter(|id| info.nodes[*id].kind != Kind::Tl).collect();
    let tl_members: Vec<usize> = sv.ids.iter().flatten().copied().filter(|id| info.nodes[*id].kind == Kind::Tl).collect();

    if p.c04 {
        if seen_twice {
            out.push(v("C04", "system-in-two-slots", format!("a system occupies two slots: {}", l.short())));
        }
        for id in &stage_members {
            if !pos.contains_key(id) {
                out.push(v("C04", "system-missing-from-layout", format!("system {} is not in the executed layout {}", id, l.short())));
            }
        }
        if l.n_systems() != stage_members.len() {
            out.push(v("C04", "slot-count-mismatch", format!("{} slots for {} registered systems: {}", l.n_systems(), stage_members.len(), l.short())));
        }
    }
    if p.c12 {
        for id in &tl_members {
            if pos.contains_key(id) {
                out.push(v("C12", "tl-in-stages", format!("thread-local system {} sits in a stage: {}", id, l.short())));
            }
        }
        if l.tl != tl_members {
            out.push(v("C12", "tl-order", format!("thread-local list {:?}, registered {:?}", l.tl, tl_members)));
        }
    }
    // C07: what is registered inside a batch stays inside it (and runs on every inner dispatch): the thread-local list
    // of every inner dispatcher holds exactly the inner builder's thread-local systems, and nothing of a batch shows
    // up in the list of the dispatcher around it
    if p.c07 && l.tl != tl_members && (sv.depth > 0 || info.nodes.iter().any(|n| n.kind == Kind::Batch)) {
        out.push(v("C07", "batch-thread-local-systems-moved", format!("thread-local list at depth {} is {:?}, registered there {:?}", sv.depth, l.tl, tl_members)));
    }
    if pos.len() != stage_members.len() || stage_members.iter().any(|id| !pos.contains_key(id)) {
        // layout not consistent with registration: the remaining checks would be meaningless
        if !(p.c04) {
            out.push(v("C04", "layout-inconsistent", format!("layout {} does not hold exactly the registered systems {:?}", l.short(), stage_members)));
        }
        return;
    }

    // C01 / C07: isolation of the layout
    if p.c01 || p.c07 {
        for st in &l.stages {
            for (g1, gr1) in st.iter().enumerate() {
                for gr2 in st.iter().skip(g1 + 1) {
                    for a in gr1 {
                        for b in gr2 {
                            if info.conflict(*a, *b) {
                                let involves_batch = info.nodes[*a].kind == Kind::Batch || info.nodes[*b].kind == Kind::Batch;
                                let no_tl = conflict_masks(eff_without_tl(info, *a), eff_without_tl(info, *b));
                                let sig = if !no_tl { "tl-in-batch-not-in-union" } else if involves_batch { "batch-conflict-side-by-side" } else { "conflict-side-by-side" };
                                let msg = format!("systems {} and {} conflict but sit in different groups of one stage: {} (depth {})", a, b, l.short(), sv.depth);
                                if p.c01 {
                                    out.push(v("C01", sig, msg.clone()));
                                }
                                // (inside a batch the inner systems enjoy the same isolation: an inner layout is C07's too)
                                if p.c07 && (involves_batch || sv.depth > 0) {
                                    out.push(v("C07", if involves_batch { sig } else { "inner-conflict-side-by-side" }, msg));
                                }
                            }
                        }
                    }
                }
            }
        }
    }

    // name -> id within this sequence
    let mut names: BTreeMap<&str, usize> = BTreeMap::new();
    let mut barrier_at: Vec<usize> = Vec::new(); // op indices of barriers
    for (i, op) in sv.ops.iter().enumerate() {
        match op {
            Op::Barrier => barrier_at.push(i),
            Op::Sys(_) | Op::Batch(_) => {
                // a rejected registration has no member
                let id = match sv.ids[i] {
                    Some(id) => id,
                    None => continue,
                };
                let n = &info.nodes[id];
                if !n.name.is_empty() {
                    names.entry(n.name.as_str()).or_insert(id);
                }
            }
            _ => {}
        }
    }
    let after = |a: usize, b: usize| -> bool {
        // b strictly after a in the plan order
        let (sa, ga, pa) = pos[&a];
        let (sb, gb, pb) = pos[&b];
        sa < sb || (sa == sb && ga == gb && pa < pb)
    };

    // (C07: inside a batch the inner systems enjoy the same ordering guarantees)
    let c07_inner = p.c07 && sv.depth > 0;
    if p.c02 || c07_inner {
        for id in &stage_members {
            for d in &info.nodes[*id].deps {
                if let Some(a) = names.get(d.as_str()) {
                    if !after(*a, *id) {
                        let msg = format!("system {} depends on {:?} (= {}) but is not ordered after it: {}", id, d, a, l.short());
                        if p.c02 {
                            out.push(v("C02", "dependent-not-after-dependency", msg.clone()));
                        }
                        if c07_inner {
                            out.push(v("C07", "inner-dependent-not-after-dependency", format!("inside a batch (depth {}): {}", sv.depth, msg)));
                        }
                    }
                }
            }
        }
    }
    if p.c03 || c07_inner {
        for x in &stage_members {
            for y in &stage_members {
                if info.nodes[*x].barriers_before < info.nodes[*y].barriers_before && pos[x].0 >= pos[y].0 {
                    let msg = format!("system {} (before a barrier) is in stage {} but system {} (after it) is in stage {}: {}", x, pos[x].0, y, pos[y].0, l.short());
                    if p.c03 {
                        out.push(v("C03", "barrier-not-honoured", msg.clone()));
                    }
                    if c07_inner {
                        out.push(v("C07", "inner-barrier-not-honoured", format!("inside a batch (depth {}): {}", sv.depth, msg)));
                    }
                }
            }
        }
    }
    if p.c10 {
        let members_in_order: Vec<usize> = stage_members.clone();
        let check_one = |x: usize, out: &mut Vec<Viol>| {
            let nx = &info.nodes[x];
            // first stage available after the most recent barrier
            let mut first = 0;
            if nx.barriers_before > 0 {
                for y in &members_in_order {
                    if info.nodes[*y].barriers_before < nx.barriers_before {
                        first = first.max(pos[y].0 + 1);
                    }
                }
            }
            let sx = pos[&x].0;
            for u in first..sx {
                let forced_by_conflict = members_in_order
                    .iter()
                    .any(|y| info.nodes[*y].op_index < nx.op_index && pos[y].0 == u && info.conflict(x, *y));
                let forced_by_dep = nx.deps.iter().any(|d| names.get(d.as_str()).map_or(false, |a| pos[a].0 >= u));
                if !forced_by_conflict && !forced_by_dep {
                    let dep_before_barrier = nx.deps.iter().any(|d| names.get(d.as_str()).map_or(false, |a| info.nodes[*a].barriers_before < nx.barriers_before));
                    let mut dd = nx.deps.clone();
                    dd.sort();
                    let dup = dd.windows(2).any(|w| w[0] == w[1]);
                    let sig = if dep_before_barrier { "dep-in-front-of-barrier" } else if dup { "duplicate-dep-name" } else { "needless-later-stage" };
                    out.push(v("C10", sig, format!("system {} sits in stage {} but nothing forces it past stage {} (first usable stage {}): {}", x, sx, u, first, l.short())));
                    break;
                }
            }
        };
        if last_only {
            if let Some(x) = members_in_order.last() {
                // only if it is the very last op of the sequence
                if sv.ids.last().copied().flatten() == Some(*x) {
                    check_one(*x, out);
                }
            }
        } else {
            for x in &members_in_order {
                check_one(*x, out);
            }
        }
        // pairwise compatible, no deps, no barrier => one stage
        let plain = barrier_at.is_empty() && members_in_order.iter().all(|x| info.nodes[*x].deps.is_empty());
        if plain && !members_in_order.is_empty() {
            let mut compatible = true;
            'o: for a in &members_in_order {
                for b in &members_in_order {
                    if a < b && info.conflict(*a, *b) {
                        compatible = false;
                        break 'o;
                    }
                }
            }
            if compatible && l.stages.len() != 1 {
                out.push(v("C10", "compatible-systems-in-several-stages", format!("pairwise compatible systems without deps/barriers use {} stages: {}", l.stages.len(), l.short())));
            }
        }
    }
}

/// Parse the `seq![ par![ seq![ tok, ... ], ... ], ... ]` text.
pub fn parse_par_seq(text: &str) -> Result<Vec<Vec<Vec<String>>>, String> {
    let lines: Vec<&str> = text.lines().map(|l| l.trim()).filter(|l| !l.is_empty()).collect();
    let mut i = 0;
    let expect = |i: &mut usize, what: &str| -> Result<(), String> {
        if lines.get(*i).copied() == Some(what) {
            *i += 1;
            Ok(())
        } else {
            Err(format!("line {}: expected {:?}, found {:?}", *i, what, lines.get(*i)))
        }
    };
    expect(&mut i, "seq![")?;
    let mut stages = Vec::new();
    while lines.get(i).copied() == Some("par![") {
        i += 1;
        let mut groups = Vec::new();
        while lines.get(i).copied() == Some("seq![") {
            i += 1;
            let mut toks = Vec::new();
            while let Some(l) = lines.get(i) {
                if *l == "]," {
                    break;
                }
                let t = l.strip_suffix(',').ok_or_else(|| format!("line {}: token without comma: {:?}", i, l))?;
                toks.push(t.to_string());
                i += 1;
            }
            expect(&mut i, "],")?;
            groups.push(toks);
        }
        expect(&mut i, "],")?;
        stages.push(groups);
    }
    expect(&mut i, "]")?;
    if i != lines.len() {
        return Err(format!("trailing text after line {}", i));
    }
    Ok(stages)
}

fn check_c20(ops: &[Op], info: &PlanInfo, obs: &Obs, out: &mut Vec<Viol>) {
    for (which, txt) in [("{:?}", &obs.debug), ("{:#?}", &obs.debug_pretty)] {
        let txt = match txt {
            None => continue,
            Some(Err(p)) => {
                let unnamed = info.top.iter().any(|id| info.nodes[*id].name.is_empty() && info.nodes[*id].kind != Kind::Tl);
                let sig = if unnamed { "print-panics-on-unnamed-system" } else { "print-panics" };
                out.push(v("C20", sig, format!("formatting the builder with {} panicked: {}", which, p)));
                continue;
            }
            Some(Ok(t)) => t,
        };
        let parsed = match parse_par_seq(txt) {
            Ok(p) => p,
            Err(e) => {
                out.push(v("C20", "print-unparsable", format!("printed plan does not parse: {}\n{}", e, txt)));
                continue;
            }
        };
        let l = match &obs.layout {
            Some(l) => l,
            None => continue,
        };
        let shape_p: Vec<Vec<usize>> = parsed.iter().map(|s| s.iter().map(|g| g.len()).collect()).collect();
        let shape_l: Vec<Vec<usize>> = l.stages.iter().map(|s| s.iter().map(|g| g.len()).collect()).collect();
        if shape_p != shape_l {
            out.push(v("C20", "print-shape-differs", format!("printed shape {:?} but executed shape {:?}", shape_p, shape_l)));
            continue;
        }
        let registered: BTreeSet<String> = info.top.iter().filter(|id| !info.nodes[**id].name.is_empty()).map(|id| sanitize(&info.nodes[*id].name)).collect();
        for (s, st) in l.stages.iter().enumerate() {
            for (g, gr) in st.iter().enumerate() {
                for (q, id) in gr.iter().enumerate() {
                    let tok = &parsed[s][g][q];
                    let name = &info.nodes[*id].name;
                    if name.is_empty() {
                        if registered.contains(tok) {
                            out.push(v("C20", "placeholder-collides-with-name", format!("unnamed system {} printed as {:?}, which is a registered name", id, tok)));
                        }
                    } else if *tok != sanitize(name) {
                        out.push(v("C20", "print-position-differs", format!("slot ({},{},{}) runs system {} ({:?}) but the print says {:?}\n{}", s, g, q, id, name, tok, txt)));
                    }
                }
            }
        }
    }
    if let Some((t1, t2, shape)) = &obs.debug_stepwise {
        for (which, once, stepwise) in [("{:?}", &obs.debug, t1), ("{:#?}", &obs.debug_pretty, t2)] {
            if let (Some(Ok(a)), Ok(b)) = (once, stepwise) {
                if a != b {
                    out.push(v("C20", "print-depends-on-earlier-prints", format!("a builder that was also printed after every registration prints ({})\n{}but the same registrations printed once give\n{}", which, b, a)));
                }
            } else if let (Some(Ok(_)), Err(p)) = (once, stepwise) {
                out.push(v("C20", "print-panics", format!("printing ({}) a builder that was printed after every registration panicked: {}", which, p)));
            }
        }
        if let (Some(s), true) = (shape, obs.build_panic.is_none()) {
            if *s != obs.shape && !obs.shape.is_empty() {
                out.push(v("C20", "print-changes-the-plan", format!("a builder that was printed after every registration builds shape {:?}, printed once it builds {:?}", s, obs.shape)));
            }
        }
    }
    // what is printed for an unnamed system does not depend on what the other systems are called
    if let (Some(Ok(a)), Some(Ok(b)), Some(l)) = (&obs.debug, &obs.debug_renamed, &obs.layout) {
        if let (Ok(pa), Ok(pb)) = (parse_par_seq(a), parse_par_seq(b)) {
            for (s, st) in l.stages.iter().enumerate() {
                for (g, gr) in st.iter().enumerate() {
                    for (q, id) in gr.iter().enumerate() {
                        if !info.nodes[*id].name.is_empty() {
                            continue;
                        }
                        if let (Some(ta), Some(tb)) = (pa.get(s).and_then(|x| x.get(g)).and_then(|x| x.get(q)), pb.get(s).and_then(|x| x.get(g)).and_then(|x| x.get(q))) {
                            if ta != tb {
                                out.push(v("C20", "placeholder-depends-on-other-names", format!("unnamed system {} is printed as {:?}; with the other systems renamed (fresh names without separators) the same system is printed as {:?}\n{}", id, ta, tb, a)));
                            }
                        }
                    }
                }
            }
        }
    }
    // the placeholders of distinct unnamed systems differ (sanitised NAMES may coincide: "a b" and "a-b" both print as a_b)
    if let (Some(Ok(a)), Some(l)) = (&obs.debug, &obs.layout) {
        if let Ok(pa) = parse_par_seq(a) {
            let mut seen: BTreeSet<&String> = BTreeSet::new();
            for (s, st) in l.stages.iter().enumerate() {
                for (g, gr) in st.iter().enumerate() {
                    for (q, id) in gr.iter().enumerate() {
                        if info.nodes[*id].name.is_empty() {
                            if let Some(t) = pa.get(s).and_then(|x| x.get(g)).and_then(|x| x.get(q)) {
                                if !seen.insert(t) {
                                    out.push(v("C20", "placeholder-used-twice", format!("two unnamed systems are printed with the same placeholder {:?}\n{}", t, a)));
                                }
                            }
                        }
                    }
                }
            }
        }
    }
    if let Some(l) = &obs.layout {
        for (what, l2) in &obs.layout_after_use {
            match l2 {
                Ok(l2) if l2.stages == l.stages && l2.tl == l.tl => {}
                Ok(l2) => out.push(v("C20", "built-dispatcher-no-longer-matches-print", format!("after {} the dispatcher runs {:?} (thread-local {:?}), the printed plan / the fresh dispatcher say {:?} (thread-local {:?})", what, l2.stages, l2.tl, l.stages, l.tl))),
                Err(e) => out.push(v("C20", "built-dispatcher-no-longer-matches-print", format!("after {} the dispatcher's systems can no longer be identified: {}", what, e))),
            }
        }
    }
    let _ = ops;
}

pub fn expected_runs(info: &PlanInfo, id: usize, stage_dispatches: u32, tl_dispatches: u32) -> u32 {
    // number of times the *enclosing* dispatcher is dispatched
    let n = &info.nodes[id];
    match n.parent {
        None => {
            if n.kind == Kind::Tl {
                tl_dispatches
            } else {
                stage_dispatches
            }
        }
        Some(p) => {
            // the inner dispatcher is run with `dispatch` (stages + thread-local) `times` times per run of the batch
            let outer = expected_runs(info, p, stage_dispatches, tl_dispatches);
            outer * info.nodes[p].times as u32
        }
    }
}

pub fn check_state(p: &Props, ops: &[Op], info: &PlanInfo, obs: &Obs, last_only: bool) -> Vec<Viol> {
    let mut out = Vec::new();
    for e in &obs.harness_errors {
        out.push(v("MACHINERY", "harness-error", e.clone()));
    }
    if p.c18 {
        let mut path = Vec::new();
        check_c18_seq(ops, &mut path, obs, &mut out);
        if let Some(e) = &obs.build_panic {
            out.push(v("C18", "build-panicked", format!("build() panicked: {}", e)));
        }
    }
    if p.c20 {
        check_c20(ops, info, obs, &mut out);
    }
    let mut info_local;
    let mut info = info;
    if !all_calls_ok(obs) {
        if !(p.continue_after_reject && only_expected_rejections(ops, obs)) {
            return out;
        }
        // the rejected registrations never happened: drop them from the membership lists
        let rejected: Vec<usize> = obs.calls.iter().filter(|c| c.panic.is_some()).map(|c| c.path[0]).collect();
        info_local = info.clone();
        let gone: Vec<usize> = info_local.nodes.iter().filter(|n| n.parent.is_none() && rejected.contains(&n.op_index)).map(|n| n.id).collect();
        info_local.top.retain(|id| !gone.contains(id));
        info_local.rejected = gone;
        info = &info_local;
    }
    if obs.build_panic.is_some() {
        return out;
    }
    if let Some(e) = &obs.ident_error {
        out.push(v("C04", "identification-failed", format!("executed layout could not be identified: {}", e)));
        return out;
    }
    let l = obs.layout.as_ref().unwrap();
    let mut views = Vec::new();
    seq_views(ops, info, &info.top, l, 0, &mut views);
    for sv in &views {
        // inner sequences are complete builders of their own: check all of their systems
        check_seq(p, sv, info, last_only && sv.depth == 0, &mut out);
    }
    if p.c10 {
        let widest = l.stages.iter().map(|s| s.len()).max().unwrap_or(0);
        if obs.max_threads != widest {
            out.push(v("C10", "max-threads-wrong", format!("max_threads() = {} but the widest stage has {} groups: {}", obs.max_threads, widest, l.short())));
        }
    }
    if p.c12 {
        if let Some(s) = &obs.sendable {
            let has_tl = !l.tl.is_empty();
            match s {
                Ok(shape) => {
                    if has_tl {
                        out.push(v("C12", "sendable-with-tl", "try_into_sendable succeeded although thread-local systems exist".to_string()));
                    }
                    if *shape != obs.shape {
                        out.push(v("C12", "sendable-plan-differs", format!("sendable shape {:?} differs from {:?}", shape, obs.shape)));
                    }
                }
                Err(()) => {
                    if !has_tl {
                        out.push(v("C12", "not-sendable-without-tl", "try_into_sendable failed although there is no thread-local system".to_string()));
                    }
                }
            }
        }
    }
    if p.c12 {
        if let Some((order, runs, panic)) = &obs.sendable_use {
            if let Some(e) = panic {
                out.push(v("C12", "sendable-form-panicked", format!("dispatching the sendable form panicked: {}", e)));
            } else {
                let want: Vec<usize> = l.stages.iter().flatten().flatten().copied().collect();
                if *order != want {
                    out.push(v("C12", "sendable-plan-differs", format!("dispatch_seq of the sendable form begins the systems in the order {:?}, the plan before the conversion is {} (= {:?})", order, l.short(), want)));
                }
                for n in info.nodes.iter().filter(|n| !info.rejected.contains(&n.id)) {
                    let exp = expected_runs(info, n.id, 3, 1);
                    // (thread-local systems: none at top level; inside batches they run with every inner dispatch, and an
                    // inner dispatcher is dispatched by its controller in all three calls)
                    let exp = if n.kind == Kind::Tl { expected_runs(info, n.id, 3, 3) } else { exp };
                    if runs[n.id] != exp {
                        out.push(v("C12", "sendable-plan-differs", format!("after dispatch_seq, dispatch_par and dispatch of the sendable form system {} has run {} times, expected {}: {}", n.id, runs[n.id], exp, l.short())));
                    }
                }
            }
        }
        if let Some((ok, runs, lay, again)) = &obs.after_rejected_conversion {
            if !ok {
                out.push(v("C12", "dispatcher-broken-after-rejected-conversion", "the dispatcher handed back by a rejected try_into_sendable panicked in dispatch".to_string()));
            } else {
                for n in info.nodes.iter().filter(|n| !info.rejected.contains(&n.id)) {
                    let exp = expected_runs(info, n.id, 1, 1);
                    if runs[n.id] != exp {
                        let sig = if n.kind == Kind::Tl { "tl-lost-by-rejected-conversion" } else { "system-lost-by-rejected-conversion" };
                        out.push(v("C12", sig, format!("try_into_sendable was (rightly) rejected; the dispatcher handed back ran system {} {} times in one dispatch, expected {}: {}", n.id, runs[n.id], exp, l.short())));
                    }
                }
                match lay {
                    Some(l2) if l2.stages == l.stages && l2.tl == l.tl => {}
                    Some(l2) => out.push(v("C12", "tl-lost-by-rejected-conversion", format!("the dispatcher handed back by a rejected conversion has layout {} (thread-local {:?}), before the attempt {} (thread-local {:?})", l2.short(), l2.tl, l.short(), l.tl))),
                    None => {}
                }
            }
            if *again {
                out.push(v("C12", "sendable-with-tl", "a second try_into_sendable on the dispatcher handed back by a rejected one succeeded although thread-local systems were registered".to_string()));
            }
        }
        if let Some(rr) = &obs.runs_by_run_now {
            for n in info.nodes.iter().filter(|n| n.kind == Kind::Tl && n.parent.is_none() && !info.rejected.contains(&n.id)) {
                if rr[n.id] != 1 {
                    out.push(v("C12", "tl-not-run-once-by-run-now", format!("thread-local system {} ran {} times when the dispatcher was run through its RunNow implementation (which is a dispatch): {}", n.id, rr[n.id], l.short())));
                }
            }
        }
    }
    if p.c04 {
        if let Some(e) = &obs.dispatch_panic {
            out.push(v("C04", "dispatch-panicked", format!("sequential dispatch script panicked: {}", e)));
        } else if let Some(runs) = &obs.runs {
            for n in &info.nodes {
                if info.rejected.contains(&n.id) {
                    // a (rightly) rejected registration never happened
                    if runs[n.id] != 0 {
                        out.push(v("C04", "rejected-system-ran", format!("system {} was rejected by the builder but ran {} times", n.id, runs[n.id])));
                    }
                    continue;
                }
                let exp = expected_runs(info, n.id, 7, 6);
                if runs[n.id] != exp {
                    let sig = if runs[n.id] < exp { "system-skipped" } else { "system-ran-too-often" };
                    out.push(v("C04", sig, format!("system {} ran {} times after [dispatch_seq, dispatch_par, dispatch, dispatch_thread_local, RunNow::run_now, dispatch on a second world, dispatch on the first world, dispatch from a destructor while unwinding], expected {}: {}", n.id, runs[n.id], exp, l.short())));
                }
            }
        }
    }
    // C07: inside a batch every system - thread-local ones included - runs exactly once on every inner dispatch
    if p.c07 {
        if let (Some(runs), None) = (&obs.runs, &obs.dispatch_panic) {
            for n in info.nodes.iter().filter(|n| n.parent.is_some() && !info.rejected.contains(&n.id)) {
                let exp = expected_runs(info, n.id, 7, 6);
                if runs[n.id] != exp {
                    out.push(v("C07", "inner-system-not-once-per-inner-dispatch", format!("system {} (inside a batch, depth {}{}) ran {} times after [dispatch_seq, dispatch_par, dispatch, dispatch_thread_local, RunNow::run_now, dispatch on a second world, dispatch on the first world, dispatch from a destructor while unwinding], expected {}: {}", n.id, n.depth, if n.kind == Kind::Tl { ", thread-local" } else { "" }, runs[n.id], exp, l.short())));
                }
            }
        }
    }
    if p.c04 {
        for (missing, runs, panic) in &obs.runs_absent {
            let what = if *missing == 0 { "A" } else { "C" };
            if let Some(e) = panic {
                out.push(v("C04", "dispatch-panicked", format!("two dispatches on a world without resource {} (which only optional members name) panicked: {}", what, e)));
                continue;
            }
            for n in info.nodes.iter().filter(|n| !info.rejected.contains(&n.id)) {
                let exp = expected_runs(info, n.id, 2, 2);
                if runs[n.id] != exp {
                    out.push(v("C04", if runs[n.id] < exp { "system-skipped" } else { "system-ran-too-often" }, format!("system {} ran {} times in two dispatches on a world without resource {} (which only Option<Read> / Option<Write> members name), expected {}: {}", n.id, runs[n.id], what, exp, l.short())));
                }
            }
        }
        for (n, r) in &obs.runs_by_pool {
            out.push(v("C04", "run-count-depends-on-pool-size", format!("with a default pool of {} threads the run counters are {:?}, with an unbounded pool {:?}: {}", n, r, obs.runs, l.short())));
        }
    }
    if p.c13 {
        if let Some(e) = &obs.dispatch_panic {
            out.push(v("C13", "setup-dispose-panicked", e.clone()));
        }
        // world side: exactly the default-provided resources are created, existing ones are untouched
        let dflt: u8 = info.nodes.iter().filter(|n| !info.rejected.contains(&n.id)).fold(0, |m, n| m | n.defaults);
        let want = |pre: Option<u64>, bit: u8| -> Option<u64> {
            match pre {
                Some(v) => Some(v),
                None => {
                    if dflt & bit != 0 {
                        Some(0)
                    } else {
                        None
                    }
                }
            }
        };
        for (mask, first, second, third, extra) in &obs.setup_worlds {
            let pre = [if mask & 1 != 0 { Some(7_770u64) } else { None }, if mask & 2 != 0 { Some(7_772u64) } else { None }];
            let exp = [want(pre[0], 1), want(pre[1], 4)];
            let exp3 = [want(None, 1), want(None, 4)];
            for (k, nm) in [(0usize, "A"), (1, "C")] {
                if first[k] != exp[k] {
                    let sig = match (pre[k], first[k]) {
                        (Some(_), Some(_)) => "setup-clobbered-existing-resource",
                        (Some(_), None) => "setup-removed-existing-resource",
                        (None, None) => "setup-did-not-create-default",
                        (None, Some(_)) => if exp[k].is_none() { "setup-created-unexpected-resource" } else { "setup-created-non-default-value" },
                    };
                    out.push(v("C13", sig, format!("resource {} after Dispatcher::setup is {:?}, expected {:?} (pre-inserted: {:?}{})", nm, first[k], exp[k], pre[k], if mask & 4 != 0 { "; the world also holds resources of the same types under other dynamic ids" } else { "" })));
                }
                if second[k] != first[k] {
                    out.push(v("C13", "setup-not-idempotent", format!("a second setup changed resource {} from {:?} to {:?}", nm, first[k], second[k])));
                }
                if third[k] != exp3[k] {
                    out.push(v("C13", "setup-after-remove-wrong", format!("setup; remove; setup leaves resource {} = {:?}, expected {:?}", nm, third[k], exp3[k])));
                }
            }
            if *extra {
                out.push(v("C13", "setup-created-unexpected-resource", if mask & 4 != 0 { "setup touched a resource of the same type under another dynamic id (which nothing declares)".to_string() } else { "setup created a resource nobody declared through a default provider".to_string() }));
            }
        }
        if let Some(su) = &obs.setups {
            for n in info.nodes.iter().filter(|n| !info.rejected.contains(&n.id)) {
                // batch controllers have no setup hook of their own; statically typed systems use the
                // library's default setup (checked through the world above)
                if n.kind != Kind::Batch && !n.is_static && su[n.id] != 1 {
                    out.push(v("C13", "setup-count", format!("system {} (depth {}) was set up {} times", n.id, n.depth, su[n.id])));
                }
            }
        }
        if let Some(su) = &obs.setups2 {
            for n in info.nodes.iter().filter(|n| !info.rejected.contains(&n.id)) {
                if n.kind != Kind::Batch && !n.is_static && su[n.id] != 2 {
                    out.push(v("C13", "setup-skipped-on-populated-world", format!("system {} (depth {}) has been set up {} times after two Dispatcher::setup calls (the second on a world that already holds every resource)", n.id, n.depth, su[n.id])));
                }
            }
        }
        if let Some(di) = &obs.disposes {
            for n in info.nodes.iter().filter(|n| !info.rejected.contains(&n.id)) {
                if n.kind != Kind::Batch && di[n.id] != 1 {
                    let sig = if n.parent.is_some() { "dispose-not-forwarded-into-batch" } else { "dispose-count" };
                    out.push(v("C13", sig, format!("system {} (depth {}) was disposed {} times", n.id, n.depth, di[n.id])));
                }
            }
        }
        if let Some((su, di)) = &obs.setups_via_sendable {
            for n in info.nodes.iter().filter(|n| !info.rejected.contains(&n.id)) {
                if n.kind != Kind::Batch && !n.is_static && su[n.id] != 1 {
                    out.push(v("C13", "setup-count-via-sendable", format!("system {} (depth {}) was set up {} times when the dispatcher was converted and its sendable form set up", n.id, n.depth, su[n.id])));
                }
                if n.kind != Kind::Batch && di[n.id] != 1 {
                    out.push(v("C13", "dispose-count-via-sendable", format!("system {} (depth {}) was disposed {} times when the dispatcher was converted and its sendable form disposed", n.id, n.depth, di[n.id])));
                }
            }
        }
        if let (Some(su), Some(di)) = (&obs.setups_via_run_now, &obs.disposes_via_run_now) {
            for n in info.nodes.iter().filter(|n| !info.rejected.contains(&n.id)) {
                if n.kind != Kind::Batch && !n.is_static && su[n.id] != 1 {
                    out.push(v("C13", "setup-count-via-run-now", format!("system {} (depth {}) was set up {} times when the dispatcher was set up through its RunNow implementation", n.id, n.depth, su[n.id])));
                }
                if n.kind != Kind::Batch && di[n.id] != 1 {
                    out.push(v("C13", "dispose-count-via-run-now", format!("system {} (depth {}) was disposed {} times when the dispatcher was disposed through its RunNow implementation", n.id, n.depth, di[n.id])));
                }
            }
        }
    }
    out
}
