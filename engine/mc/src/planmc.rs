//! E1 `planmc`: exhaustive exploration of the builder's state machine over
//! registration sequences (DESIGN.md §5.4).

use std::collections::HashSet;
use std::sync::atomic::{AtomicUsize, Ordering};
use std::sync::Mutex;
use std::time::Instant;

use serde_json::{json, Value};

use crate::hsys::Ctx;
use crate::inv::*;
use crate::obs::*;
use crate::report::{Collector, Finding};
use crate::spec::*;

// ---------------------------------------------------------------------------
// alphabets
// ---------------------------------------------------------------------------

#[derive(Clone, Debug)]
pub enum Profile {
    /// access x balance: access in {-,R,W}^{A,B,C}, time in `times`
    A { times: Vec<u8> },
    /// dependencies
    B { access: Vec<(Vec<u8>, Vec<u8>)>, times: Vec<u8>, unnamed: bool, dup: bool, pairs: bool },
    /// funnel / capacity
    C { times: Vec<u8> },
    /// funnel over three resources (writers only): several groups can grow side by side
    C3 { times: Vec<u8> },
    /// "ballast" first (a resource-less system of weight `ballast`, which lets later light systems join
    /// groups), then every access set over A,B,C with the light running times
    AJ { ballast: u8, times: Vec<u8> },
    /// barriers
    D { access: Vec<(Vec<u8>, Vec<u8>)> },
    /// barriers x balancing: barrier or {-, R_A, W_A, R_B, W_B} x running time {1, 5}
    DJ,
    /// batches; `inner_max`: max number of ops in an inner plan
    E { inner_max: usize, rich: bool },
    /// thread-local
    F,
    /// small batch alphabet for schedule exploration
    EB,
    /// batches x dependencies x running-time hints: systems and (nested) batches that may depend on one
    /// earlier name
    ED,
    /// "zoo": shallow sequences over a rich alphabet that crosses the features (named / unnamed systems,
    /// thread-local systems, barriers, batches with plain / multi controllers dispatching 1-2 times whose
    /// inner plans contain barriers, thread-local systems, unnamed systems and nested batches)
    Z { inner_max: usize },
    /// statically typed systems, batches with declaring controllers, thread-local (setup / dispose)
    S,
    /// names needing sanitising / unnamed (C20)
    N,
    /// ill-formed calls at every position (C18)
    Ill,
}

fn s(name: String, r: &[u8], w: &[u8], t: u8, deps: Vec<String>) -> Op {
    Op::Sys(SysSpec { name, reads: r.to_vec(), writes: w.to_vec(), time: t, deps })
}

fn named_before(prefix: &[Op]) -> Vec<String> {
    prefix
        .iter()
        .filter_map(|o| match o {
            // (a system whose running_time() panics never was registered: whether its name is taken afterwards is not
            // specified, so nothing later depends on it or re-uses it)
            Op::Sys(s) if !s.name.is_empty() && s.time != 9 => Some(s.name.clone()),
            Op::Batch(b) if !b.name.is_empty() => Some(b.name.clone()),
            Op::Static(st) if !st.name.is_empty() => Some(st.name.clone()),
            _ => None,
        })
        .collect()
}

fn dep_options(names: &[String], dup: bool, pairs: bool) -> Vec<Vec<String>> {
    let mut v = vec![vec![]];
    for n in names {
        v.push(vec![n.clone()]);
    }
    if pairs {
        for i in 0..names.len() {
            for j in i + 1..names.len() {
                v.push(vec![names[i].clone(), names[j].clone()]);
            }
        }
    }
    if dup {
        for n in names {
            v.push(vec![n.clone(), n.clone()]);
        }
        if pairs {
            // a name repeated with another one in between, and pairs listed against registration order
            for i in 0..names.len() {
                for j in i + 1..names.len() {
                    v.push(vec![names[i].clone(), names[j].clone(), names[i].clone()]);
                    v.push(vec![names[j].clone(), names[i].clone(), names[j].clone()]);
                    v.push(vec![names[j].clone(), names[i].clone()]);
                }
            }
        }
    }
    v
}

fn acc27() -> Vec<(Vec<u8>, Vec<u8>)> {
    let mut v = Vec::new();
    for code in 0..27u32 {
        let mut r = vec![];
        let mut w = vec![];
        let mut c = code;
        for res in 0..3u8 {
            match c % 3 {
                1 => r.push(res),
                2 => w.push(res),
                _ => {}
            }
            c /= 3;
        }
        v.push((r, w));
    }
    v
}

fn inner_plans(max_ops: usize, rich: bool) -> Vec<Vec<Op>> {
    let mut alpha: Vec<Op> = Vec::new();
    for (k, (r, w)) in [(vec![0u8], vec![]), (vec![], vec![0u8]), (vec![], vec![1u8])].into_iter().enumerate() {
        alpha.push(s(format!("i{}", k), &r, &w, 3, vec![]));
    }
    if rich {
        alpha.push(Op::Tl(SysSpec { name: String::new(), reads: vec![], writes: vec![1], time: 3, deps: vec![] }));
        for (k, (r, w)) in [(vec![0u8], vec![]), (vec![], vec![0u8]), (vec![], vec![1u8])].into_iter().enumerate() {
            alpha.push(Op::Batch(BatchSpec {
                name: format!("n{}", k),
                deps: vec![],
                ctrl: CtrlData::Unit,
                times: 1,
                multi: false,
                fetch_data: false,
                inner: vec![s("x".into(), &r, &w, 3, vec![])],
            }));
        }
    }
    let mut plans: Vec<Vec<Op>> = vec![vec![]];
    let mut frontier: Vec<Vec<Op>> = vec![vec![]];
    for _ in 0..max_ops {
        let mut next = Vec::new();
        for p in &frontier {
            for a in &alpha {
                // names inside one inner builder must be unique
                let nm = match a {
                    Op::Sys(x) => x.name.clone(),
                    Op::Batch(b) => b.name.clone(),
                    _ => String::new(),
                };
                if !nm.is_empty() && named_before(p).contains(&nm) {
                    continue;
                }
                let mut q = p.clone();
                q.push(a.clone());
                next.push(q);
            }
        }
        plans.extend(next.iter().cloned());
        frontier = next;
    }
    plans
}

impl Profile {
    pub fn label(&self) -> String {
        match self {
            Profile::A { times } => format!("A(access x balance, times {:?})", times),
            Profile::B { access, times, unnamed, dup, pairs } => format!("B(deps; {} access sets, times {:?}, unnamed {}, dup {}, pairs {})", access.len(), times, unnamed, dup, pairs),
            Profile::C { times } => format!("C(funnel, times {:?})", times),
            Profile::C3 { times } => format!("C3(funnel over 3 resources, writers, canonical up to resource renaming, times {:?})", times),
            Profile::AJ { ballast, times } => format!("AJ(ballast of weight {} first, then access {{-,R,W}}^{{A,B,C}} x times {:?}: groups of 2+ form)", ballast, times),
            Profile::D { access } => format!("D(barriers; {} access sets)", access.len()),
            Profile::DJ => "DJ(barriers x balancing: barrier or {-,R_A,W_A,R_B,W_B} x time {1,5})".to_string(),
            Profile::E { inner_max, rich } => format!("E(batches; inner plans of <= {} ops, rich {})", inner_max, rich),
            Profile::F => "F(thread-local)".to_string(),
            Profile::EB => "EB(small batch alphabet)".to_string(),
            Profile::ED => "ED(batches x single dependencies x running time {1,5})".to_string(),
            Profile::Z { inner_max } => format!("Z(feature zoo; inner plans of <= {} ops incl. barriers, thread-local, unnamed, nested / multi batches)", inner_max),
            Profile::S => "S(statically typed systems, declaring controllers, thread-local)".to_string(),
            Profile::N => "N(names)".to_string(),
            Profile::Ill => "Ill(ill-formed calls)".to_string(),
        }
    }

    /// ops that may follow `prefix`; bool = terminal (do not extend further)
    pub fn children(&self, prefix: &[Op]) -> Vec<(Op, bool)> {
        let i = prefix.len();
        let name = format!("s{}", i);
        let mut out = Vec::new();
        match self {
            Profile::A { times } => {
                for (r, w) in acc27() {
                    for t in times {
                        out.push((s(name.clone(), &r, &w, *t, vec![]), false));
                    }
                }
            }
            Profile::B { access, times, unnamed, dup, pairs } => {
                let names = named_before(prefix);
                for (r, w) in access {
                    for t in times {
                        for d in dep_options(&names, *dup, *pairs) {
                            out.push((s(name.clone(), r, w, *t, d.clone()), false));
                            if *unnamed {
                                out.push((s(String::new(), r, w, *t, d), false));
                            }
                        }
                    }
                }
            }
            Profile::C { times } => {
                for (r, w) in [(vec![0u8], vec![]), (vec![], vec![0u8]), (vec![1u8], vec![]), (vec![], vec![1u8])] {
                    for t in times {
                        out.push((s(name.clone(), &r, &w, *t, vec![]), false));
                    }
                }
            }
            Profile::C3 { times } => {
                // canonical up to renaming of the three resources: resource k may appear only after k-1
                // (invariance of the plan under resource renaming is C19's business)
                let used = prefix.iter().filter_map(|o| if let Op::Sys(x) = o { x.writes.first().copied() } else { None }).max().map_or(0, |m| m + 1);
                for w in 0..3u8.min(used + 1) {
                    for t in times {
                        out.push((s(name.clone(), &[], &[w], *t, vec![]), false));
                    }
                }
            }
            Profile::AJ { ballast, times } => {
                if i == 0 {
                    out.push((s(name.clone(), &[], &[], *ballast, vec![]), false));
                } else {
                    for (r, w) in acc27() {
                        for t in times {
                            out.push((s(name.clone(), &r, &w, *t, vec![]), false));
                        }
                    }
                }
            }
            Profile::DJ => {
                out.push((Op::Barrier, false));
                for (r, w) in [(vec![], vec![]), (vec![0u8], vec![]), (vec![], vec![0u8]), (vec![1u8], vec![]), (vec![], vec![1u8])] {
                    for t in [1u8, 5] {
                        out.push((s(name.clone(), &r, &w, t, vec![]), false));
                    }
                }
            }
            Profile::D { access } => {
                out.push((Op::Barrier, false));
                let names = named_before(prefix);
                for (r, w) in access {
                    for d in dep_options(&names, false, false) {
                        out.push((s(name.clone(), r, w, 3, d.clone()), false));
                        if d.is_empty() {
                            out.push((s(String::new(), r, w, 3, d), false));
                        }
                    }
                }
            }
            Profile::E { inner_max, rich } => {
                for (r, w) in [(vec![], vec![]), (vec![0u8], vec![]), (vec![], vec![0u8]), (vec![1u8], vec![]), (vec![], vec![1u8]), (vec![], vec![2u8])] {
                    out.push((s(name.clone(), &r, &w, 3, vec![]), false));
                }
                let ctrls: Vec<CtrlData> = if *rich { vec![CtrlData::Unit, CtrlData::ReadA, CtrlData::WriteA, CtrlData::WriteC] } else { vec![CtrlData::Unit, CtrlData::ReadA, CtrlData::WriteC] };
                for ctrl in ctrls {
                    for inner in inner_plans(*inner_max, *rich) {
                        out.push((
                            Op::Batch(BatchSpec { name: name.clone(), deps: vec![], ctrl, times: 1 + (i as u8 % 2), multi: false, fetch_data: false, inner }),
                            false,
                        ));
                    }
                }
            }
            Profile::S => {
                for d in StaticData::all() {
                    out.push((Op::Static(StaticSpec { name: name.clone(), deps: vec![], data: d, time: 3 }), false));
                }
                out.push((s(name.clone(), &[], &[1], 3, vec![]), false));
                // dynamically declared writers of the two resources the static types can name
                out.push((s(name.clone(), &[], &[0], 3, vec![]), false));
                out.push((s(name.clone(), &[], &[2], 3, vec![]), false));
                out.push((Op::Tl(SysSpec { name: String::new(), reads: vec![], writes: vec![], time: 3, deps: vec![] }), false));
                let st = |d: StaticData| Op::Static(StaticSpec { name: "x".into(), deps: vec![], data: d, time: 3 });
                let inners: Vec<Vec<Op>> = vec![
                    vec![],
                    vec![st(StaticData::ReadA)],
                    vec![st(StaticData::OptWriteC)],
                    vec![st(StaticData::ReadExpectA)],
                    vec![Op::Batch(BatchSpec { name: "n".into(), deps: vec![], ctrl: CtrlData::WriteC, times: 1, multi: false, fetch_data: false, inner: vec![st(StaticData::ReadA)] })],
                    vec![Op::Batch(BatchSpec { name: "n".into(), deps: vec![], ctrl: CtrlData::Unit, times: 1, multi: true, fetch_data: false, inner: vec![st(StaticData::WriteC)] })],
                ];
                for ctrl in [CtrlData::Unit, CtrlData::ReadA, CtrlData::WriteC, CtrlData::OptReadA, CtrlData::DerOptReadAWriteC] {
                    for inner in &inners {
                        out.push((Op::Batch(BatchSpec { name: name.clone(), deps: vec![], ctrl, times: 1, multi: false, fetch_data: false, inner: inner.clone() }), false));
                    }
                }
            }
            Profile::Z { inner_max } => {
                for (r, w) in [(vec![], vec![]), (vec![0u8], vec![]), (vec![], vec![0u8]), (vec![], vec![1u8])] {
                    out.push((s(name.clone(), &r, &w, 3, vec![]), false));
                    out.push((s(String::new(), &r, &w, 3, vec![]), false));
                }
                out.push((Op::Barrier, false));
                out.push((Op::Tl(SysSpec { name: String::new(), reads: vec![], writes: vec![1], time: 3, deps: vec![] }), false));
                // inner plans over a small alphabet that includes a barrier, a thread-local and an unnamed system
                let alpha: Vec<Op> = vec![
                    s("i0".into(), &[0], &[], 3, vec![]),
                    s("i1".into(), &[], &[0], 3, vec![]),
                    s(String::new(), &[], &[1], 3, vec![]),
                    Op::Barrier,
                    Op::Tl(SysSpec { name: String::new(), reads: vec![], writes: vec![], time: 3, deps: vec![] }),
                    Op::Batch(BatchSpec { name: "n".into(), deps: vec![], ctrl: CtrlData::Unit, times: 2, multi: true, fetch_data: false, inner: vec![s("x".into(), &[], &[0], 3, vec![]), Op::Tl(SysSpec { name: String::new(), reads: vec![], writes: vec![], time: 3, deps: vec![] })] }),
                ];
                let mut plans: Vec<Vec<Op>> = vec![vec![]];
                let mut frontier: Vec<Vec<Op>> = vec![vec![]];
                for _ in 0..*inner_max {
                    let mut next = Vec::new();
                    for p in &frontier {
                        for a in &alpha {
                            let nm = match a {
                                Op::Sys(x) => x.name.clone(),
                                Op::Batch(b) => b.name.clone(),
                                _ => String::new(),
                            };
                            if !nm.is_empty() && named_before(p).contains(&nm) {
                                continue;
                            }
                            let mut q = p.clone();
                            q.push(a.clone());
                            next.push(q);
                        }
                    }
                    plans.extend(next.iter().cloned());
                    frontier = next;
                }
                for (ci, ctrl) in [CtrlData::Unit, CtrlData::ReadA, CtrlData::WriteC].into_iter().enumerate() {
                    for (k, inner) in plans.iter().enumerate() {
                        let multi = (k + ci) % 2 == 1;
                        let times = 1 + ((k / 2 + ci) % 2) as u8;
                        out.push((Op::Batch(BatchSpec { name: if k % 3 == 2 { String::new() } else { name.clone() }, deps: vec![], ctrl, times, multi, fetch_data: false, inner: inner.clone() }), false));
                    }
                }
            }
            Profile::ED => {
                let names = named_before(prefix);
                let mut deps: Vec<Vec<String>> = vec![vec![]];
                deps.extend(names.iter().map(|n| vec![n.clone()]));
                for d in &deps {
                    for (r, w) in [(vec![], vec![]), (vec![0u8], vec![]), (vec![], vec![0u8]), (vec![], vec![1u8])] {
                        for t in [1u8, 5] {
                            out.push((s(name.clone(), &r, &w, t, d.clone()), false));
                        }
                    }
                    let leaf = |w: u8| s("x".into(), &[], &[w], 3, vec![]);
                    // names inside a batch are a namespace of their own: an inner system may be called like an outer one
                    let twin = |n: &str| s(n.into(), &[], &[1], 3, vec![]);
                    let inners: Vec<Vec<Op>> = vec![
                        vec![leaf(0)],
                        vec![leaf(1)],
                        vec![twin("s0")],
                        vec![twin("s1")],
                        vec![twin("filler"), twin("s0")],
                        vec![Op::Batch(BatchSpec { name: "n".into(), deps: vec![], ctrl: CtrlData::Unit, times: 1, multi: false, fetch_data: false, inner: vec![leaf(0)] })],
                    ];
                    for inner in inners {
                        out.push((Op::Batch(BatchSpec { name: name.clone(), deps: d.clone(), ctrl: CtrlData::Unit, times: 1, multi: false, fetch_data: false, inner }), false));
                    }
                }
            }
            Profile::EB => {
                for (r, w) in [(vec![0u8], vec![]), (vec![], vec![0u8]), (vec![], vec![1u8])] {
                    out.push((s(name.clone(), &r, &w, 3, vec![]), false));
                }
                let sy = |n: &str, r: &[u8], w: &[u8]| s(n.to_string(), r, w, 3, vec![]);
                let inners: Vec<Vec<Op>> = vec![
                    vec![sy("i0", &[0], &[])],
                    vec![sy("i0", &[], &[0])],
                    vec![sy("i0", &[], &[1])],
                    vec![sy("i0", &[], &[0]), sy("i1", &[], &[1])],
                    vec![sy("i0", &[0], &[]), sy("i1", &[], &[0])],
                    vec![Op::Batch(BatchSpec { name: "n".into(), deps: vec![], ctrl: CtrlData::Unit, times: 1, multi: false, fetch_data: false, inner: vec![sy("x", &[], &[0])] })],
                    vec![Op::Tl(SysSpec { name: String::new(), reads: vec![], writes: vec![1], time: 3, deps: vec![] })],
                ];
                for (ci, ctrl) in [CtrlData::Unit, CtrlData::ReadA, CtrlData::WriteC].into_iter().enumerate() {
                    for (k, inner) in inners.iter().enumerate() {
                        let times = 1 + ((k + ci) % 2) as u8;
                        out.push((
                            Op::Batch(BatchSpec { name: name.clone(), deps: vec![], ctrl, times, multi: (k + ci) % 5 == 4, fetch_data: ctrl != CtrlData::Unit, inner: inner.clone() }),
                            false,
                        ));
                    }
                }
            }
            Profile::F => {
                for (r, w) in [(vec![], vec![]), (vec![0u8], vec![]), (vec![], vec![0u8])] {
                    out.push((s(name.clone(), &r, &w, 3, vec![]), false));
                    out.push((Op::Tl(SysSpec { name: String::new(), reads: r.clone(), writes: w.clone(), time: 3, deps: vec![] }), false));
                }
                out.push((Op::Barrier, false));
                let tl = |r: Vec<u8>, w: Vec<u8>| Op::Tl(SysSpec { name: String::new(), reads: r, writes: w, time: 3, deps: vec![] });
                out.push((
                    Op::Batch(BatchSpec { name: name.clone(), deps: vec![], ctrl: CtrlData::Unit, times: 1, multi: false, fetch_data: false, inner: vec![tl(vec![], vec![])] }),
                    false,
                ));
                out.push((
                    Op::Batch(BatchSpec {
                        name: name.clone(),
                        deps: vec![],
                        ctrl: CtrlData::Unit,
                        times: 2,
                        multi: false,
                        fetch_data: false,
                        inner: vec![s("x".into(), &[], &[1], 3, vec![]), tl(vec![], vec![])],
                    }),
                    false,
                ));
            }
            Profile::N => {
                let used = named_before(prefix);
                for nm in ["a", "", "a b", "a-b", "a/b", "a_b", "b c/d-e", " ", "  ", "--"] {
                    if !nm.is_empty() && used.iter().any(|u| u == nm) {
                        continue;
                    }
                    for (r, w) in [(vec![], vec![]), (vec![], vec![0u8])] {
                        out.push((s(nm.to_string(), &r, &w, 3, vec![]), false));
                    }
                }
                // names outside ASCII (multi-byte characters, with and without a separator)
                // ... and names that start with a digit (a name is printed as it is, it need not be an identifier)
                for nm in ["syst\u{e8}me \u{e9}t\u{e9}", "\u{7269}\u{7406}", "0", "2nd-pass"] {
                    if !used.iter().any(|u| u == nm) {
                        out.push((s(nm.to_string(), &[], &[], 3, vec![]), false));
                    }
                }
            }
            Profile::Ill => {
                let names = named_before(prefix);
                // well-formed continuations
                for (r, w) in [(vec![], vec![]), (vec![], vec![0u8]), (vec![0u8], vec![])] {
                    for d in dep_options(&names, false, false) {
                        out.push((s(name.clone(), &r, &w, 3, d.clone()), false));
                    }
                    out.push((s(String::new(), &r, &w, 3, vec![]), false));
                }
                out.push((Op::Barrier, false));
                // ill-formed ones (terminal)
                let mut bad: Vec<Op> = vec![
                    s(name.clone(), &[], &[], 3, vec!["nope".into()]),
                    s(name.clone(), &[], &[0], 3, vec![name.clone()]),
                    s(name.clone(), &[], &[], 3, vec![format!("s{}", i + 1)]),
                    s(String::new(), &[], &[], 3, vec!["".into()]),
                    s(name.clone(), &[], &[], 3, vec!["with space".into()]),
                ];
                // user code panics inside the call (running_time()): nothing of that system may stay behind
                bad.push(s(name.clone(), &[], &[0], 9, vec![]));
                bad.push(s(String::new(), &[0], &[], 9, vec![]));
                bad.push(s(name.clone(), &[], &[], 9, vec![]));
                if let Some(n0) = names.first() {
                    bad.push(s(n0.clone(), &[], &[0], 3, vec![]));
                    bad.push(s(name.clone(), &[], &[], 3, vec![n0.clone(), "nope".into()]));
                    bad.push(Op::Batch(BatchSpec { name: n0.clone(), deps: vec![], ctrl: CtrlData::Unit, times: 1, multi: false, fetch_data: false, inner: vec![] }));
                    bad.push(Op::Batch(BatchSpec { name: name.clone(), deps: vec!["nope".into()], ctrl: CtrlData::Unit, times: 1, multi: false, fetch_data: false, inner: vec![] }));
                }
                if let Some(nl) = names.last() {
                    bad.push(s(nl.clone(), &[], &[], 3, vec![]));
                }
                // a rejected call is caught by the harness; the sequence may go on (one rejection per sequence)
                let already_rejected = (0..prefix.len()).any(|k| crate::inv::ill_formed(prefix, k).is_some());
                if !already_rejected {
                    for b in bad {
                        out.push((b, false));
                    }
                }
            }
        }
        out
    }
}

// ---------------------------------------------------------------------------
// DFS driver
// ---------------------------------------------------------------------------

#[derive(Default, Clone, Debug)]
pub struct E1Stats {
    pub states: u64,
    pub transitions: u64,
    pub distinct_layouts: u64,
    pub max_depth: usize,
    pub max_stages: usize,
    pub max_group_len: usize,
    pub max_groups: usize,
    pub capped: bool,
    pub barrier_metamorphic: u64,
    pub ill_formed_states: u64,
}

pub struct E1Run<'a> {
    /// abstract -> concrete resource map used for every build of this run
    pub resmap: Vec<u8>,
    /// C19: number of resource relabellings to try per state (0 = off)
    pub c19_maps: usize,
    pub profile: &'a Profile,
    pub depth: usize,
    pub props: Props,
    pub need: Need,
    pub deadline: Instant,
    pub threads: usize,
    /// every builder of this run gets a user-supplied pool of that many threads attached first
    pub user_pool: Option<usize>,
}

struct Worker<'a> {
    run: &'a E1Run<'a>,
    stats: E1Stats,
    layouts: HashSet<u64>,
    col: Collector,
    samples: Vec<Value>,
}

fn hash_state(ops: &[Op], l: &crate::hsys::Layout) -> u64 {
    use std::hash::{Hash, Hasher};
    let mut h = std::collections::hash_map::DefaultHasher::new();
    l.hash(&mut h);
    // annotate with access / time / barrier index per system
    fn ann<H: Hasher>(ops: &[Op], h: &mut H) {
        for o in ops {
            match o {
                Op::Sys(s) | Op::Tl(s) => {
                    let mut r = s.reads.clone();
                    r.sort();
                    r.dedup();
                    let mut w = s.writes.clone();
                    w.sort();
                    w.dedup();
                    (r, w, s.time).hash(h);
                }
                Op::Barrier => 0xBAu8.hash(h),
                Op::Static(st) => (st.data.label(), st.time).hash(h),
                Op::Batch(b) => {
                    (b.ctrl.label(), b.times).hash(h);
                    ann(&b.inner, h);
                }
            }
        }
    }
    ann(ops, &mut h);
    h.finish()
}

fn redundant_barrier_removed(ops: &[Op]) -> Option<Vec<Op>> {
    let mut out = Vec::new();
    let mut since = false; // a stage system registered since the last barrier / start
    let mut removed = false;
    for o in ops {
        match o {
            Op::Barrier => {
                if since {
                    out.push(o.clone());
                    since = false;
                } else {
                    removed = true;
                }
            }
            Op::Sys(_) | Op::Batch(_) | Op::Static(_) => {
                since = true;
                out.push(o.clone());
            }
            Op::Tl(_) => out.push(o.clone()),
        }
    }
    if removed {
        Some(out)
    } else {
        None
    }
}

impl<'a> Worker<'a> {
    fn visit(&mut self, prefix: &mut Vec<Op>, terminal: bool) {
        if self.stats.capped {
            return;
        }
        if self.stats.states % 256 == 0 && Instant::now() > self.run.deadline {
            self.stats.capped = true;
            return;
        }
        let ops: &[Op] = prefix;
        let info = PlanInfo::of(ops);
        let idm = self.run.resmap.clone();
        let obs = observe(ops, &idm, self.run.need);
        self.stats.states += 1;
        if ops.len() > self.stats.max_depth {
            self.stats.max_depth = ops.len();
        }
        let viols = check_state(&self.run.props, ops, &info, &obs, true);
        for vi in viols {
            self.col.add(Finding {
                prop: vi.prop.to_string(),
                sig: vi.sig,
                msg: format!("{} | plan: {}", vi.msg, plan_short(ops)),
                replay: json!({"kind":"plan","ops":plan_json(ops)}),
                size: ops.len() * 100 + plan_short(ops).len().min(99),
            });
        }
        if let Some(l) = &obs.layout {
            self.layouts.insert(hash_state(ops, l));
            self.stats.max_stages = self.stats.max_stages.max(l.stages.len());
            for st in &l.stages {
                self.stats.max_groups = self.stats.max_groups.max(st.len());
                for g in st {
                    self.stats.max_group_len = self.stats.max_group_len.max(g.len());
                }
            }
            if (self.samples.is_empty() && ops.len() >= 2.min(self.run.depth)) || (self.samples.len() < 3 && ops.len() == self.run.depth && (self.stats.states % 977 == 1)) {
                self.samples.push(json!({"plan": plan_short(ops), "executed_layout": l.short()}));
            }
            if self.run.c19_maps > 0 && !all_calls_ok(&obs) && crate::inv::only_expected_rejections(ops, &obs) {
                // (viii) the builder's failure history is not an input: the plan equals the plan of the same
                // sequence without the (rightly) rejected calls
                let rejected: Vec<usize> = obs.calls.iter().filter(|c| c.panic.is_some()).map(|c| c.path[0]).collect();
                let kept: Vec<Op> = ops.iter().enumerate().filter(|(i, _)| !rejected.contains(i)).map(|(_, o)| o.clone()).collect();
                // harness ids are handed out per registration, rejected ones included: close the gaps
                let info = PlanInfo::of(ops);
                let gone: Vec<usize> = info.nodes.iter().filter(|n| n.parent.is_none() && rejected.contains(&n.op_index)).map(|n| n.id).collect();
                let remap = |id: usize| id - gone.iter().filter(|g| **g < id).count();
                let mapped: Vec<Vec<Vec<usize>>> = l.stages.iter().map(|st| st.iter().map(|g| g.iter().map(|x| remap(*x)).collect()).collect()).collect();
                self.stats.barrier_metamorphic += 1;
                match layout_of(&kept, &idm) {
                    Ok(l2) => {
                        if l2.stages != mapped {
                            self.col.add(Finding {
                                prop: "C19".into(),
                                sig: "plan-depends-on-rejected-calls".into(),
                                msg: format!("with the rejected call(s) at {:?} the plan is {} (ids closed up: {:?}), without them {} | plan: {}", rejected, l.short(), mapped, l2.short(), plan_short(ops)),
                                replay: json!({"kind":"plan","ops":plan_json(ops)}),
                                size: ops.len() * 100,
                            });
                        }
                    }
                    Err(e) => self.col.add(Finding { prop: "MACHINERY".into(), sig: "reduced-plan-failed".into(), msg: e, replay: json!({}), size: 0 }),
                }
            }
            if self.run.c19_maps > 0 && all_calls_ok(&obs) {
                let (n, vs) = c19_check(ops, l, self.run.c19_maps);
                self.stats.barrier_metamorphic += n;
                for (sig, msg) in vs {
                    self.col.add(Finding {
                        prop: "C19".into(),
                        sig,
                        msg: format!("{} | plan: {} | layout {}", msg, plan_short(ops), l.short()),
                        replay: json!({"kind":"plan","ops":plan_json(ops)}),
                        size: ops.len() * 100 + plan_short(ops).len().min(99),
                    });
                }
            }
            // C03 metamorphic: redundant barriers change nothing
            if self.run.props.c03 && all_calls_ok(&obs) {
                if let Some(red) = redundant_barrier_removed(ops) {
                    self.stats.barrier_metamorphic += 1;
                    match layout_of(&red, &idm) {
                        Ok(l2) => {
                            if l2 != *l {
                                self.col.add(Finding {
                                    prop: "C03".into(),
                                    sig: "redundant-barrier-changes-plan".into(),
                                    msg: format!("plan {} has layout {} but without its redundant barriers {}", plan_short(ops), l.short(), l2.short()),
                                    replay: json!({"kind":"plan","ops":plan_json(ops)}),
                                    size: ops.len() * 100,
                                });
                            }
                        }
                        Err(e) => self.col.add(Finding { prop: "MACHINERY".into(), sig: "reduced-plan-failed".into(), msg: e, replay: json!({}), size: 0 }),
                    }
                }
            }
        }
        if !all_calls_ok(&obs) {
            self.stats.ill_formed_states += 1;
        }
        if terminal || prefix.len() >= self.run.depth || !(all_calls_ok(&obs) || (self.run.props.continue_after_reject && crate::inv::only_expected_rejections(ops, &obs))) {
            return;
        }
        for (op, term) in self.run.profile.children(prefix) {
            prefix.push(op);
            self.stats.transitions += 1;
            self.visit(prefix, term);
            prefix.pop();
            if self.stats.capped {
                return;
            }
        }
    }
}

pub struct E1Result {
    pub stats: E1Stats,
    pub col: Collector,
    pub samples: Vec<Value>,
}

/// Exhaustive DFS over all sequences of `profile` up to `depth`, parallel over
/// the subtrees below depth `split`.
pub fn run_profile(run: &E1Run) -> E1Result {
    // enumerate prefixes up to the split depth sequentially (they are states too)
    let split = if run.depth >= 3 { 2 } else { 1 }.min(run.depth);
    let mut roots: Vec<(Vec<Op>, bool)> = Vec::new();
    let mut main = Worker { run, stats: E1Stats::default(), layouts: HashSet::new(), col: Collector::default(), samples: vec![] };
    // visit shallow nodes without recursion below `split`
    fn shallow<'a>(w: &mut Worker<'a>, prefix: &mut Vec<Op>, terminal: bool, split: usize, roots: &mut Vec<(Vec<Op>, bool)>) {
        if prefix.len() == split {
            roots.push((prefix.clone(), terminal));
            return;
        }
        // evaluate this node only (depth limit trick: temporarily visit with depth = len)
        let saved_depth = w.run.depth;
        let _ = saved_depth;
        let ops: Vec<Op> = prefix.clone();
        let info = PlanInfo::of(&ops);
        let obs = observe(&ops, &w.run.resmap, w.run.need);
        w.stats.states += 1;
        for vi in check_state(&w.run.props, &ops, &info, &obs, true) {
            w.col.add(Finding {
                prop: vi.prop.to_string(),
                sig: vi.sig,
                msg: format!("{} | plan: {}", vi.msg, plan_short(&ops)),
                replay: json!({"kind":"plan","ops":plan_json(&ops)}),
                size: ops.len() * 100 + plan_short(&ops).len().min(99),
            });
        }
        if let Some(l) = &obs.layout {
            w.layouts.insert(hash_state(&ops, l));
        }
        if terminal || !(all_calls_ok(&obs) || (w.run.props.continue_after_reject && crate::inv::only_expected_rejections(&ops, &obs))) {
            return;
        }
        for (op, term) in w.run.profile.children(prefix) {
            prefix.push(op);
            w.stats.transitions += 1;
            shallow(w, prefix, term, split, roots);
            prefix.pop();
        }
    }
    let mut p0 = Vec::new();
    crate::obs::set_e1_user_pool(run.user_pool);
    shallow(&mut main, &mut p0, false, split, &mut roots);
    crate::obs::set_e1_user_pool(None);

    let next = AtomicUsize::new(0);
    let results: Mutex<Vec<(E1Stats, HashSet<u64>, Collector, Vec<Value>)>> = Mutex::new(Vec::new());
    std::thread::scope(|sc| {
        for _ in 0..run.threads.max(1) {
            sc.spawn(|| {
                crate::obs::set_e1_user_pool(run.user_pool);
                let mut w = Worker { run, stats: E1Stats::default(), layouts: HashSet::new(), col: Collector::default(), samples: vec![] };
                loop {
                    let i = next.fetch_add(1, Ordering::Relaxed);
                    if i >= roots.len() {
                        break;
                    }
                    let (mut prefix, term) = roots[i].clone();
                    w.visit(&mut prefix, term);
                    if w.stats.capped {
                        break;
                    }
                }
                results.lock().unwrap().push((w.stats, w.layouts, w.col, w.samples));
            });
        }
    });
    let mut stats = main.stats;
    let mut layouts = main.layouts;
    let mut col = main.col;
    let mut samples = main.samples;
    for (s2, l2, c2, sm) in results.into_inner().unwrap() {
        stats.states += s2.states;
        stats.transitions += s2.transitions;
        stats.max_depth = stats.max_depth.max(s2.max_depth);
        stats.max_stages = stats.max_stages.max(s2.max_stages);
        stats.max_groups = stats.max_groups.max(s2.max_groups);
        stats.max_group_len = stats.max_group_len.max(s2.max_group_len);
        stats.capped |= s2.capped;
        stats.barrier_metamorphic += s2.barrier_metamorphic;
        stats.ill_formed_states += s2.ill_formed_states;
        layouts.extend(l2);
        col.merge(c2);
        if samples.len() < 4 {
            samples.extend(sm);
        }
    }
    stats.distinct_layouts = layouts.len() as u64;
    samples.truncate(4);
    E1Result { stats, col, samples }
}

// ---------------------------------------------------------------------------
// parametric families (profile G)
// ---------------------------------------------------------------------------

pub fn families(nmax: usize) -> Vec<(String, Vec<Op>)> {
    let mut out = Vec::new();
    // sizes around the ranges of 8-bit counters, whatever `nmax` is: stages, groups of a stage, systems,
    // thread-local systems, dependencies of one system
    for n in [255usize, 256, 257, 300] {
        let nm = |i: usize| format!("s{}", i);
        let free = |name: &str| s(name.into(), &[], &[], 3, vec![]);
        out.push((format!("big: {} stages; barrier; free system", n), (0..n).map(|i| s(nm(i), &[], &[0], 3, vec![])).chain([Op::Barrier, free("after")]).collect()));
        out.push((format!("big: {} stages; free system", n), (0..n).map(|i| s(nm(i), &[], &[0], 3, vec![])).chain([free("after")]).collect()));
        out.push((format!("big: one stage of {} groups; barrier; writer", n), (0..n).map(|i| s(nm(i), &[0], &[], 3, vec![])).chain([Op::Barrier, s("w".into(), &[], &[0], 3, vec![])]).collect()));
        out.push((format!("big: dependency chain of {}", n), (0..n).map(|i| s(nm(i), &[], &[], 3, if i == 0 { vec![] } else { vec![nm(i - 1)] })).collect()));
        out.push((format!("big: sink depending on {} systems", n), (0..n).map(|i| s(nm(i), &[], &[], 3, vec![])).chain([s("sink".into(), &[], &[], 3, (0..n).map(nm).collect())]).collect()));
        out.push((format!("big: {} barriers", n), (0..n).flat_map(|i| vec![free(&nm(i)), Op::Barrier]).chain([free("x"), free("y"), Op::Barrier, free("z")]).collect()));
        out.push((format!("big: {} thread-local systems", n), (0..n).map(|_| Op::Tl(SysSpec { name: String::new(), reads: vec![], writes: vec![], time: 3, deps: vec![] })).chain([free("x")]).collect()));
    }
    // a sink with THREE dependencies whose stages do not follow registration order (a in stage 0, c in stage 1, b in
    // stage 2, with further stages behind): it belongs right behind the last of them
    for tail in 0..=3usize {
        for extra in [false, true] {
            let mut v = vec![s("a".into(), &[], &[0, 1], 3, vec![]), s("p1".into(), &[], &[0], 3, vec![]), s("b".into(), &[], &[0], 3, vec![])];
            for i in 0..tail {
                v.push(s(format!("t{}", i), &[], &[0], 3, vec![]));
            }
            v.push(s("c".into(), &[], &[1], 3, vec![]));
            if extra {
                v.push(s("e".into(), &[], &[2], 3, vec![]));
            }
            let mut deps: Vec<String> = vec!["a".into(), "b".into(), "c".into()];
            if extra {
                deps.push("e".into());
            }
            v.push(s("sink".into(), &[], &[], 3, deps));
            out.push((format!("sink-with-dependencies-out-of-stage-order({} stages behind the last dependency{})", tail, if extra { ", a fourth dependency in stage 0" } else { "" }), v));
        }
    }
    // a dependency-free batch (and, for comparison, a plain system) behind a barrier as the 4th..6th group of its stage,
    // with a roomier stage in front of the barrier
    for k in 3..=5usize {
        for plain in [false, true] {
            let mut v = vec![s("p".into(), &[], &[], 3, vec![]), Op::Barrier];
            for i in 0..k {
                v.push(s(format!("q{}", i), &[], &[], 3, vec![]));
            }
            if plain {
                v.push(s("late".into(), &[], &[], 3, vec![]));
            } else {
                v.push(Op::Batch(BatchSpec { name: "late".into(), deps: vec![], ctrl: CtrlData::Unit, times: 1, multi: false, fetch_data: false, inner: vec![s("i".into(), &[], &[], 3, vec![])] }));
            }
            out.push((format!("crowded-stage-behind-barrier({} groups, then a {})", k, if plain { "system" } else { "batch" }), v));
        }
    }
    // a REJECTED registration (a second system under a name that is taken) in the middle of a sequence: the systems
    // registered after it, and later dependants of that name, are planned as if the call had never been made
    for chain in 0..=2usize {
        for after in 1..=3usize {
            let mut v: Vec<Op> = Vec::new();
            let mut prev: Option<String> = None;
            for i in 0..chain {
                let n = format!("d{}", i);
                v.push(s(n.clone(), &[], &[], 3, prev.iter().cloned().collect()));
                prev = Some(n);
            }
            v.push(s("a".into(), &[], &[], 3, prev.iter().cloned().collect()));
            v.push(s("a".into(), &[], &[0], 3, vec![]));
            for i in 0..after {
                v.push(s(format!("c{}", i), &[], &[], if i == 0 { 1 } else { 3 }, vec![]));
            }
            v.push(s("b".into(), &[], &[], 2, vec!["a".into()]));
            out.push((format!("rejected-duplicate-then-dependent(chain of {} in front of the name, {} systems between)", chain, after), v));
        }
    }
    // names of every length 1..80 bytes and around the powers of two up to 1024 (inline buffers, length prefixes):
    // two conflicting systems and a dependent, so that the name is registered, looked up and printed
    for n in (1..=80usize).chain([127, 128, 129, 255, 256, 257, 511, 512, 513, 1023, 1024, 1025]) {
        let long: String = "abcdefghijklmnopqrstuvwxyz-/ .0123456789".chars().cycle().take(n).collect();
        out.push((format!("name-length({} bytes)", n), vec![s(long.clone(), &[], &[0], 3, vec![]), s("y".into(), &[], &[0], 3, vec![]), s(String::new(), &[0], &[], 3, vec![long.clone()])]));
        // the same length in 2-byte characters (n even) - a byte count, not a character count
        if n % 2 == 0 && n <= 80 {
            let wide: String = "éàüöß".chars().cycle().take(n / 2).collect();
            out.push((format!("name-length({} bytes, 2-byte characters)", n), vec![s(wide.clone(), &[], &[0], 3, vec![]), s("y".into(), &[], &[0], 3, vec![wide.clone()])]));
        }
    }
    // a stage of f groups in front of a barrier; behind it a heavy group, fillers and a light group at index g; then a
    // system that joins the light group for balance and also writes what front group x writes (stage indices that are
    // relative to the barrier in one place and absolute in another)
    for f in 2..=3usize {
        for g in 1..=3usize {
            for x in 0..f {
                let mut v: Vec<Op> = (0..f).map(|i| s(format!("f{}", i), &[], &[i as u8], 3, vec![])).collect();
                v.push(Op::Barrier);
                v.push(s("q0".into(), &[], &[4], 5, vec![]));
                for j in 1..g {
                    v.push(s(format!("fill{}", j), &[], &[], 1, vec![]));
                }
                v.push(s("q1".into(), &[], &[5], 1, vec![]));
                v.push(s("joiner".into(), &[], &[5, x as u8], 2, vec![]));
                out.push((format!("joiner-behind-barrier(front {} groups, light group at index {}, shares resource {} with the front)", f, g, x), v));
            }
        }
    }
    // a batch whose inner plan has a system that JOINS an existing inner group (one conflict + balance) and brings a
    // resource nobody else inside names; an outer system uses that resource (before / after the batch)
    for (jr, jw) in [(vec![1u8], vec![2u8]), (vec![], vec![1u8, 2]), (vec![1u8, 2], vec![])] {
        for outer_write in [true, false] {
            if !outer_write && jw.is_empty() {
                continue;
            }
            let inner = vec![s("h".into(), &[], &[3], 5, vec![]), s("l".into(), &[], &[1], 1, vec![]), s("j".into(), &jr, &jw, 2, vec![])];
            let inner_dep = vec![s("h".into(), &[], &[3], 5, vec![]), s("l".into(), &[], &[], 1, vec![]), s("j".into(), &[], &[2], 2, vec!["l".into()])];
            let o = if outer_write { s("o".into(), &[], &[2], 3, vec![]) } else { s("o".into(), &[2], &[], 3, vec![]) };
            for (what, inn) in [("through a shared resource", inner), ("through a dependency only", inner_dep)] {
                let bt = Op::Batch(BatchSpec { name: "b".into(), deps: vec![], ctrl: CtrlData::Unit, times: 1, multi: false, fetch_data: false, inner: inn });
                out.push((format!("batch-inner-joiner ({}; joiner reads {:?} writes {:?}); outer {} of C", what, jr, jw, if outer_write { "writer" } else { "reader" }), vec![bt.clone(), o.clone()]));
                out.push((format!("outer {} of C; batch-inner-joiner ({}; joiner reads {:?} writes {:?})", if outer_write { "writer" } else { "reader" }, what, jr, jw), vec![o.clone(), bt]));
            }
        }
    }
    for n in 1..=nmax {
        let nm = |i: usize| format!("s{}", i);
        out.push((format!("writers({})", n), (0..n).map(|i| s(nm(i), &[], &[0], 3, vec![])).collect()));
        out.push((format!("readers({})", n), (0..n).map(|i| s(nm(i), &[0], &[], 3, vec![])).collect()));
        out.push((format!("alternating({})", n), (0..n).map(|i| if i % 2 == 0 { s(nm(i), &[0], &[], 3, vec![]) } else { s(nm(i), &[], &[0], 3, vec![]) }).collect()));
        out.push((format!("dep-chain({})", n), (0..n).map(|i| s(nm(i), &[], &[], 3, if i == 0 { vec![] } else { vec![nm(i - 1)] })).collect()));
        out.push((format!("independent({})", n), (0..n).map(|i| s(nm(i), &[], &[], 1 + (i % 5) as u8, vec![])).collect()));
        out.push((format!("unnamed-writers({})", n), (0..n).map(|_| s(String::new(), &[], &[1], 5, vec![])).collect()));
        // time cycle funnel: one long reader-side group, many short writers joining
        out.push((
            format!("funnel({})", n),
            (0..n)
                .map(|i| if i == 0 { s(nm(i), &[], &[0], 5, vec![]) } else if i == 1 { s(nm(i), &[], &[1], 1, vec![]) } else { s(nm(i), &[1], &[], 1, vec![]) })
                .collect(),
        ));
        out.push((
            format!("two-lanes({})", n),
            (0..n).map(|i| if i % 2 == 0 { s(nm(i), &[], &[0], 1 + (i % 5) as u8, vec![]) } else { s(nm(i), &[], &[1], 1 + ((i / 2) % 5) as u8, vec![]) }).collect(),
        ));
        if n <= 7 {
            // batches nested n deep (alternating hand-written / MultiDispatcher controllers, every level dispatching its
            // inner plan twice): the innermost level writes A and has a thread-local system, the outermost level has a
            // reader of A behind the batch; a level in the middle holds only a barrier besides the next batch
            let mut inner: Vec<Op> = vec![s("deep".into(), &[], &[0], 3, vec![]), Op::Tl(SysSpec { name: String::new(), reads: vec![], writes: vec![], time: 3, deps: vec![] })];
            for lvl in 0..n {
                let mut v = vec![Op::Batch(BatchSpec { name: format!("b{}", lvl), deps: vec![], ctrl: if lvl % 3 == 2 { CtrlData::ReadC } else { CtrlData::Unit }, times: 2, multi: lvl % 2 == 1, fetch_data: false, inner })];
                if lvl == n / 2 {
                    v.insert(0, Op::Barrier);
                }
                inner = v;
            }
            let mut top = inner.clone();
            top.push(s("out".into(), &[0], &[], 3, vec![]));
            out.push((format!("nested-batches({}) + outer reader", n), top));
            let mut top = vec![s("out".into(), &[0], &[], 1, vec![])];
            top.extend(inner);
            out.push((format!("outer reader + nested-batches({})", n), top));
        }
        // n effective barriers: n resource-less systems each followed by a barrier, then two free systems, a barrier
        // and one more; the same with every barrier doubled, and with a leading barrier
        {
            let free = |name: String| s(name, &[], &[], 3, vec![]);
            let mut v: Vec<Op> = Vec::new();
            let mut v2: Vec<Op> = vec![Op::Barrier];
            for i in 0..n {
                v.push(free(nm(i)));
                v.push(Op::Barrier);
                v2.push(free(nm(i)));
                v2.push(Op::Barrier);
                v2.push(Op::Barrier);
            }
            for w in [&mut v, &mut v2] {
                w.push(free("x".into()));
                w.push(free("y".into()));
                w.push(Op::Barrier);
                w.push(free("z".into()));
            }
            out.push((format!("barriers({})", n), v));
            out.push((format!("doubled-barriers({})", n), v2));
        }
        if n <= 12 {
            // a dependency list of n + 2 names in which one name occurs twice (first and last): n sources, `a` behind the
            // first source, `b` depending on a, every source, and a again - b has to come after a
            let mut v: Vec<Op> = (0..n).map(|i| s(nm(i), &[], &[], 3, vec![])).collect();
            v.push(s("a".into(), &[], &[], 3, vec![nm(0)]));
            let mut deps: Vec<String> = vec!["a".into()];
            deps.extend((0..n).map(nm));
            deps.push("a".into());
            v.push(s("b".into(), &[], &[], 3, deps.clone()));
            out.push((format!("repeated-name-in-long-dependency-list({})", n), v.clone()));
            // ... and with the repeated name in the middle, twice in a row
            let mut deps2: Vec<String> = (0..n).map(nm).collect();
            deps2.insert(n / 2, "a".into());
            deps2.insert(n / 2, "a".into());
            v.pop();
            v.push(s("b".into(), &[], &[], 1, deps2));
            out.push((format!("repeated-name-in-the-middle-of-a-long-dependency-list({})", n), v));
        }
        if n <= 8 {
            // fan-in: n sources, one sink depending on all of them
            let mut v: Vec<Op> = (0..n).map(|i| s(nm(i), &[], &[], 3, vec![])).collect();
            v.push(s("sink".into(), &[], &[], 3, (0..n).map(nm).collect()));
            out.push((format!("fan-in({})", n), v));
            let mut v: Vec<Op> = (0..n).map(|i| s(nm(i), &[], &[(i % 3) as u8], 3, vec![])).collect();
            v.push(s("sink".into(), &[0], &[], 3, (0..n).map(nm).collect()));
            out.push((format!("fan-in-rw({})", n), v));
        }
        if n <= 24 {
            // a heavy "ballast" system first, then n light systems tied together only by dependencies /
            // by one resource / alternately: the light ones queue up in one group until it is full
            let ballast = |v: Vec<Op>| -> Vec<Op> { std::iter::once(s("ballast".into(), &[], &[], 5, vec![])).chain(v).collect() };
            out.push((format!("ballast+dep-chain({})", n), ballast((0..n).map(|i| s(nm(i), &[], &[], 1, if i == 0 { vec![] } else { vec![nm(i - 1)] })).collect())));
            out.push((format!("ballast+writers({})", n), ballast((0..n).map(|i| s(nm(i), &[], &[0], 1, vec![])).collect())));
            out.push((format!("ballast+reader-writer({})", n), ballast((0..n).map(|i| if i % 2 == 0 { s(nm(i), &[0], &[], 1, vec![]) } else { s(nm(i), &[], &[0], 1, vec![]) }).collect())));
            out.push((format!("ballast+dep-chain-sharing-nothing-then-writer({})", n), ballast((0..n).map(|i| s(nm(i), &[], &[], 1, if i == 0 { vec![] } else { vec![nm(i - 1)] })).chain(std::iter::once(s("w".into(), &[], &[1], 1, vec![nm(n - 1)]))).collect())));
            out.push((format!("barrier+ballast+writers({})", n), std::iter::once(s("pre".into(), &[], &[1], 3, vec![])).chain(std::iter::once(Op::Barrier)).chain(ballast((0..n).map(|i| s(nm(i), &[], &[0], 1, vec![])).collect())).collect()));
        }
        if n <= 24 {
            // n thread-local systems (beyond the inline capacity of the thread-local list), alone and mixed
            let tl = |w: &[u8]| Op::Tl(SysSpec { name: String::new(), reads: vec![], writes: w.to_vec(), time: 3, deps: vec![] });
            out.push((format!("thread-local({})", n), (0..n).map(|_| tl(&[])).collect()));
            out.push((format!("thread-local-mixed({})", n), (0..n).flat_map(|i| vec![s(nm(i), &[], &[(i % 2) as u8], 3, vec![]), tl(&[0])]).collect()));
            // a batch whose inner stage is n wide, and a batch holding n thread-local systems
            out.push((
                format!("batch-wide-inner({})", n),
                vec![Op::Batch(BatchSpec { name: "b".into(), deps: vec![], ctrl: CtrlData::ReadA, times: 2, multi: false, fetch_data: false, inner: (0..n).map(|i| s(nm(i), &[], &[], 3, vec![])).collect() })],
            ));
            // the ballast shapes as the INNER plan of a batch (the inner builder fills its groups like any other), and a
            // batch registered behind them
            {
                let ballast = |v: Vec<Op>| -> Vec<Op> { std::iter::once(s("ballast".into(), &[], &[1], 5, vec![])).chain(v).collect() };
                let bt = |inner: Vec<Op>| Op::Batch(BatchSpec { name: "b".into(), deps: vec![], ctrl: CtrlData::Unit, times: 1, multi: false, fetch_data: false, inner });
                out.push((format!("batch-inner-ballast+writers({})", n), vec![bt(ballast((0..n).map(|i| s(nm(i), &[], &[0], 1, vec![])).collect()))]));
                out.push((format!("batch-inner-ballast+dep-chain({})", n), vec![bt(ballast((0..n).map(|i| s(nm(i), &[], &[], 1, if i == 0 { vec![] } else { vec![nm(i - 1)] })).collect()))]));
                out.push((format!("ballast+writers({})+batch-writing-the-same", n), ballast((0..n).map(|i| s(nm(i), &[], &[0], 1, vec![])).chain(std::iter::once(bt(vec![s("x".into(), &[], &[0], 1, vec![])]))).collect())));
            }
            out.push((
                format!("batch-of-thread-local({})", n),
                vec![Op::Batch(BatchSpec { name: "b".into(), deps: vec![], ctrl: CtrlData::Unit, times: 1, multi: false, fetch_data: false, inner: (0..n).map(|_| tl(&[])).collect() })],
            ));
        }
        if n <= 32 {
            // the same long lists declared by a system INSIDE a batch (they end up in the batch's union accessor, which
            // the builder sorts and de-duplicates), the small system outside, before and after the batch
            for (x, y) in [(0u8, 1u8), (1, 0)] {
                let pad = |last: u8| -> Vec<u8> { std::iter::repeat(x).take(n - 1).chain(std::iter::once(last)).collect() };
                for (label, inner_r, inner_w, small_r, small_w) in [("writer outside / long write list inside", vec![], pad(y), vec![], vec![y]), ("writer outside / long read list inside", pad(y), vec![], vec![], vec![y]), ("reader outside / long write list inside", vec![], pad(y), vec![y], vec![])] {
                    let bt = Op::Batch(BatchSpec { name: "b".into(), deps: vec![], ctrl: CtrlData::Unit, times: 1, multi: false, fetch_data: false, inner: vec![s("wide".into(), &inner_r, &inner_w, 3, vec![]), s("other".into(), &[], &[], 3, vec![])] });
                    let small = s("small".into(), &small_r, &small_w, 3, vec![]);
                    out.push((format!("batch-inner-long-list({}; {}; shared {} behind {})", n, label, y, x), vec![bt.clone(), small.clone()]));
                    out.push((format!("batch-inner-long-list({}; {}; shared {} behind {}; small first)", n, label, y, x), vec![small, bt]));
                }
            }
            // long declared lists: the one shared resource sits behind n-1 entries naming another resource
            // (duplicates are legal), in the read or the write list, registered before or after the small system
            for (x, y) in [(0u8, 1u8), (1, 0)] {
                let pad = |last: u8| -> Vec<u8> { std::iter::repeat(x).take(n - 1).chain(std::iter::once(last)).collect() };
                let small_w = s("small".into(), &[], &[y], 3, vec![]);
                let small_r = s("small".into(), &[y], &[], 3, vec![]);
                let wide_w = s("wide".into(), &[], &pad(y), 3, vec![]);
                let wide_r = s("wide".into(), &pad(y), &[], 3, vec![]);
                for (label, a, b) in [("writer / long write list", &small_w, &wide_w), ("writer / long read list", &small_w, &wide_r), ("reader / long write list", &small_r, &wide_w)] {
                    out.push((format!("long-list({}; {}; shared {} behind {})", n, label, y, x), vec![a.clone(), b.clone()]));
                    out.push((format!("long-list({}; {}; shared {} behind {}; long first)", n, label, y, x), vec![b.clone(), a.clone()]));
                }
            }
        }
        if n % 7 == 0 {
            // barrier every 7 systems, hostile names
            let mut v = Vec::new();
            for i in 0..n {
                v.push(s(format!("name {}-with/odd chars", i), &[(i % 2) as u8], &[2], 1 + (i % 5) as u8, vec![]));
                if i % 7 == 6 {
                    v.push(Op::Barrier);
                }
            }
            out.push((format!("barriers-hostile-names({})", n), v));
        }
    }
    out
}

/// Plans over MORE THAN 16 distinct resources (the six-resource universe cannot reach list lengths at which code
/// switches strategy): abstract resource 0 is the contested one, 1..=n are fillers; they are mapped onto sweep
/// classes of one Rust type so that the contested id sorts first / in the middle / last among them.
pub fn wide_families() -> Vec<(String, Vec<Op>, Vec<u8>)> {
    let mut out = Vec::new();
    // builders that see MANY distinct resource ids (around 64 and 128): a filler system reads n ballast resources that
    // nobody else names; around it, a writer that joins another writer's group through a dependency and the balance
    // rule, and a third writer of the same resource registered last (it has to come after the second one)
    for n in (60usize..=68).chain(124..=132) {
        // abstract: 0 = X0, 1 = Y, 64.. = ballast; concrete: sweep classes 6.. in order of first appearance
        let mut map: Vec<u8> = (0..64u8).map(|i| if (i as usize) < NCONCRETE { i } else { 0 }).collect();
        map[0] = NCONCRETE as u8;
        map[1] = (NCONCRETE + 1 + n) as u8;
        let ballast: Vec<u8> = (0..n).map(|k| (64 + k) as u8).collect();
        for k in 0..n {
            map.push((NCONCRETE + 1 + k) as u8);
        }
        while map.len() < 256 {
            map.push(0);
        }
        let heavy = s("heavy".into(), &[], &[], 5, vec![]);
        let m1 = s("m1".into(), &[], &[0], 1, vec![]);
        let filler = s("filler".into(), &ballast, &[], 3, vec![]);
        let m2 = s("m2".into(), &[], &[1], 1, vec!["m1".into()]);
        let last = s("s".into(), &[], &[1], 1, vec![]);
        let last_r = s("s".into(), &[1], &[], 1, vec![]);
        out.push((format!("many-ids({} ballast ids read by one system): heavy; writer of X; filler; writer of Y behind the writer of X; writer of Y", n), vec![heavy.clone(), m1.clone(), filler.clone(), m2.clone(), last.clone()], map.clone()));
        out.push((format!("many-ids({} ballast ids): the same with a reader of Y last", n), vec![heavy.clone(), m1.clone(), filler.clone(), m2.clone(), last_r], map.clone()));
        out.push((format!("many-ids({} ballast ids): filler first", n), vec![filler, heavy, m1, m2, last], map));
    }
    for n in [15usize, 16, 17, 18, 24, 32] {
        let fillers: Vec<u8> = (1..=n as u8).collect();
        let x = 0u8;
        let sys = |name: &str, r: &[u8], w: &[u8]| s(name.into(), r, w, 3, vec![]);
        let batch = |name: &str, inner: Vec<Op>| Op::Batch(BatchSpec { name: name.into(), deps: vec![], ctrl: CtrlData::Unit, times: 1, multi: false, fetch_data: false, inner });
        let mut plans: Vec<(&str, Vec<Op>)> = Vec::new();
        // a batch whose union names n + 1 resources, then an outside writer of the contested one
        plans.push(("batch[writer of X; reader of n fillers]; writer of X", vec![batch("b", vec![sys("iw", &[], &[x]), sys("ir", &fillers, &[])]), sys("w", &[], &[x])]));
        plans.push(("writer of X; batch[writer of X; reader of n fillers]", vec![sys("w", &[], &[x]), batch("b", vec![sys("iw", &[], &[x]), sys("ir", &fillers, &[])])]));
        plans.push(("batch[reader of X; writer of n fillers]; writer of X", vec![batch("b", vec![sys("ir", &[x], &[]), sys("iw", &[], &fillers)]), sys("w", &[], &[x])]));
        plans.push(("batch[n readers of one filler each; writer of X]; reader of X", {
            let mut inner: Vec<Op> = fillers.iter().map(|f| sys(&format!("i{}", f), &[*f], &[])).collect();
            inner.push(sys("iw", &[], &[x]));
            vec![batch("b", inner), sys("r", &[x], &[])]
        }));
        // two inner systems of one batch
        plans.push(("batch[batch[writer of X; reader of n fillers]; writer of X]", vec![batch("b", vec![batch("n", vec![sys("iw", &[], &[x]), sys("ir", &fillers, &[])]), sys("w2", &[], &[x])])]));
        // no batch at all: a wide system
        plans.push(("reader of n fillers writing X; writer of X", vec![sys("wide", &fillers, &[x]), sys("w", &[], &[x])]));
        plans.push(("writer of X; reader of n fillers writing X", vec![sys("w", &[], &[x]), sys("wide", &fillers, &[x])]));
        plans.push(("reader of X and n fillers; writer of X", vec![sys("wide", &std::iter::once(x).chain(fillers.iter().copied()).collect::<Vec<_>>(), &[]), sys("w", &[], &[x])]));
        // compatible: nothing contested (must share a stage)
        plans.push(("batch[reader of n fillers]; reader of X and of the fillers", vec![batch("b", vec![sys("ir", &fillers, &[])]), sys("r", &std::iter::once(x).chain(fillers.iter().copied()).collect::<Vec<_>>(), &[])]));
        for xpos in [0usize, n / 2, n] {
            // sweep classes of one type (even ones): class 6 + 2k is (Cell0, 100 + k); position k = xpos is X's
            let mut map: Vec<u8> = Vec::with_capacity(n + 1);
            map.push((NCONCRETE + 2 * xpos) as u8);
            let mut k = 0usize;
            for _ in 0..n {
                if k == xpos {
                    k += 1;
                }
                map.push((NCONCRETE + 2 * k) as u8);
                k += 1;
            }
            for (label, ops) in &plans {
                out.push((format!("wide({} fillers; X sorts at {}): {}", n, xpos, label), ops.clone(), map.clone()));
            }
        }
    }
    out
}

pub fn run_families(nmax: usize, props: Props, need: Need, deadline: Instant, threads: usize) -> E1Result {
    let mut fams: Vec<(String, Vec<Op>, Vec<u8>)> = families(nmax).into_iter().map(|(l, o)| (l, o, Ctx::identity_map())).collect();
    fams.extend(wide_families());
    let next = AtomicUsize::new(0);
    let results: Mutex<Vec<(E1Stats, HashSet<u64>, Collector, Vec<Value>)>> = Mutex::new(Vec::new());
    std::thread::scope(|sc| {
        for _ in 0..threads.max(1) {
            sc.spawn(|| {
                let mut st = E1Stats::default();
                let mut lay = HashSet::new();
                let mut col = Collector::default();
                let mut samples = Vec::new();
                loop {
                    let i = next.fetch_add(1, Ordering::Relaxed);
                    if i >= fams.len() {
                        break;
                    }
                    if Instant::now() > deadline {
                        st.capped = true;
                        break;
                    }
                    let (label, ops, resmap) = &fams[i];
                    let info = PlanInfo::of(ops);
                    let obs = observe(ops, resmap, need);
                    let wide = resmap.len() > NCONCRETE;
                    st.states += 1;
                    st.transitions += ops.len() as u64;
                    st.max_depth = st.max_depth.max(ops.len());
                    let mut p = props;
                    p.c10_all = true;
                    // (families may contain a rejected call: the rest of the sequence is checked as if it had not been made)
                    p.continue_after_reject = true;
                    for vi in check_state(&p, ops, &info, &obs, false) {
                        col.add(Finding {
                            prop: vi.prop.to_string(),
                            sig: vi.sig,
                            msg: format!("{} | family {}", vi.msg, label),
                            replay: if wide { json!({"kind":"plan-wide","family":label,"ops":plan_json(ops),"resmap":resmap}) } else { json!({"kind":"plan","family":label,"ops":plan_json(ops)}) },
                            size: 100000 + ops.len(),
                        });
                    }
                    if let Some(l) = &obs.layout {
                        lay.insert(hash_state(ops, l));
                        st.max_stages = st.max_stages.max(l.stages.len());
                        for stg in &l.stages {
                            st.max_groups = st.max_groups.max(stg.len());
                            for g in stg {
                                st.max_group_len = st.max_group_len.max(g.len());
                            }
                        }
                        if samples.len() < 2 && ops.len() >= 6 && ops.len() <= 9 {
                            samples.push(json!({"family": label, "executed_layout": l.short()}));
                        }
                    }
                }
                results.lock().unwrap().push((st, lay, col, samples));
            });
        }
    });
    let mut stats = E1Stats::default();
    let mut layouts = HashSet::new();
    let mut col = Collector::default();
    let mut samples = Vec::new();
    for (s2, l2, c2, sm) in results.into_inner().unwrap() {
        stats.states += s2.states;
        stats.transitions += s2.transitions;
        stats.max_depth = stats.max_depth.max(s2.max_depth);
        stats.max_stages = stats.max_stages.max(s2.max_stages);
        stats.max_groups = stats.max_groups.max(s2.max_groups);
        stats.max_group_len = stats.max_group_len.max(s2.max_group_len);
        stats.capped |= s2.capped;
        layouts.extend(l2);
        col.merge(c2);
        samples.extend(sm);
    }
    stats.distinct_layouts = layouts.len() as u64;
    samples.truncate(3);
    E1Result { stats, col, samples }
}

pub fn stats_json(label: &str, depth: usize, r: &E1Result, wall: f64) -> Value {
    json!({
        "engine": "E1 planmc",
        "profile": label,
        "depth": depth,
        "states": r.stats.states,
        "transitions": r.stats.transitions,
        "distinct_canonical_states": r.stats.distinct_layouts,
        "max_depth": r.stats.max_depth,
        "max_stages_seen": r.stats.max_stages,
        "max_groups_in_a_stage_seen": r.stats.max_groups,
        "max_group_length_seen": r.stats.max_group_len,
        "redundant_barrier_comparisons": r.stats.barrier_metamorphic,
        "ill_formed_states": r.stats.ill_formed_states,
        "cap_hit": r.stats.capped,
        "exhaustive": !r.stats.capped,
        "wall_s": wall,
    })
}

// ---------------------------------------------------------------------------
// C19: the plan is invariant under renaming, relabelling and list permutation
// ---------------------------------------------------------------------------

fn map_names(ops: &[Op], f: &dyn Fn(&str) -> String) -> Vec<Op> {
    ops.iter()
        .map(|o| match o {
            Op::Sys(s) => Op::Sys(SysSpec { name: if s.name.is_empty() { String::new() } else { f(&s.name) }, deps: s.deps.iter().map(|d| f(d)).collect(), ..s.clone() }),
            Op::Batch(b) => Op::Batch(BatchSpec { name: if b.name.is_empty() { String::new() } else { f(&b.name) }, deps: b.deps.iter().map(|d| f(d)).collect(), inner: b.inner.clone(), ..b.clone() }),
            Op::Static(st) => Op::Static(StaticSpec { name: if st.name.is_empty() { String::new() } else { f(&st.name) }, deps: st.deps.iter().map(|d| f(d)).collect(), ..st.clone() }),
            x => x.clone(),
        })
        .collect()
}

fn map_lists(ops: &[Op], f: &dyn Fn(&[u8]) -> Vec<u8>) -> Vec<Op> {
    ops.iter()
        .map(|o| match o {
            Op::Sys(s) => Op::Sys(SysSpec { reads: f(&s.reads), writes: f(&s.writes), ..s.clone() }),
            Op::Tl(s) => Op::Tl(SysSpec { reads: f(&s.reads), writes: f(&s.writes), ..s.clone() }),
            Op::Batch(b) => Op::Batch(BatchSpec { inner: map_lists(&b.inner, f), ..b.clone() }),
            x => x.clone(),
        })
        .collect()
}

/// all injective maps of {0,1,2,3} into the 6 concrete resources, in a fixed order
pub fn resmaps(limit: usize) -> Vec<Vec<u8>> {
    let mut out = Vec::new();
    for a in 0..6u8 {
        for b in 0..6u8 {
            for c in 0..6u8 {
                for d in 0..6u8 {
                    if a != b && a != c && a != d && b != c && b != d && c != d {
                        let mut m = vec![a, b, c, d];
                        // unused abstract slots 4,5 map to the two remaining concrete ones
                        for x in 0..6u8 {
                            if !m.contains(&x) {
                                m.push(x);
                            }
                        }
                        out.push(m);
                    }
                }
            }
        }
    }
    // spread the selection over the whole list (identity first is skipped by the caller)
    if limit >= out.len() {
        return out;
    }
    let step = out.len() as f64 / limit as f64;
    (0..limit).map(|i| out[(i as f64 * step) as usize].clone()).collect()
}

/// returns (number of transformed builds, violations)
pub fn c19_check(ops: &[Op], l: &crate::hsys::Layout, nmaps: usize) -> (u64, Vec<(String, String)>) {
    let idm = Ctx::identity_map();
    let mut n = 0u64;
    let mut vs = Vec::new();
    let mut cmp = |what: &str, sig: &str, t: &[Op], map: &[u8], n: &mut u64, vs: &mut Vec<(String, String)>| {
        *n += 1;
        match layout_of(t, map) {
            Ok(l2) => {
                if l2 != *l {
                    vs.push((sig.to_string(), format!("{}: layout becomes {}", what, l2.short())));
                }
            }
            Err(e) => vs.push(("transformed-plan-rejected".to_string(), format!("{}: {}", what, e))),
        }
    };
    // (iv) a second build in the same process
    cmp("second build of the same sequence", "plan-not-reproducible", ops, &idm, &mut n, &mut vs);
    // (ix) a second builder alive at the same time, filled in alternation (with the same calls; with the calls in
    //      reverse order and without their dependencies): a builder's plan is a function of its own calls
    {
        let strip = |o: &Op| -> Op {
            match o {
                Op::Sys(x) => Op::Sys(SysSpec { deps: vec![], ..x.clone() }),
                Op::Tl(x) => Op::Tl(SysSpec { deps: vec![], ..x.clone() }),
                Op::Batch(b) => Op::Batch(BatchSpec { deps: vec![], ..b.clone() }),
                x => x.clone(),
            }
        };
        let rev: Vec<Op> = ops.iter().rev().map(strip).collect();
        for (what, other) in [("the same calls", ops.to_vec()), ("the calls in reverse order, dependencies dropped", rev)] {
            n += 1;
            match crate::obs::layout_interleaved(ops, &other, &idm) {
                Ok(l2) => {
                    if l2 != *l {
                        vs.push(("plan-depends-on-another-builder".to_string(), format!("registered in alternation with a second builder that receives {}: layout becomes {}", what, l2.short())));
                    }
                }
                Err(e) => vs.push(("transformed-plan-rejected".to_string(), format!("registered in alternation with a second builder ({}): {}", what, e))),
            }
        }
    }
    // (x) the thread's history: the same calls on a freshly started thread (on which nothing has been built yet) give
    //     the same plan as here, where thousands of other plans have been built before (statically typed plans only:
    //     that is where per-thread / per-process memo tables of the library would sit)
    if ops.iter().any(|o| matches!(o, Op::Static(_))) {
        n += 1;
        let ops2 = ops.to_vec();
        let idm2 = idm.clone();
        match std::thread::spawn(move || layout_of(&ops2, &idm2)).join() {
            Ok(Ok(l2)) => {
                if l2 != *l {
                    vs.push(("plan-depends-on-what-was-built-before".to_string(), format!("built on a freshly started thread the layout is {}", l2.short())));
                }
            }
            Ok(Err(e)) => vs.push(("transformed-plan-rejected".to_string(), format!("built on a freshly started thread: {}", e))),
            Err(_) => vs.push(("transformed-plan-rejected".to_string(), "building on a freshly started thread panicked".to_string())),
        }
    }
    // (vii) the size of the default pool / the number of cores the building thread sees
    for nthreads in [1usize, 2, 3, 64] {
        rayon::verif::set_default_threads(Some(nthreads));
        cmp(&format!("built where rayon reports {} threads", nthreads), "plan-depends-on-pool-size", ops, &idm, &mut n, &mut vs);
        rayon::verif::set_default_threads(None);
    }
    // (vii-b) a user-supplied pool (of 1, 2 threads) attached before the registrations
    for nthreads in [1usize, 2] {
        crate::obs::set_e1_user_pool(Some(nthreads));
        cmp(&format!("built with a user-supplied pool of {} thread(s) attached first", nthreads), "plan-depends-on-pool-size", ops, &idm, &mut n, &mut vs);
        crate::obs::set_e1_user_pool(None);
    }
    // (i) renamings
    let names: Vec<String> = named_before(ops);
    if !names.is_empty() {
        let nn = names.clone();
        cmp("fresh names in reverse lexical order", "plan-depends-on-names", &map_names(ops, &|s| format!("z{:03}", 900 - nn.iter().position(|x| x == s).unwrap_or(0))), &idm, &mut n, &mut vs);
        let nn = names.clone();
        cmp("sanitiser-hostile names", "plan-depends-on-names", &map_names(ops, &|s| format!("a b-c/d {}", nn.iter().position(|x| x == s).unwrap_or(0))), &idm, &mut n, &mut vs);
        if names.len() >= 2 {
            let nn = names.clone();
            cmp("names rotated among the systems", "plan-depends-on-names", &map_names(ops, &|s| nn[(nn.iter().position(|x| x == s).unwrap_or(0) + 1) % nn.len()].clone()), &idm, &mut n, &mut vs);
        }
    }
    if !names.is_empty() && names.len() <= 4 {
        // names that differ only in their separator characters are different names
        let twins = ["n x", "n-x", "n/x", "n_x"];
        let nn = names.clone();
        cmp("names that differ only in a separator character (n x, n-x, n/x, n_x)", "plan-depends-on-names", &map_names(ops, &|s| twins[nn.iter().position(|x| x == s).unwrap_or(0) % 4].to_string()), &idm, &mut n, &mut vs);
        let blanks = [" ", "  ", "-", "--"];
        let nn = names.clone();
        cmp("names made of blanks / separators only", "plan-depends-on-names", &map_names(ops, &|s| blanks[nn.iter().position(|x| x == s).unwrap_or(0) % 4].to_string()), &idm, &mut n, &mut vs);
    }
    // (i-b) the empty name is a name too: give every unnamed system a fresh name; un-name every system
    //       that nobody depends on
    {
        let mut k = 0;
        let named: Vec<Op> = ops
            .iter()
            .map(|o| match o {
                Op::Sys(x) if x.name.is_empty() => {
                    k += 1;
                    Op::Sys(SysSpec { name: format!("fresh-{}", k), ..x.clone() })
                }
                Op::Batch(b) if b.name.is_empty() => {
                    k += 1;
                    Op::Batch(BatchSpec { name: format!("fresh-{}", k), ..b.clone() })
                }
                x => x.clone(),
            })
            .collect();
        if k > 0 {
            cmp("unnamed systems given fresh names", "plan-depends-on-names", &named, &idm, &mut n, &mut vs);
        }
        let depended: Vec<String> = ops
            .iter()
            .flat_map(|o| match o {
                Op::Sys(x) => x.deps.clone(),
                Op::Batch(b) => b.deps.clone(),
                _ => vec![],
            })
            .collect();
        let mut changed = false;
        let unnamed: Vec<Op> = ops
            .iter()
            .map(|o| match o {
                Op::Sys(x) if !x.name.is_empty() && !depended.contains(&x.name) => {
                    changed = true;
                    Op::Sys(SysSpec { name: String::new(), ..x.clone() })
                }
                x => x.clone(),
            })
            .collect();
        if changed {
            cmp("systems nobody depends on registered with the empty name", "plan-depends-on-names", &unnamed, &idm, &mut n, &mut vs);
        }
    }
    // (xii) the names used INSIDE a batch are a name space of their own: give every named inner system the name of an
    //       outer system (the ones the batch depends on first), inner dependency lists renamed along
    {
        fn rename_inner(inner: &[Op], outer: &[String]) -> Vec<Op> {
            let mut names: Vec<String> = Vec::new();
            for o in inner {
                if let Op::Sys(x) = o {
                    if !x.name.is_empty() && !names.contains(&x.name) {
                        names.push(x.name.clone());
                    }
                }
            }
            if names.len() > outer.len() {
                return inner.to_vec();
            }
            let f = |n: &String| -> String { names.iter().position(|x| x == n).map_or_else(|| n.clone(), |k| outer[k].clone()) };
            inner
                .iter()
                .map(|o| match o {
                    Op::Sys(x) => Op::Sys(SysSpec { name: if x.name.is_empty() { String::new() } else { f(&x.name) }, deps: x.deps.iter().map(&f).collect(), ..x.clone() }),
                    x => x.clone(),
                })
                .collect()
        }
        let outer_names = named_before(ops);
        let has_named_inner = ops.iter().any(|o| matches!(o, Op::Batch(b) if b.inner.iter().any(|i| matches!(i, Op::Sys(x) if !x.name.is_empty()))));
        if has_named_inner && !outer_names.is_empty() {
            let t: Vec<Op> = ops
                .iter()
                .map(|o| match o {
                    Op::Batch(b) => {
                        // the batch's own dependencies first, then the other outer names
                        let mut pool: Vec<String> = b.deps.clone();
                        for n in &outer_names {
                            if !pool.contains(n) {
                                pool.push(n.clone());
                            }
                        }
                        Op::Batch(BatchSpec { inner: rename_inner(&b.inner, &pool), ..b.clone() })
                    }
                    x => x.clone(),
                })
                .collect();
            cmp("inner systems of every batch renamed to names used outside the batch", "plan-depends-on-names", &t, &idm, &mut n, &mut vs);
        }
    }
    // (xi) the same dependency SET spelled differently: reversed, the whole list twice (a,b,a,b), mirrored (a,b,b,a),
    //      every name three times - the dependency structure is what counts, not how a list spells it
    {
        fn map_deps(ops: &[Op], f: &dyn Fn(&[String]) -> Vec<String>) -> Vec<Op> {
            ops.iter()
                .map(|o| match o {
                    Op::Sys(x) => Op::Sys(SysSpec { deps: f(&x.deps), ..x.clone() }),
                    Op::Batch(b) => Op::Batch(BatchSpec { deps: f(&b.deps), inner: map_deps(&b.inner, f), ..b.clone() }),
                    Op::Static(st) => Op::Static(StaticSpec { deps: f(&st.deps), ..st.clone() }),
                    x => x.clone(),
                })
                .collect()
        }
        fn has_deps(ops: &[Op]) -> bool {
            ops.iter().any(|o| match o {
                Op::Sys(x) => !x.deps.is_empty(),
                Op::Batch(b) => !b.deps.is_empty() || has_deps(&b.inner),
                Op::Static(st) => !st.deps.is_empty(),
                _ => false,
            })
        }
        if has_deps(ops) {
            cmp("dependency lists reversed", "plan-depends-on-dependency-spelling", &map_deps(ops, &|d| d.iter().rev().cloned().collect()), &idm, &mut n, &mut vs);
            cmp("dependency lists written twice (a, b, a, b)", "plan-depends-on-dependency-spelling", &map_deps(ops, &|d| d.iter().chain(d.iter()).cloned().collect()), &idm, &mut n, &mut vs);
            cmp("dependency lists mirrored (a, b, b, a)", "plan-depends-on-dependency-spelling", &map_deps(ops, &|d| d.iter().chain(d.iter().rev()).cloned().collect()), &idm, &mut n, &mut vs);
            cmp("every dependency named three times (a, a, a, b, b, b)", "plan-depends-on-dependency-spelling", &map_deps(ops, &|d| d.iter().flat_map(|x| vec![x.clone(), x.clone(), x.clone()]).collect()), &idm, &mut n, &mut vs);
        }
    }
    // (iii) permutations / duplications of each system's declared lists
    cmp("read/write lists reversed", "plan-depends-on-list-order", &map_lists(ops, &|v| v.iter().rev().copied().collect()), &idm, &mut n, &mut vs);
    cmp(
        "read/write lists with a duplicated entry",
        "plan-depends-on-duplicate-entries",
        &map_lists(ops, &|v| {
            let mut w = v.to_vec();
            if let Some(f) = v.first() {
                w.push(*f);
            }
            w
        }),
        &idm,
        &mut n,
        &mut vs,
    );
    cmp(
        "read/write lists rotated with the last entry duplicated in front",
        "plan-depends-on-list-order",
        &map_lists(ops, &|v| {
            let mut w = v.to_vec();
            if let Some(l) = v.last() {
                w.insert(0, *l);
            }
            w
        }),
        &idm,
        &mut n,
        &mut vs,
    );
    // (ii) injective relabellings of the resources across types and dynamic ids
    // batch controllers name their data by static types (A = (Cell0,0), C = (Cell1,0)), which the harness
    // cannot relabel: keep A and C fixed for plans whose controllers declare data
    fn has_ctrl_data(ops: &[Op]) -> bool {
        ops.iter().any(|o| matches!(o, Op::Batch(b) if b.ctrl != CtrlData::Unit || has_ctrl_data(&b.inner)))
    }
    // (statically typed systems name A and C by their Rust types as well)
    fn has_static(ops: &[Op]) -> bool {
        ops.iter().any(|o| matches!(o, Op::Static(_)) || matches!(o, Op::Batch(b) if has_static(&b.inner)))
    }
    let fixed = has_ctrl_data(ops) || has_static(ops);
    // with A and C pinned there are only 24 relabellings: all of them, in both tiers
    let maps: Vec<Vec<u8>> = if fixed { resmaps(usize::MAX).into_iter().filter(|m| m[0] == 0 && m[2] == 2).collect() } else { resmaps(nmaps) };
    for m in maps.iter().skip(1) {
        cmp(&format!("resources relabelled by {:?}", &m[..4]), "plan-depends-on-resource-identity", ops, m, &mut n, &mut vs);
    }
    (n, vs)
}


// ---------------------------------------------------------------------------
// C19: relabelling sweep.  Every plan of a small two-resource alphabet is built with its two resources
// mapped onto every ordered pair of distinct ids of a universe of `nids` concrete ids (two types x many
// dynamic ids).  By pigeonhole any scheme that sorts ids into fewer than `nids` classes (hash buckets,
// truncated keys, signatures) puts two of them into one class, and the sweep visits that pair.
// ---------------------------------------------------------------------------

pub fn c19_sweep_plans(len: usize) -> Vec<Vec<Op>> {
    // {read, write} x {P, Q} x running time {1, 5}
    let mut alpha = Vec::new();
    for res in [0u8, 1] {
        for write in [false, true] {
            for time in [1u8, 5] {
                alpha.push((res, write, time));
            }
        }
    }
    let mut out: Vec<Vec<Op>> = Vec::new();
    let mut frontier: Vec<Vec<(u8, bool, u8)>> = vec![vec![]];
    for _ in 0..len {
        let mut next = Vec::new();
        for f in &frontier {
            for a in &alpha {
                let mut g = f.clone();
                g.push(*a);
                next.push(g);
            }
        }
        for g in &next {
            // both resources must occur, otherwise there is nothing to collide
            if g.iter().any(|x| x.0 == 0) && g.iter().any(|x| x.0 == 1) {
                out.push(
                    g.iter()
                        .enumerate()
                        .map(|(i, (res, write, time))| {
                            Op::Sys(SysSpec { name: format!("s{}", i), reads: if *write { vec![] } else { vec![*res] }, writes: if *write { vec![*res] } else { vec![] }, time: *time, deps: vec![] })
                        })
                        .collect(),
                );
            }
        }
        frontier = next;
    }
    // batches whose inner systems touch BOTH resources (the union accessor is built by sorting and de-duplicating
    // ids: an ordering that disagrees with equality would lose one), an outer system touching one of them
    for (w0, w1) in [(true, true), (true, false), (false, true)] {
        for outer_res in [0u8, 1] {
            for outer_write in [true, false] {
                for outer_first in [false, true] {
                    let acc = |res: u8, write: bool| -> (Vec<u8>, Vec<u8>) { if write { (vec![], vec![res]) } else { (vec![res], vec![]) } };
                    let (r0, wr0) = acc(0, w0);
                    let (r1, wr1) = acc(1, w1);
                    let bt = Op::Batch(BatchSpec { name: "b".into(), deps: vec![], ctrl: CtrlData::Unit, times: 1, multi: false, fetch_data: false, inner: vec![s("in0".into(), &r0, &wr0, 3, vec![]), s("in1".into(), &r1, &wr1, 3, vec![])] });
                    let (ro, wo) = acc(outer_res, outer_write);
                    let outer = s("out".into(), &ro, &wo, 3, vec![]);
                    out.push(if outer_first { vec![outer, bt] } else { vec![bt, outer] });
                }
            }
        }
    }
    out
}

pub fn c19_sweep(len: usize, nids: usize, deadline: Instant, threads: usize) -> E1Result {
    let plans = c19_sweep_plans(len);
    let next = AtomicUsize::new(0);
    let results: Mutex<Vec<(E1Stats, Collector)>> = Mutex::new(Vec::new());
    let nids = nids.min(256 - NCONCRETE);
    std::thread::scope(|sc| {
        for _ in 0..threads.max(1) {
            sc.spawn(|| {
                let mut st = E1Stats::default();
                let mut col = Collector::default();
                loop {
                    let i = next.fetch_add(1, Ordering::Relaxed);
                    if i >= plans.len() {
                        break;
                    }
                    if Instant::now() > deadline {
                        st.capped = true;
                        break;
                    }
                    let ops = &plans[i];
                    let base = match layout_of(ops, &Ctx::identity_map()) {
                        Ok(l) => l,
                        Err(e) => {
                            col.add(Finding { prop: "MACHINERY".into(), sig: "sweep-plan-rejected".into(), msg: e, replay: json!({}), size: 0 });
                            continue;
                        }
                    };
                    st.states += 1;
                    'pairs: for a in 0..nids {
                        for b in 0..nids {
                            if a == b {
                                continue;
                            }
                            let map = vec![(NCONCRETE + a) as u8, (NCONCRETE + b) as u8, 2, 3, 4, 5];
                            st.barrier_metamorphic += 1;
                            st.transitions += ops.len() as u64;
                            match layout_of(ops, &map) {
                                Ok(l2) if l2 == base => {}
                                Ok(l2) => {
                                    col.add(Finding {
                                        prop: "C19".into(),
                                        sig: "plan-depends-on-resource-identity".into(),
                                        msg: format!("resources P, Q relabelled to {:?}, {:?}: layout becomes {} | plan: {} | layout {}", crate::hsys::concrete_id(map[0]), crate::hsys::concrete_id(map[1]), l2.short(), plan_short(ops), base.short()),
                                        replay: json!({"kind":"plan","ops":plan_json(ops),"resmap":map}),
                                        size: ops.len() * 100 + plan_short(ops).len().min(99),
                                    });
                                    break 'pairs;
                                }
                                Err(e) => {
                                    col.add(Finding { prop: "C19".into(), sig: "transformed-plan-rejected".into(), msg: format!("relabelled by {:?}: {} | plan: {}", &map[..2], e, plan_short(ops)), replay: json!({"kind":"plan","ops":plan_json(ops),"resmap":map}), size: ops.len() * 100 });
                                    break 'pairs;
                                }
                            }
                        }
                    }
                }
                results.lock().unwrap().push((st, col));
            });
        }
    });
    let mut stats = E1Stats::default();
    let mut col = Collector::default();
    for (s2, c2) in results.into_inner().unwrap() {
        stats.states += s2.states;
        stats.transitions += s2.transitions;
        stats.barrier_metamorphic += s2.barrier_metamorphic;
        stats.capped |= s2.capped;
        col.merge(c2);
    }
    stats.max_depth = len;
    E1Result { stats, col, samples: vec![] }
}


/// C19 over the parametric families (wide stages, long chains, groups filled to capacity).
pub fn c19_families(nmax: usize, nmaps: usize, deadline: Instant, threads: usize) -> E1Result {
    let fams = families(nmax);
    let next = AtomicUsize::new(0);
    let results: Mutex<Vec<(E1Stats, Collector)>> = Mutex::new(Vec::new());
    std::thread::scope(|sc| {
        for _ in 0..threads.max(1) {
            sc.spawn(|| {
                let mut st = E1Stats::default();
                let mut col = Collector::default();
                loop {
                    let i = next.fetch_add(1, Ordering::Relaxed);
                    if i >= fams.len() {
                        break;
                    }
                    if Instant::now() > deadline {
                        st.capped = true;
                        break;
                    }
                    let (label, ops) = &fams[i];
                    let l = match layout_of(ops, &Ctx::identity_map()) {
                        Ok(l) => l,
                        Err(_) => continue,
                    };
                    st.states += 1;
                    st.transitions += ops.len() as u64;
                    st.max_depth = st.max_depth.max(ops.len());
                    let (n, vs) = c19_check(ops, &l, nmaps);
                    st.barrier_metamorphic += n;
                    for (sig, msg) in vs {
                        col.add(Finding { prop: "C19".into(), sig, msg: format!("{} | family {} | layout {}", msg, label, l.short()), replay: json!({"kind":"plan","family":label,"ops":plan_json(ops)}), size: 100000 + ops.len() });
                    }
                }
                results.lock().unwrap().push((st, col));
            });
        }
    });
    let mut stats = E1Stats::default();
    let mut col = Collector::default();
    for (s2, c2) in results.into_inner().unwrap() {
        stats.states += s2.states;
        stats.transitions += s2.transitions;
        stats.barrier_metamorphic += s2.barrier_metamorphic;
        stats.max_depth = stats.max_depth.max(s2.max_depth);
        stats.capped |= s2.capped;
        col.merge(c2);
    }
    E1Result { stats, col, samples: vec![] }
}
