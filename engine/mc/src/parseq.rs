//! C16: Par/Seq trees assembled at run time from the real `Par` / `Seq`
//! nodes (a boxing adapter implements `RunWithPool` by delegation).

use std::collections::HashSet;
use std::panic::{catch_unwind, AssertUnwindSafe};
use std::sync::atomic::{AtomicUsize, Ordering};
use std::sync::{Arc, Mutex};
use std::time::Instant;

use serde_json::{json, Value};
use shred::{Par, ParSeq, ResourceId, RunWithPool, Seq, World};

use crate::hsys::*;
use crate::report::{Collector, Finding};
use crate::sched::{self, payload_str, Abnormal, Cfg};

#[derive(Clone, Debug, PartialEq, Eq, Hash)]
pub enum Tree {
    /// (reads, writes) abstract resources
    Leaf(Vec<u8>, Vec<u8>),
    Par(Vec<Tree>),
    Seq(Vec<Tree>),
}

impl Tree {
    pub fn short(&self) -> String {
        match self {
            Tree::Leaf(r, w) => {
                let mut s = String::new();
                for x in r {
                    s.push_str(&format!("r{}", crate::spec::res_name(*x)));
                }
                for x in w {
                    s.push_str(&format!("w{}", crate::spec::res_name(*x)));
                }
                if s.is_empty() {
                    s.push('-');
                }
                s
            }
            Tree::Par(c) => format!("par[{}]", c.iter().map(|t| t.short()).collect::<Vec<_>>().join(", ")),
            Tree::Seq(c) => format!("seq[{}]", c.iter().map(|t| t.short()).collect::<Vec<_>>().join(", ")),
        }
    }
    pub fn leaves(&self) -> usize {
        match self {
            Tree::Leaf(..) => 1,
            Tree::Par(c) | Tree::Seq(c) => c.iter().map(|t| t.leaves()).sum(),
        }
    }
    pub fn depth(&self) -> usize {
        match self {
            Tree::Leaf(..) => 0,
            Tree::Par(c) | Tree::Seq(c) => 1 + c.iter().map(|t| t.depth()).max().unwrap_or(0),
        }
    }
    /// (reads mask, writes mask)
    pub fn access(&self) -> (u8, u8) {
        match self {
            Tree::Leaf(r, w) => (r.iter().fold(0, |m, x| m | 1 << x), w.iter().fold(0, |m, x| m | 1 << x)),
            Tree::Par(c) | Tree::Seq(c) => c.iter().fold((0, 0), |a, t| {
                let b = t.access();
                (a.0 | b.0, a.1 | b.1)
            }),
        }
    }
    /// every par node has pairwise compatible children
    pub fn par_compatible(&self) -> bool {
        match self {
            Tree::Leaf(..) => true,
            Tree::Seq(c) => c.iter().all(|t| t.par_compatible()),
            Tree::Par(c) => {
                for (i, a) in c.iter().enumerate() {
                    for b in c.iter().skip(i + 1) {
                        let (x, y) = (a.access(), b.access());
                        if (x.1 & (y.0 | y.1)) != 0 || (x.0 & y.1) != 0 {
                            return false;
                        }
                    }
                }
                c.iter().all(|t| t.par_compatible())
            }
        }
    }
    pub fn to_json(&self) -> Value {
        match self {
            Tree::Leaf(r, w) => json!({"leaf": [r, w]}),
            Tree::Par(c) => json!({"par": c.iter().map(|t| t.to_json()).collect::<Vec<_>>()}),
            Tree::Seq(c) => json!({"seq": c.iter().map(|t| t.to_json()).collect::<Vec<_>>()}),
        }
    }
    pub fn from_json(v: &Value) -> Option<Tree> {
        if let Some(l) = v.get("leaf") {
            let f = |x: &Value| -> Vec<u8> { x.as_array().map(|a| a.iter().filter_map(|e| e.as_u64().map(|n| n as u8)).collect()).unwrap_or_default() };
            return Some(Tree::Leaf(f(l.get(0)?), f(l.get(1)?)));
        }
        if let Some(c) = v.get("par") {
            return Some(Tree::Par(c.as_array()?.iter().map(Tree::from_json).collect::<Option<Vec<_>>>()?));
        }
        if let Some(c) = v.get("seq") {
            return Some(Tree::Seq(c.as_array()?.iter().map(Tree::from_json).collect::<Option<Vec<_>>>()?));
        }
        None
    }
}

pub struct BNode(pub Box<dyn for<'a> RunWithPool<'a> + Send>);

impl<'a> RunWithPool<'a> for BNode {
    fn setup(&mut self, world: &mut World) {
        self.0.setup(world)
    }
    fn run(&mut self, world: &'a World, pool: &rayon::ThreadPool) {
        self.0.run(world, pool)
    }
    fn reads(&self, reads: &mut Vec<ResourceId>) {
        self.0.reads(reads)
    }
    fn writes(&self, writes: &mut Vec<ResourceId>) {
        self.0.writes(writes)
    }
}

std::thread_local! {
    /// build the nodes with the library's `par!` / `seq!` macros instead of `new` / `with`
    pub static VIA_MACROS: std::cell::Cell<bool> = const { std::cell::Cell::new(false) };
}

fn make_par(mut c: Vec<BNode>) -> BNode {
    let n = c.len();
    let mut it = c.drain(..);
    let mut nx = || it.next().unwrap();
    if VIA_MACROS.with(|v| v.get()) {
        return match n {
            1 => BNode(Box::new(shred::par![nx(),])),
            2 => BNode(Box::new(shred::par![nx(), nx(),])),
            3 => BNode(Box::new(shred::par![nx(), nx(), nx(),])),
            4 => BNode(Box::new(shred::par![nx(), nx(), nx(), nx(),])),
            5 => BNode(Box::new(shred::par![nx(), nx(), nx(), nx(), nx(),])),
            6 => BNode(Box::new(shred::par![nx(), nx(), nx(), nx(), nx(), nx(),])),
            n => panic!("harness: par fan-out {} not supported", n),
        };
    }
    match n {
        1 => BNode(Box::new(Par::new(nx()))),
        2 => BNode(Box::new(Par::new(nx()).with(nx()))),
        3 => BNode(Box::new(Par::new(nx()).with(nx()).with(nx()))),
        4 => BNode(Box::new(Par::new(nx()).with(nx()).with(nx()).with(nx()))),
        5 => BNode(Box::new(Par::new(nx()).with(nx()).with(nx()).with(nx()).with(nx()))),
        6 => BNode(Box::new(Par::new(nx()).with(nx()).with(nx()).with(nx()).with(nx()).with(nx()))),
        n => panic!("harness: par fan-out {} not supported", n),
    }
}

fn make_seq(mut c: Vec<BNode>) -> BNode {
    let n = c.len();
    let mut it = c.drain(..);
    let mut nx = || it.next().unwrap();
    if VIA_MACROS.with(|v| v.get()) {
        return match n {
            1 => BNode(Box::new(shred::seq![nx(),])),
            2 => BNode(Box::new(shred::seq![nx(), nx(),])),
            3 => BNode(Box::new(shred::seq![nx(), nx(), nx(),])),
            4 => BNode(Box::new(shred::seq![nx(), nx(), nx(), nx(),])),
            5 => BNode(Box::new(shred::seq![nx(), nx(), nx(), nx(), nx(),])),
            6 => BNode(Box::new(shred::seq![nx(), nx(), nx(), nx(), nx(), nx(),])),
            n => panic!("harness: seq fan-out {} not supported", n),
        };
    }
    match n {
        1 => BNode(Box::new(Seq::new(nx()))),
        2 => BNode(Box::new(Seq::new(nx()).with(nx()))),
        3 => BNode(Box::new(Seq::new(nx()).with(nx()).with(nx()))),
        4 => BNode(Box::new(Seq::new(nx()).with(nx()).with(nx()).with(nx()))),
        5 => BNode(Box::new(Seq::new(nx()).with(nx()).with(nx()).with(nx()).with(nx()))),
        6 => BNode(Box::new(Seq::new(nx()).with(nx()).with(nx()).with(nx()).with(nx()).with(nx()))),
        n => panic!("harness: seq fan-out {} not supported", n),
    }
}

/// Build the real tree; leaves are numbered left to right.
pub fn build_tree(t: &Tree, next: &mut usize, ctx: &Arc<Ctx>) -> BNode {
    match t {
        Tree::Leaf(r, w) => {
            let id = *next;
            *next += 1;
            BNode(Box::new(HSys::new(id, r, w, 3, ctx)))
        }
        Tree::Par(c) => make_par(c.iter().map(|x| build_tree(x, next, ctx)).collect()),
        Tree::Seq(c) => make_seq(c.iter().map(|x| build_tree(x, next, ctx)).collect()),
    }
}

/// leaf id ranges of the children of every seq node: Vec<(Vec<(lo, hi)>)>
fn seq_constraints(t: &Tree, next: &mut usize, out: &mut Vec<Vec<(usize, usize)>>) -> (usize, usize) {
    match t {
        Tree::Leaf(..) => {
            let id = *next;
            *next += 1;
            (id, id + 1)
        }
        Tree::Par(c) => {
            let lo = *next;
            for x in c {
                seq_constraints(x, next, out);
            }
            (lo, *next)
        }
        Tree::Seq(c) => {
            let lo = *next;
            let mut ranges = Vec::new();
            for x in c {
                ranges.push(seq_constraints(x, next, out));
            }
            out.push(ranges);
            (lo, *next)
        }
    }
}

fn leaf_access(t: &Tree, out: &mut Vec<(Vec<u8>, Vec<u8>)>) {
    match t {
        Tree::Leaf(r, w) => out.push((r.clone(), w.clone())),
        Tree::Par(c) | Tree::Seq(c) => c.iter().for_each(|x| leaf_access(x, out)),
    }
}

#[derive(Clone, Debug, Default)]
pub struct TreeOut {
    pub log: Vec<Event>,
    pub values: Vec<u64>,
    pub obs: Vec<Vec<u64>>,
    pub runs: Vec<u32>,
    pub setups: Vec<u32>,
    /// after a second setup, on a fresh world
    pub setups2: Vec<u32>,
    pub result: Option<String>,
    pub root_reads: Vec<ResourceId>,
    pub root_writes: Vec<ResourceId>,
    pub build_panic: Option<String>,
}

/// Build, set up and dispatch the tree `dispatches` times; `site`: 0 = dispatch is called from outside any
/// pool, 1 = from inside the tree's own pool (`install`), 2 = from the only worker of a foreign one-thread pool.
pub fn run_tree(t: &Tree, site: u8, dispatches: u8) -> TreeOut {
    let n = t.leaves();
    let ctx = Ctx::new(n, Ctx::identity_map());
    let mut out = TreeOut::default();
    let mut next = 0;
    let root = match catch_unwind(AssertUnwindSafe(|| build_tree(t, &mut next, &ctx))) {
        Ok(r) => r,
        Err(p) => {
            out.build_panic = Some(payload_str(&*p));
            return out;
        }
    };
    root.reads(&mut out.root_reads);
    root.writes(&mut out.root_writes);
    let pool = Arc::new(rayon::ThreadPoolBuilder::new().build().unwrap());
    let mut ps = ParSeq::new(root, pool.clone());
    let foreign = if site == 2 { Some(rayon::ThreadPoolBuilder::new().num_threads(1).build().unwrap()) } else { None };
    let mut world = new_world();
    ps.setup(&mut world);
    out.setups = ctx.setups.lock().unwrap().clone();
    // a fresh world in the same variable needs setting up again: every leaf is reached a second time
    world = new_world();
    if site == 1 {
        shred::RunNow::setup(&mut ps, &mut world);
    } else {
        ps.setup(&mut world);
    }
    out.setups2 = ctx.setups.lock().unwrap().clone();
    for i in 1..=dispatches {
        ctx.dispatch_no.store(i as u32, Ordering::Relaxed);
        let r = catch_unwind(AssertUnwindSafe(|| {
            if site == 1 {
                let w = &world;
                let psr = &mut ps;
                pool.install(move || psr.dispatch(w));
            } else if let Some(f) = &foreign {
                let w = &world;
                let psr = &mut ps;
                f.install(move || psr.dispatch(w));
            } else {
                ps.dispatch(&world);
            }
        }));
        if let Err(p) = r {
            out.result = Some(payload_str(&*p));
        }
    }
    out.log = ctx.take_log();
    out.values = world_values(&world);
    out.obs = ctx.obs.lock().unwrap().clone();
    out.runs = ctx.runs.lock().unwrap().clone();
    out
}

pub fn analyze_tree(t: &Tree, dispatches: u8, o: &TreeOut, twin: Option<&TreeOut>) -> Vec<(String, String)> {
    let mut vs: Vec<(String, String)> = Vec::new();
    if let Some(p) = &o.build_panic {
        vs.push(("par-with-rejected-compatible-children".into(), format!("building the tree panicked: {}", p)));
        return vs;
    }
    if let Some(p) = &o.result {
        vs.push(("tree-dispatch-panicked".into(), format!("dispatch panicked: {}", p)));
    }
    let n = t.leaves();
    for id in 0..n {
        if o.runs[id] != dispatches as u32 {
            vs.push(("leaf-not-exactly-once".into(), format!("leaf {} ran {} times in {} dispatches", id, o.runs[id], dispatches)));
        }
        if o.setups[id] != 1 {
            vs.push(("setup-missed-leaf".into(), format!("leaf {} was set up {} times", id, o.setups[id])));
        }
        if o.setups2.get(id).copied().unwrap_or(2) != 2 {
            vs.push(("second-setup-missed-leaf".into(), format!("leaf {} has been set up {} times after two setup calls (the second on a fresh world)", id, o.setups2[id])));
        }
    }
    // seq ordering, per dispatch
    let mut cons = Vec::new();
    let mut nx = 0;
    seq_constraints(t, &mut nx, &mut cons);
    for d in 1..=dispatches as u16 {
        let pos_begin = |id: usize| o.log.iter().position(|e| e.dispatch == d && e.kind == Ev::FetchBegin && e.sys as usize == id);
        let pos_end = |id: usize| o.log.iter().position(|e| e.dispatch == d && e.kind == Ev::Release && e.sys as usize == id);
        for ranges in &cons {
            for w in ranges.windows(2) {
                let (a, b) = (w[0], w[1]);
                for x in a.0..a.1 {
                    for y in b.0..b.1 {
                        match (pos_end(x), pos_begin(y)) {
                            (Some(e), Some(bg)) if e < bg => {}
                            (None, None) | (Some(_), None) => {}
                            (e, bg) => vs.push(("seq-order-violated".into(), format!("leaf {} (later child of a seq node) began at {:?} before leaf {} (earlier child) finished at {:?} in dispatch {}", y, bg, x, e, d))),
                        }
                    }
                }
            }
        }
    }
    // reported access = multiset union of the leaves'
    let mut la = Vec::new();
    leaf_access(t, &mut la);
    let mut exp_r: Vec<ResourceId> = la.iter().flat_map(|(r, _)| r.iter().map(|x| concrete_id(*x))).collect();
    let mut exp_w: Vec<ResourceId> = la.iter().flat_map(|(_, w)| w.iter().map(|x| concrete_id(*x))).collect();
    exp_r.sort();
    exp_w.sort();
    let (mut gr, mut gw) = (o.root_reads.clone(), o.root_writes.clone());
    gr.sort();
    gw.sort();
    if gr != exp_r || gw != exp_w {
        vs.push(("root-access-not-union".into(), format!("root reports {} reads / {} writes, the leaves declare {} / {}", gr.len(), gw.len(), exp_r.len(), exp_w.len())));
    }
    if let Some(tw) = twin {
        if o.result.is_none() && (o.values != tw.values || o.obs != tw.obs) {
            vs.push(("tree-outcome-differs-from-sequential".into(), format!("world {:?} differs from the sequential run {:?}", o.values, tw.values)));
        }
    }
    vs
}

// ---------------------------------------------------------------------------
// tree enumeration
// ---------------------------------------------------------------------------

fn compositions(n: usize, max_parts: usize) -> Vec<Vec<usize>> {
    // ordered partitions of n into 1..=max_parts positive parts
    fn rec(n: usize, parts_left: usize, cur: &mut Vec<usize>, out: &mut Vec<Vec<usize>>) {
        if n == 0 {
            if !cur.is_empty() {
                out.push(cur.clone());
            }
            return;
        }
        if parts_left == 0 {
            return;
        }
        for k in 1..=n {
            cur.push(k);
            rec(n - k, parts_left - 1, cur, out);
            cur.pop();
        }
    }
    let mut out = Vec::new();
    rec(n, max_parts, &mut Vec::new(), &mut out);
    out
}

/// all tree *shapes* with exactly `leaves` leaves (leaf access left blank)
fn shapes(leaves: usize, depth: usize, fan: usize, top: bool) -> Vec<Tree> {
    let mut out = Vec::new();
    if leaves == 1 {
        out.push(Tree::Leaf(vec![], vec![]));
    }
    if depth == 0 {
        return out;
    }
    for comp in compositions(leaves, fan) {
        if comp.len() == 1 && !top && leaves > 1 {
            // a single-child inner node adds nothing new below the top except depth
            continue;
        }
        if comp.len() == 1 && leaves == 1 && !top {
            continue;
        }
        // cartesian product of child shapes
        let child_opts: Vec<Vec<Tree>> = comp.iter().map(|k| shapes(*k, depth - 1, fan, false)).collect();
        let mut combos: Vec<Vec<Tree>> = vec![vec![]];
        for opts in &child_opts {
            let mut nxt = Vec::new();
            for c in &combos {
                for o in opts {
                    let mut d = c.clone();
                    d.push(o.clone());
                    nxt.push(d);
                }
            }
            combos = nxt;
        }
        for c in combos {
            out.push(Tree::Par(c.clone()));
            out.push(Tree::Seq(c));
        }
    }
    out
}

fn assign(t: &Tree, acc: &[(Vec<u8>, Vec<u8>)], k: &mut usize) -> Tree {
    match t {
        Tree::Leaf(..) => {
            let a = acc[*k].clone();
            *k += 1;
            Tree::Leaf(a.0, a.1)
        }
        Tree::Par(c) => Tree::Par(c.iter().map(|x| assign(x, acc, k)).collect()),
        Tree::Seq(c) => Tree::Seq(c.iter().map(|x| assign(x, acc, k)).collect()),
    }
}

/// every tree with <= max_leaves leaves, depth <= depth, fan-out <= fan, and
/// every assignment of leaf access from `alpha` that is par-compatible
pub fn trees(max_leaves: usize, depth: usize, fan: usize, alpha: &[(Vec<u8>, Vec<u8>)], compatible_only: bool) -> Vec<Tree> {
    let mut out = Vec::new();
    let mut seen = HashSet::new();
    for n in 1..=max_leaves {
        for sh in shapes(n, depth, fan, true) {
            let mut idx = vec![0usize; n];
            loop {
                let acc: Vec<_> = idx.iter().map(|i| alpha[*i].clone()).collect();
                let mut k = 0;
                let t = assign(&sh, &acc, &mut k);
                if (!compatible_only || t.par_compatible()) && seen.insert(t.short()) {
                    out.push(t);
                }
                let mut p = 0;
                loop {
                    if p == n {
                        break;
                    }
                    idx[p] += 1;
                    if idx[p] < alpha.len() {
                        break;
                    }
                    idx[p] = 0;
                    p += 1;
                }
                if p == n {
                    break;
                }
            }
        }
    }
    out
}

// ---------------------------------------------------------------------------
// exploration
// ---------------------------------------------------------------------------

#[derive(Default)]
pub struct TreeStats {
    pub trees: usize,
    pub completed: usize,
    pub executions: u64,
    pub nodes: u64,
    pub transitions: u64,
    pub traces: u64,
    pub overlapping_par_trees: u64,
    pub par_trees: u64,
    pub capped: bool,
    pub min_bound: i64,
}

struct TAcc {
    traces: HashSet<Vec<(Ev, u16)>>,
    found: Collector,
    overlaps: u64,
}

pub fn explore_trees(ts: Vec<(Tree, u8, u8)>, bounds: Vec<u32>, deadline: Instant, threads: usize) -> (TreeStats, Collector, Vec<Value>, Vec<Value>) {
    let ts = Arc::new(ts);
    let next = Arc::new(AtomicUsize::new(0));
    let results: Arc<Mutex<Vec<(usize, sched::Stats, Collector, u64, u64, i64, bool, Vec<Vec<(Ev, u16)>>)>>> = Arc::new(Mutex::new(Vec::new()));
    std::thread::scope(|s| {
        for _ in 0..threads.min(ts.len().max(1)) {
            let (ts, next, results, bounds) = (ts.clone(), next.clone(), results.clone(), bounds.clone());
            s.spawn(move || {
                // per-thread job source
                struct Cur {
                    idx: usize,
                    bi: usize,
                    acc: Arc<Mutex<TAcc>>,
                    pending: Arc<Mutex<Option<sched::Outcome>>>,
                    twin: Arc<TreeOut>,
                    stats: sched::Stats,
                    col: Collector,
                    ntr: u64,
                    ov: u64,
                    done_bound: i64,
                    capped: bool,
                    kept: Vec<Vec<(Ev, u16)>>,
                }
                let mut cur: Option<Cur> = None;
                let source = move || -> Option<sched::Job> {
                    loop {
                        if let Some(c) = cur.as_mut() {
                            let p = c.pending.lock().unwrap().take();
                            if let Some(out) = p {
                                let mut a = c.acc.lock().unwrap();
                                c.stats = out.stats.clone();
                                c.ntr = a.traces.len() as u64;
                                c.ov = a.overlaps;
                                if c.kept.len() < 2 {
                                    c.kept.extend(a.traces.iter().take(2).cloned());
                                }
                                let had = !a.found.is_empty();
                                c.col.merge(std::mem::take(&mut a.found));
                                a.traces.clear();
                                a.overlaps = 0;
                                drop(a);
                                let mut stop = had;
                                if let Some(d) = out.divergence {
                                    c.col.add(Finding { prop: "MACHINERY".into(), sig: "divergence".into(), msg: d, replay: json!({}), size: 0 });
                                    stop = true;
                                }
                                if out.stats.capped {
                                    c.capped = true;
                                    stop = true;
                                } else {
                                    c.done_bound = bounds[c.bi] as i64;
                                }
                                c.bi += 1;
                                if stop || c.bi >= bounds.len() {
                                    let c = cur.take().unwrap();
                                    results.lock().unwrap().push((c.idx, c.stats, c.col, c.ntr, c.ov, c.done_bound, c.capped, c.kept));
                                    continue;
                                }
                            }
                            break;
                        }
                        let i = next.fetch_add(1, Ordering::Relaxed);
                        if i >= ts.len() {
                            return None;
                        }
                        if Instant::now() > deadline {
                            results.lock().unwrap().push((i, sched::Stats::default(), Collector::default(), 0, 0, -1, true, vec![]));
                            continue;
                        }
                        let (t, site, d) = &ts[i];
                        let was = rayon::verif::controlled();
                        rayon::verif::set_controlled(false);
                        let twin = Arc::new(run_tree(t, *site, *d));
                        rayon::verif::set_controlled(was);
                        cur = Some(Cur { idx: i, bi: 0, acc: Arc::new(Mutex::new(TAcc { traces: HashSet::new(), found: Collector::default(), overlaps: 0 })), pending: Arc::new(Mutex::new(None)), twin, stats: sched::Stats::default(), col: Collector::default(), ntr: 0, ov: 0, done_bound: -1, capped: false, kept: vec![] });
                        break;
                    }
                    let c = cur.as_ref().unwrap();
                    let (t, site, d) = ts[c.idx].clone();
                    let bound = bounds[c.bi];
                    let (acc, acc2, twin, pending) = (c.acc.clone(), c.acc.clone(), c.twin.clone(), c.pending.clone());
                    let tj = json!({"tree": t.to_json(), "tree_short": t.short(), "inside": site == 1, "site": site, "dispatches": d});
                    let tj2 = tj.clone();
                    let body = move || {
                        let o = run_tree(&t, site, d);
                        let vs = analyze_tree(&t, d, &o, Some(&twin));
                        let mut a = acc.lock().unwrap();
                        if !vs.is_empty() {
                            let choices = sched::current_choices();
                            for (sig, msg) in vs {
                                let size = choices.len() + 1000 * sched::current_preemptions() as usize;
                                a.found.add_lazy("C16", &sig, size, || Finding {
                                    prop: "C16".into(),
                                    sig: sig.clone(),
                                    msg: format!("{} | tree {} (dispatch from {} the pool) | trace: {}", msg, t.short(), ["outside", "inside", "a worker of a foreign one-thread pool, not"][site as usize], o.log.iter().map(|e| e.short()).collect::<Vec<_>>().join(" ")),
                                    replay: json!({"kind":"tree-schedule","scenario":tj.clone(),"choices":choices,"bound":bound}),
                                    size,
                                });
                            }
                        }
                        let mut open = 0u64;
                        for e in &o.log {
                            match e.kind {
                                Ev::Fetched => {
                                    a.overlaps += open;
                                    open += 1;
                                }
                                Ev::Release => open = open.saturating_sub(1),
                                _ => {}
                            }
                        }
                        let key: Vec<(Ev, u16)> = o.log.iter().map(|e| (e.kind, e.sys)).collect();
                        a.traces.insert(key);
                    };
                    let on_abnormal = move |ab: Abnormal, choices: Vec<u16>| -> bool {
                        let mut a = acc2.lock().unwrap();
                        let (sig, msg) = match ab {
                            Abnormal::Deadlock(m) => ("tree-dispatch-deadlocked", m),
                            Abnormal::Panic(m) => ("task-ended-by-panicking", m),
                        };
                        let prop = if sig == "tree-dispatch-deadlocked" { "C16" } else { "MACHINERY" };
                        a.found.add(Finding { prop: prop.into(), sig: sig.into(), msg, replay: json!({"kind":"tree-schedule","scenario":tj2.clone(),"choices":choices,"bound":bound}), size: choices.len() });
                        true
                    };
                    Some(sched::Job {
                        cfg: Cfg { bound, deadline: Some(deadline), ..Default::default() },
                        body: Arc::new(body),
                        on_abnormal: Box::new(on_abnormal),
                        on_done: Box::new(move |o| *pending.lock().unwrap() = Some(o)),
                    })
                };
                sched::run_jobs(Box::new(source));
            });
        }
    });
    let mut st = TreeStats::default();
    st.trees = ts.len();
    st.min_bound = i64::MAX;
    let mut col = Collector::default();
    let mut samples = Vec::new();
    let mut kept_all = Vec::new();
    let mut rs = std::mem::take(&mut *results.lock().unwrap());
    rs.sort_by_key(|x| x.0);
    for (i, s, c, ntr, ov, db, capped, kept) in rs {
        st.executions += s.executions;
        st.nodes += s.nodes + s.executions;
        st.transitions += s.transitions;
        st.traces += ntr;
        st.capped |= capped;
        if !capped {
            st.completed += 1;
        }
        st.min_bound = st.min_bound.min(db);
        let has_par = matches!(&ts[i].0, t if t.short().contains("par[") && t.leaves() >= 2 && par_has_two(t));
        if has_par {
            st.par_trees += 1;
            if ov > 0 {
                st.overlapping_par_trees += 1;
            } else if !capped && db >= 1 && par_has_two_nonempty(&ts[i].0) {
                // "children of a par node may overlap": with at least one preemption allowed, some explored
                // schedule has to show two leaves inside their windows at once
                col.add(Finding {
                    prop: "C16".into(),
                    sig: "par-children-never-overlap".into(),
                    msg: format!("no schedule with <= {} preemptions shows two leaves of tree {} running at the same time (dispatch from {} the pool): the children of its par node are serialised", db, ts[i].0.short(), ["outside", "inside", "a worker of a foreign one-thread pool, not"][ts[i].1 as usize]),
                    replay: json!({"kind":"tree","scenario":{"tree": ts[i].0.to_json(), "site": ts[i].1, "dispatches": ts[i].2}}),
                    size: ts[i].0.leaves(),
                });
            }
        }
        if samples.len() < 3 && ntr > 4 {
            samples.push(json!({"tree": ts[i].0.short(), "dispatch_site": ts[i].1, "schedules": s.executions, "distinct_traces": ntr,
                "one_trace": kept.first().map(|t| t.iter().map(|(k, x)| format!("{:?}({})", k, x)).collect::<Vec<_>>().join(" "))}));
        }
        for t in kept.iter().take(if ts[i].1 <= 1 { 1 } else { 0 }) {
            kept_all.push(json!({"tree": ts[i].0.to_json(), "inside": ts[i].1 == 1, "dispatches": ts[i].2, "trace": t.iter().map(|(k, x)| json!([format!("{:?}", k), x])).collect::<Vec<_>>()}));
        }
        col.merge(c);
    }
    if st.min_bound == i64::MAX {
        st.min_bound = -1;
    }
    (st, col, samples, kept_all)
}

/// a par node with at least two children that each contain a leaf
fn par_has_two_nonempty(t: &Tree) -> bool {
    match t {
        Tree::Leaf(..) => false,
        Tree::Par(c) => c.iter().filter(|x| x.leaves() >= 1).count() >= 2 || c.iter().any(par_has_two_nonempty),
        Tree::Seq(c) => c.iter().any(par_has_two_nonempty),
    }
}

fn par_has_two(t: &Tree) -> bool {
    match t {
        Tree::Leaf(..) => false,
        Tree::Par(c) => c.len() >= 2 || c.iter().any(par_has_two),
        Tree::Seq(c) => c.iter().any(par_has_two),
    }
}


// zero-sized leaf systems (unit structs): a tree of them is itself zero-sized
#[derive(Default)]
pub struct ZN;
#[derive(Default)]
pub struct ZR;
#[derive(Default)]
pub struct ZW;
impl<'a> shred::System<'a> for ZN {
    type SystemData = ();
    fn run(&mut self, _: ()) {}
}
impl<'a> shred::System<'a> for ZR {
    type SystemData = shred::Read<'a, crate::hsys::Cell1>;
    fn run(&mut self, _: Self::SystemData) {}
}
impl<'a> shred::System<'a> for ZW {
    type SystemData = shred::Write<'a, crate::hsys::Cell1>;
    fn run(&mut self, _: Self::SystemData) {}
}
pub trait ZLeaf: Default + Send + for<'a> RunWithPool<'a> + 'static {
    /// (reads C, writes C)
    const ACC: (bool, bool);
    const NAME: &'static str;
}
impl ZLeaf for ZN {
    const ACC: (bool, bool) = (false, false);
    const NAME: &'static str = "unit()";
}
impl ZLeaf for ZR {
    const ACC: (bool, bool) = (true, false);
    const NAME: &'static str = "unit(Read<C>)";
}
impl ZLeaf for ZW {
    const ACC: (bool, bool) = (false, true);
    const NAME: &'static str = "unit(Write<C>)";
}

/// par[a, b, c], seq[a, b, c] and par[seq[a, b], c] of zero-sized leaves: reported access and conflict check
fn ztriple<A: ZLeaf, B: ZLeaf, C: ZLeaf>(col: &mut Collector) -> (u64, u64) {
    let c_id = concrete_id(2);
    let conf = |x: (bool, bool), y: (bool, bool)| (x.1 && (y.0 || y.1)) || (x.0 && y.1);
    let label = format!("{}, {}, {}", A::NAME, B::NAME, C::NAME);
    let mut panics = 0;
    let report = |what: &str, expect: bool, got: bool, col: &mut Collector| {
        if expect != got {
            col.add(Finding {
                prop: "C16".into(),
                sig: if expect { "par-with-accepted-conflict".into() } else { "par-with-rejected-compatible-children".into() },
                msg: format!("{} of zero-sized leaves [{}] {} but the access sets {}", what, label, if got { "panicked" } else { "did not panic" }, if expect { "conflict" } else { "are compatible" }),
                replay: json!({"kind":"par-with-zero-sized","leaves":label}),
                size: 3,
            });
        }
    };
    // seq[a, b, c]: union as sets
    {
        let sq = Seq::new(A::default()).with(B::default()).with(C::default());
        let (mut rr, mut ww) = (Vec::new(), Vec::new());
        RunWithPool::reads(&sq, &mut rr);
        RunWithPool::writes(&sq, &mut ww);
        let want_r = A::ACC.0 || B::ACC.0 || C::ACC.0;
        let want_w = A::ACC.1 || B::ACC.1 || C::ACC.1;
        if rr.contains(&c_id) != want_r || ww.contains(&c_id) != want_w {
            col.add(Finding {
                prop: "C16".into(),
                sig: "root-access-not-union".into(),
                msg: format!("seq of zero-sized leaves [{}] reports reads {} / writes {} of C, the leaves' data access says {} / {}", label, rr.contains(&c_id), ww.contains(&c_id), want_r, want_w),
                replay: json!({"kind":"par-with-zero-sized","leaves":label}),
                size: 3,
            });
        }
    }
    let any = conf(A::ACC, B::ACC) || conf(A::ACC, C::ACC) || conf(B::ACC, C::ACC);
    let r = catch_unwind(AssertUnwindSafe(|| {
        let _ = Par::new(A::default()).with(B::default()).with(C::default());
    }));
    panics += r.is_err() as u64;
    report("par[a, b, c]", any, r.is_err(), col);
    let u = (A::ACC.0 || B::ACC.0, A::ACC.1 || B::ACC.1);
    let r = catch_unwind(AssertUnwindSafe(|| {
        let _ = Par::new(Seq::new(A::default()).with(B::default())).with(C::default());
    }));
    panics += r.is_err() as u64;
    report("par[seq[a, b], c]", conf(u, C::ACC), r.is_err(), col);
    let r = catch_unwind(AssertUnwindSafe(|| {
        let _ = Par::new(C::default()).with(Seq::new(A::default()).with(B::default()));
    }));
    panics += r.is_err() as u64;
    report("par[c, seq[a, b]]", conf(u, C::ACC), r.is_err(), col);
    (4, panics)
}

/// The `par!` / `seq!` macros build the same tree as `new` / `with`: every tree is built both ways and run inline
/// (sequentially, deterministic); builds that panic, reported access, setup and run counters and the event order agree.
pub fn macro_differential(ts: &[Tree], col: &mut Collector) -> u64 {
    let was = rayon::verif::controlled();
    rayon::verif::set_controlled(false);
    let mut cases = 0;
    for t in ts {
        cases += 1;
        VIA_MACROS.with(|v| v.set(false));
        let a = run_tree(t, 0, 2);
        VIA_MACROS.with(|v| v.set(true));
        let b = run_tree(t, 0, 2);
        VIA_MACROS.with(|v| v.set(false));
        let key = |o: &TreeOut| {
            let (mut r, mut w) = (o.root_reads.clone(), o.root_writes.clone());
            r.sort();
            r.dedup();
            w.sort();
            w.dedup();
            (o.build_panic.is_some(), r, w, o.runs.clone(), o.setups.clone(), o.setups2.clone(), o.result.is_some(), o.values.clone(), o.log.iter().map(|e| (e.kind as u8, e.sys, e.dispatch)).collect::<Vec<_>>())
        };
        if key(&a) != key(&b) {
            let what = if a.build_panic.is_some() != b.build_panic.is_some() {
                format!("building panics: with/new {:?}, macros {:?}", a.build_panic, b.build_panic)
            } else if a.runs != b.runs {
                format!("run counters: with/new {:?}, macros {:?}", a.runs, b.runs)
            } else {
                "reported access, setup counters, final world or event order differ".to_string()
            };
            col.add(Finding {
                prop: "C16".into(),
                sig: "macro-built-tree-differs".into(),
                msg: format!("tree {} built with par! / seq! behaves differently from the same tree built with new / with: {}", t.short(), what),
                replay: json!({"kind":"tree-macro","tree":t.to_json()}),
                size: t.leaves(),
            });
        }
    }
    rayon::verif::set_controlled(was);
    cases
}

/// Leaves that OVERRIDE `System::setup` / `System::dispose` (the harness leaves of the tree exploration do not: there
/// the library's default hook is what is exercised): setting up a tree runs every leaf's own hook exactly once, in
/// every shape - a lone leaf, par / seq of 2..3, nested, built with `new` / `with` and with the macros.
fn overridden_hook_sweep(col: &mut Collector) -> u64 {
    use std::sync::atomic::{AtomicU32, Ordering};
    struct Ov(Arc<AtomicU32>, Arc<AtomicU32>);
    impl<'a> shred::System<'a> for Ov {
        type SystemData = ();
        fn run(&mut self, _: ()) {
            self.1.fetch_add(1, Ordering::SeqCst);
        }
        fn setup(&mut self, _w: &mut World) {
            self.0.fetch_add(1, Ordering::SeqCst);
        }
    }
    let was = rayon::verif::controlled();
    rayon::verif::set_controlled(false);
    let pool = Arc::new(rayon::ThreadPoolBuilder::new().num_threads(2).build().unwrap());
    let mut cases = 0;
    for shape in 0..7u8 {
        cases += 1;
        let n = [1usize, 2, 2, 3, 3, 3, 3][shape as usize];
        let su: Vec<Arc<AtomicU32>> = (0..n).map(|_| Arc::new(AtomicU32::new(0))).collect();
        let ru: Vec<Arc<AtomicU32>> = (0..n).map(|_| Arc::new(AtomicU32::new(0))).collect();
        let mk = |i: usize| Ov(su[i].clone(), ru[i].clone());
        let label = ["leaf", "par[a, b]", "seq[a, b]", "par[seq[a, b], c]", "seq[par[a, b], c]", "par![seq![a, b], c]", "seq![a, par![b, c]]"][shape as usize];
        let r = catch_unwind(AssertUnwindSafe(|| {
            let mut world = World::empty();
            macro_rules! go {
                ($t:expr) => {{
                    let mut ps = ParSeq::new($t, pool.clone());
                    ps.setup(&mut world);
                    ps.dispatch(&world);
                }};
            }
            match shape {
                0 => go!(mk(0)),
                1 => go!(Par::new(mk(0)).with(mk(1))),
                2 => go!(Seq::new(mk(0)).with(mk(1))),
                3 => go!(Par::new(Seq::new(mk(0)).with(mk(1))).with(mk(2))),
                4 => go!(Seq::new(Par::new(mk(0)).with(mk(1))).with(mk(2))),
                5 => go!(shred::par![shred::seq![mk(0), mk(1),], mk(2),]),
                _ => go!(shred::seq![mk(0), shred::par![mk(1), mk(2),],]),
            }
        }));
        let s: Vec<u32> = su.iter().map(|c| c.load(Ordering::SeqCst)).collect();
        let rn: Vec<u32> = ru.iter().map(|c| c.load(Ordering::SeqCst)).collect();
        let bad = if let Err(p) = &r {
            Some(format!("panicked: {}", crate::sched::payload_str(&**p)))
        } else if s.iter().any(|x| *x != 1) {
            Some(format!("the leaves' own setup hooks ran {:?} times, expected once each", s))
        } else if rn.iter().any(|x| *x != 1) {
            Some(format!("the leaves ran {:?} times in one dispatch, expected once each", rn))
        } else {
            None
        };
        if let Some(e) = bad {
            col.add(Finding {
                prop: "C16".into(),
                sig: "setup-missed-leaf".into(),
                msg: format!("tree {} of leaves that override System::setup: {}", label, e),
                replay: json!({"kind":"tree-overridden-hooks","shape":shape}),
                size: n,
            });
        }
    }
    rayon::verif::set_controlled(was);
    cases
}

/// Leaves whose data types are DISTINCT types with the SAME `type_name` (items declared in two blocks of one
/// function, as a macro expanded twice does): what a node reports and what `Par::with` rejects follows the types.
fn same_name_sweep(col: &mut Collector) -> (u64, u64) {
    macro_rules! twin_block {
        () => {{
            #[derive(Default)]
            struct Twin(#[allow(dead_code)] u64);
            struct TR;
            struct TW;
            impl<'a> shred::System<'a> for TR {
                type SystemData = shred::Read<'a, Twin>;
                fn run(&mut self, _: Self::SystemData) {}
            }
            impl<'a> shred::System<'a> for TW {
                type SystemData = shred::Write<'a, Twin>;
                fn run(&mut self, _: Self::SystemData) {}
            }
            let r: fn() -> BNode = || BNode(Box::new(TR));
            let w: fn() -> BNode = || BNode(Box::new(TW));
            (r, w, ResourceId::new::<Twin>(), std::any::type_name::<shred::Write<'static, Twin>>())
        }};
    }
    let one = twin_block!();
    let two = twin_block!();
    if one.3 != two.3 || one.2 == two.2 {
        col.add(Finding { prop: "MACHINERY".into(), sig: "same-name-sweep-vacuous".into(), msg: format!("the twin types are not same-named distinct types: {} / {}", one.3, two.3), replay: json!({"kind":"par-with-same-name"}), size: 1 });
    }
    // leaf = (constructor, resource, writes?)
    let leaves: Vec<(fn() -> BNode, ResourceId, bool, &str)> = vec![(one.0, one.2.clone(), false, "Read<Twin#1>"), (one.1, one.2.clone(), true, "Write<Twin#1>"), (two.0, two.2.clone(), false, "Read<Twin#2>"), (two.1, two.2.clone(), true, "Write<Twin#2>")];
    let (mut cases, mut panics) = (0u64, 0u64);
    for a in &leaves {
        for b in &leaves {
            cases += 1;
            let sq = Seq::new(a.0()).with(b.0());
            let (mut rr, mut ww) = (Vec::new(), Vec::new());
            RunWithPool::reads(&sq, &mut rr);
            RunWithPool::writes(&sq, &mut ww);
            for v in [&mut rr, &mut ww] {
                v.sort();
                v.dedup();
            }
            let mut er: Vec<ResourceId> = [a, b].iter().filter(|l| !l.2).map(|l| l.1.clone()).collect();
            let mut ew: Vec<ResourceId> = [a, b].iter().filter(|l| l.2).map(|l| l.1.clone()).collect();
            for v in [&mut er, &mut ew] {
                v.sort();
                v.dedup();
            }
            if rr != er || ww != ew {
                col.add(Finding {
                    prop: "C16".into(),
                    sig: "root-access-not-union".into(),
                    msg: format!("seq[{}, {}] (two distinct resource types with the same type name) reports reads {:?} / writes {:?}, the leaves' data access reads {:?} / writes {:?}", a.3, b.3, rr, ww, er, ew),
                    replay: json!({"kind":"par-with-same-name","a":a.3,"b":b.3}),
                    size: 2,
                });
            }
            let r = catch_unwind(AssertUnwindSafe(|| {
                let _ = Par::new(a.0()).with(b.0());
            }));
            panics += r.is_err() as u64;
            let expect = a.1 == b.1 && (a.2 || b.2);
            if r.is_err() != expect {
                col.add(Finding {
                    prop: "C16".into(),
                    sig: if expect { "par-with-accepted-conflict".into() } else { "par-with-rejected-compatible-children".into() },
                    msg: format!("Par::new({}).with({}) (two distinct resource types with the same type name) {} but the access sets {}", a.3, b.3, if r.is_err() { "panicked" } else { "did not panic" }, if expect { "conflict" } else { "are compatible" }),
                    replay: json!({"kind":"par-with-same-name","a":a.3,"b":b.3}),
                    size: 2,
                });
            }
        }
    }
    (cases, panics)
}

fn zero_sized_sweep(col: &mut Collector) -> (u64, u64) {
    let (mut cases, mut panics) = (0, 0);
    for i in 0..27u32 {
        let (a, b, c) = (i / 9, (i / 3) % 3, i % 3);
        let (x, y) = match (a, b, c) {
            (0, 0, 0) => ztriple::<ZN, ZN, ZN>(col),
            (0, 0, 1) => ztriple::<ZN, ZN, ZR>(col),
            (0, 0, 2) => ztriple::<ZN, ZN, ZW>(col),
            (0, 1, 0) => ztriple::<ZN, ZR, ZN>(col),
            (0, 1, 1) => ztriple::<ZN, ZR, ZR>(col),
            (0, 1, 2) => ztriple::<ZN, ZR, ZW>(col),
            (0, 2, 0) => ztriple::<ZN, ZW, ZN>(col),
            (0, 2, 1) => ztriple::<ZN, ZW, ZR>(col),
            (0, 2, 2) => ztriple::<ZN, ZW, ZW>(col),
            (1, 0, 0) => ztriple::<ZR, ZN, ZN>(col),
            (1, 0, 1) => ztriple::<ZR, ZN, ZR>(col),
            (1, 0, 2) => ztriple::<ZR, ZN, ZW>(col),
            (1, 1, 0) => ztriple::<ZR, ZR, ZN>(col),
            (1, 1, 1) => ztriple::<ZR, ZR, ZR>(col),
            (1, 1, 2) => ztriple::<ZR, ZR, ZW>(col),
            (1, 2, 0) => ztriple::<ZR, ZW, ZN>(col),
            (1, 2, 1) => ztriple::<ZR, ZW, ZR>(col),
            (1, 2, 2) => ztriple::<ZR, ZW, ZW>(col),
            (2, 0, 0) => ztriple::<ZW, ZN, ZN>(col),
            (2, 0, 1) => ztriple::<ZW, ZN, ZR>(col),
            (2, 0, 2) => ztriple::<ZW, ZN, ZW>(col),
            (2, 1, 0) => ztriple::<ZW, ZR, ZN>(col),
            (2, 1, 1) => ztriple::<ZW, ZR, ZR>(col),
            (2, 1, 2) => ztriple::<ZW, ZR, ZW>(col),
            (2, 2, 0) => ztriple::<ZW, ZW, ZN>(col),
            (2, 2, 1) => ztriple::<ZW, ZW, ZR>(col),
            (2, 2, 2) => ztriple::<ZW, ZW, ZW>(col),
            _ => unreachable!(),
        };
        cases += x;
        panics += y;
    }
    (cases, panics)
}

/// Static part: `Par::with` (debug assertions on) panics exactly when the new
/// child conflicts with the children already there.
/// Build an operand tree for the Par::with sweeps.  An operand whose own par nodes are conflict-free must build; if
/// building it panics (e.g. because an earlier, rightly rejected `with` left something behind) that is a finding.
fn build_operand(t: &Tree, nx: &mut usize, ctx: &Arc<Ctx>, col: &mut Collector) -> Option<BNode> {
    match catch_unwind(AssertUnwindSafe(|| build_tree(t, nx, ctx))) {
        Ok(n) => Some(n),
        Err(p) => {
            if t.par_compatible() {
                col.add(Finding {
                    prop: "C16".into(),
                    sig: "par-with-rejected-compatible-children".into(),
                    msg: format!("building the conflict-free tree {} panicked (after earlier, rightly rejected Par::with calls on this thread): {}", t.short(), crate::sched::payload_str(&*p)),
                    replay: json!({"kind":"par-with-operand","tree":t.to_json()}),
                    size: t.leaves(),
                });
            }
            None
        }
    }
}

pub fn check_par_with(alpha: &[(Vec<u8>, Vec<u8>)], col: &mut Collector) -> (u64, u64) {
    let subtrees: Vec<Tree> = {
        let mut v: Vec<Tree> = alpha.iter().map(|(r, w)| Tree::Leaf(r.clone(), w.clone())).collect();
        let leafs = v.clone();
        for a in &leafs {
            for b in &leafs {
                v.push(Tree::Seq(vec![a.clone(), b.clone()]));
                let p = Tree::Par(vec![a.clone(), b.clone()]);
                if p.par_compatible() {
                    v.push(p);
                }
            }
        }
        v
    };
    let mut cases = 0u64;
    let mut panics = 0u64;
    let conflict = |x: (u8, u8), y: (u8, u8)| (x.1 & (y.0 | y.1)) != 0 || (x.0 & y.1) != 0;
    let ctx = Ctx::new(64, Ctx::identity_map());
    for a in &subtrees {
        for b in &subtrees {
            // par[a].with(b)
            cases += 1;
            let mut nx = 0;
            let (na, nb) = match (build_operand(a, &mut nx, &ctx, col), build_operand(b, &mut nx, &ctx, col)) {
                (Some(x), Some(y)) => (x, y),
                _ => continue,
            };
            let r = catch_unwind(AssertUnwindSafe(|| {
                let _ = Par::new(na).with(nb);
            }));
            let expect = conflict(a.access(), b.access());
            if r.is_err() {
                panics += 1;
            }
            if r.is_err() != expect {
                col.add(Finding {
                    prop: "C16".into(),
                    sig: if expect { "par-with-accepted-conflict".into() } else { "par-with-rejected-compatible-children".into() },
                    msg: format!("Par::new({}).with({}) {} but the access sets {}", a.short(), b.short(), if r.is_err() { "panicked" } else { "did not panic" }, if expect { "conflict" } else { "are compatible" }),
                    replay: json!({"kind":"par-with","a":a.to_json(),"b":b.to_json()}),
                    size: a.leaves() + b.leaves(),
                });
            }
        }
    }
    // three children: the third against the union of the first two
    let leafs: Vec<Tree> = alpha.iter().map(|(r, w)| Tree::Leaf(r.clone(), w.clone())).collect();
    for a in &leafs {
        for b in &leafs {
            if conflict(a.access(), b.access()) {
                continue;
            }
            for c in &leafs {
                cases += 1;
                let mut nx = 0;
                let (na, nb, nc) = match (build_operand(a, &mut nx, &ctx, col), build_operand(b, &mut nx, &ctx, col), build_operand(c, &mut nx, &ctx, col)) {
                    (Some(x), Some(y), Some(z)) => (x, y, z),
                    _ => continue,
                };
                let r = catch_unwind(AssertUnwindSafe(|| {
                    let _ = Par::new(na).with(nb).with(nc);
                }));
                let u = (a.access().0 | b.access().0, a.access().1 | b.access().1);
                let expect = conflict(u, c.access());
                if r.is_err() {
                    panics += 1;
                }
                if r.is_err() != expect {
                    col.add(Finding {
                        prop: "C16".into(),
                        sig: if expect { "par-with-accepted-conflict".into() } else { "par-with-rejected-compatible-children".into() },
                        msg: format!("Par::new({}).with({}).with({}) {} but the third child {}", a.short(), b.short(), c.short(), if r.is_err() { "panicked" } else { "did not panic" }, if expect { "conflicts" } else { "is compatible" }),
                        replay: json!({"kind":"par-with","a":a.to_json(),"b":b.to_json(),"c":c.to_json()}),
                        size: 3,
                    });
                }
            }
        }
    }
    // statically typed leaves: what a leaf reports comes from the library's own SystemData impls
    {
        use crate::spec::StaticData;
        use std::marker::PhantomData;
        fn static_leaf(k: StaticData, id: usize, ctx: &Arc<Ctx>) -> BNode {
            macro_rules! mk {
                ($t:ty) => {
                    BNode(Box::new(SSys::<$t> { id, time: 3, ctx: ctx.clone(), _k: PhantomData }))
                };
            }
            match k {
                StaticData::Unit => mk!(SUnit),
                StaticData::ReadA => mk!(SReadA),
                StaticData::WriteC => mk!(SWriteC),
                StaticData::OptReadA => mk!(SOptReadA),
                StaticData::OptWriteC => mk!(SOptWriteC),
                StaticData::ReadExpectA => mk!(SReadExpectA),
                StaticData::ReadAWriteC => mk!(SReadAWriteC),
                StaticData::OptReadAThenReadA => mk!(SOptReadAThenReadA),
                StaticData::NamingThenProviding => mk!(SNamingThenProviding),
                StaticData::GenReadA => mk!(SGenReadA),
                StaticData::GenReadC => mk!(SGenReadC),
                    StaticData::GenOverWriteC => mk!(SGenOverWriteC),
                    StaticData::DerTupleAC => mk!(SDerTupleAC),
                    StaticData::DerMacWriteC => mk!(SDerMacWriteC),
                StaticData::TwinW1 => BNode((twin_kinds()[0].leaf)(id, ctx)),
                StaticData::TwinW2 => BNode((twin_kinds()[1].leaf)(id, ctx)),
                StaticData::TwinR2 => BNode((twin_kinds()[2].leaf)(id, ctx)),
            }
        }
        let mask = |v: Vec<u8>| v.iter().fold(0u64, |m, x| m | 1u64 << x);
        let ids = |v: Vec<u8>| -> Vec<ResourceId> {
            let mut r: Vec<ResourceId> = v.iter().map(|x| match *x { 62 => twin_kinds()[0].id.clone(), 63 => twin_kinds()[1].id.clone(), c => concrete_id(c) }).collect();
            r.sort();
            r.dedup();
            r
        };
        for a in StaticData::all() {
            for b in StaticData::all() {
                cases += 1;
                let (na, nb) = (static_leaf(a, 0, &ctx), static_leaf(b, 1, &ctx));
                // what a seq node of the two reports (as sets)
                let (mut rr, mut ww) = (Vec::new(), Vec::new());
                let sq = Seq::new(static_leaf(a, 0, &ctx)).with(static_leaf(b, 1, &ctx));
                RunWithPool::reads(&sq, &mut rr);
                RunWithPool::writes(&sq, &mut ww);
                rr.sort();
                rr.dedup();
                ww.sort();
                ww.dedup();
                let mut er = a.reads();
                er.extend(b.reads());
                let mut ew = a.writes();
                ew.extend(b.writes());
                if rr != ids(er) || ww != ids(ew) {
                    col.add(Finding {
                        prop: "C16".into(),
                        sig: "root-access-not-union".into(),
                        msg: format!("seq[{}, {}] (statically typed leaves) reports reads {:?} / writes {:?}, the leaves' data access reads {:?} / writes {:?}", a.label(), b.label(), rr, ww, ids(a.reads().into_iter().chain(b.reads()).collect()), ids(a.writes().into_iter().chain(b.writes()).collect())),
                        replay: json!({"kind":"par-with-static","a":a.label(),"b":b.label()}),
                        size: 2,
                    });
                }
                let r = catch_unwind(AssertUnwindSafe(|| {
                    let _ = Par::new(na).with(nb);
                }));
                let (ma, mb) = ((mask(a.reads()), mask(a.writes())), (mask(b.reads()), mask(b.writes())));
                let expect = (ma.1 & (mb.0 | mb.1)) != 0 || (ma.0 & mb.1) != 0;
                if r.is_err() {
                    panics += 1;
                }
                if r.is_err() != expect {
                    col.add(Finding {
                        prop: "C16".into(),
                        sig: if expect { "par-with-accepted-conflict".into() } else { "par-with-rejected-compatible-children".into() },
                        msg: format!("Par::new({}).with({}) (statically typed leaves) {} but the access sets {}", a.label(), b.label(), if r.is_err() { "panicked" } else { "did not panic" }, if expect { "conflict" } else { "are compatible" }),
                        replay: json!({"kind":"par-with-static","a":a.label(),"b":b.label()}),
                        size: 2,
                    });
                }
            }
        }
    }
    {
        let (x, y) = zero_sized_sweep(col);
        cases += x;
        panics += y;
    }
    {
        let (x, y) = same_name_sweep(col);
        cases += x;
        panics += y;
    }
    cases += overridden_hook_sweep(col);
    // long access lists: the contested resource sits behind n entries naming an unrelated resource, either in
    // one leaf's declared list (duplicates are legal) or spread over the leaves of a seq child
    for n in 0..=40usize {
        for spread in [false, true] {
            // (the short child's access, the long child's access to the contested resource 0: (reads it, writes it))
            for (short, long_r, long_w) in [((vec![], vec![0u8]), true, false), ((vec![0u8], vec![]), false, true), ((vec![], vec![0u8]), false, true), ((vec![0u8], vec![]), true, false)] {
                let a = Tree::Leaf(short.0.clone(), short.1.clone());
                let last = Tree::Leaf(if long_r { vec![0] } else { vec![] }, if long_w { vec![0] } else { vec![] });
                let b = if spread {
                    let mut v: Vec<Tree> = (0..n).map(|i| if i % 2 == 0 { Tree::Leaf(vec![1], vec![]) } else { Tree::Leaf(vec![], vec![1]) }).collect();
                    v.push(last);
                    // the harness builds seq nodes of up to 6 children: nest to the right
                    fn nest(mut v: Vec<Tree>) -> Tree {
                        if v.len() <= 6 {
                            return Tree::Seq(v);
                        }
                        let rest = v.split_off(5);
                        v.push(nest(rest));
                        Tree::Seq(v)
                    }
                    nest(v)
                } else {
                    let mut r = vec![1u8; if long_w { 0 } else { n }];
                    let mut w = vec![1u8; if long_w { n } else { 0 }];
                    if long_r {
                        r.push(0);
                    }
                    if long_w {
                        w.push(0);
                    }
                    Tree::Leaf(r, w)
                };
                let expect = conflict(a.access(), b.access());
                for long_first in [false, true] {
                    cases += 1;
                    let mut nx = 0;
                    let (na, nb) = match (build_operand(&a, &mut nx, &ctx, col), build_operand(&b, &mut nx, &ctx, col)) {
                        (Some(x), Some(y)) => (x, y),
                        _ => continue,
                    };
                    let r = catch_unwind(AssertUnwindSafe(|| {
                        if long_first {
                            let _ = Par::new(nb).with(na);
                        } else {
                            let _ = Par::new(na).with(nb);
                        }
                    }));
                    if r.is_err() {
                        panics += 1;
                    }
                    if r.is_err() != expect {
                        col.add(Finding {
                            prop: "C16".into(),
                            sig: if expect { "par-with-accepted-conflict".into() } else { "par-with-rejected-compatible-children".into() },
                            msg: format!("Par::with of {} and a child whose access to the same resource sits behind {} other entries ({}; long child {}) {} but the access sets {}", a.short(), n, if spread { "a seq of leaves" } else { "one leaf's list" }, if long_first { "first" } else { "added" }, if r.is_err() { "panicked" } else { "did not panic" }, if expect { "conflict" } else { "are compatible" }),
                            replay: json!({"kind":"par-with","a":a.to_json(),"b":b.to_json(),"long_first":long_first}),
                            size: n + 2,
                        });
                    }
                }
            }
        }
    }
    (cases, panics)
}
