//! Registration sequences ("plans") as data: the alphabet of E1/E2.

use serde_json::{json, Value};

/// Abstract resources 0..NRES (A, B, C, D).  They are mapped onto concrete
/// `(type, dynamic id)` pairs by a `ResMap` (identity by default):
/// concrete universe U = [(Cell0,0), (Cell0,1), (Cell1,0), (Cell1,7), (Cell0,2^32+1), (Cell1,2^64-256)]
/// (the last two collide with (Cell0,1) / (Cell1,0) under any truncation of the dynamic id).
pub const NRES: usize = 4;
pub const NCONCRETE: usize = 6;

pub fn res_name(r: u8) -> &'static str {
    ["A", "B", "C", "D", "E", "F"][r as usize]
}

#[derive(Clone, Debug, PartialEq, Eq, Hash, Default)]
pub struct SysSpec {
    /// "" = unnamed
    pub name: String,
    /// abstract resource indices, in the order the system lists them
    pub reads: Vec<u8>,
    pub writes: Vec<u8>,
    /// running-time hint 1..=5
    pub time: u8,
    /// dependency names
    pub deps: Vec<String>,
}

/// Static data declared by a batch controller; only the two "static"
/// resources A = (Cell0, 0) and C = (Cell1, 0) can be named by a type.
#[derive(Clone, Copy, Debug, PartialEq, Eq, Hash)]
pub enum CtrlData {
    Unit,
    ReadA,
    WriteA,
    ReadC,
    WriteC,
    ReadAWriteC,
}

impl CtrlData {
    pub fn reads(self) -> Vec<u8> {
        match self {
            CtrlData::ReadA | CtrlData::ReadAWriteC => vec![0],
            CtrlData::ReadC => vec![2],
            _ => vec![],
        }
    }
    pub fn writes(self) -> Vec<u8> {
        match self {
            CtrlData::WriteA => vec![0],
            CtrlData::WriteC | CtrlData::ReadAWriteC => vec![2],
            _ => vec![],
        }
    }
    pub fn all() -> [CtrlData; 6] {
        [
            CtrlData::Unit,
            CtrlData::ReadA,
            CtrlData::WriteA,
            CtrlData::ReadC,
            CtrlData::WriteC,
            CtrlData::ReadAWriteC,
        ]
    }
    pub fn label(self) -> &'static str {
        match self {
            CtrlData::Unit => "()",
            CtrlData::ReadA => "R(A)",
            CtrlData::WriteA => "W(A)",
            CtrlData::ReadC => "R(C)",
            CtrlData::WriteC => "W(C)",
            CtrlData::ReadAWriteC => "R(A)W(C)",
        }
    }
}

/// Statically typed system data (the library's own `setup` / `fetch` code paths): only A = (Cell0, 0)
/// and C = (Cell1, 0) can be named by a type.
#[derive(Clone, Copy, Debug, PartialEq, Eq, Hash)]
pub enum StaticData {
    Unit,
    ReadA,
    WriteC,
    OptReadA,
    OptWriteC,
    ReadExpectA,
    ReadAWriteC,
    /// `(Option<Read<A>>, Read<A>)`: the resource is first named by a member that creates nothing
    OptReadAThenReadA,
    /// `((ReadExpect<A>, Option<Read<C>>), (Read<A>, Read<C>))`: a bundle that only names, then one that provides
    NamingThenProviding,
    /// a derived bundle that is generic over the resource it reads, instantiated with A ...
    GenReadA,
    /// ... and with C
    GenReadC,
}

impl StaticData {
    pub fn all() -> [StaticData; 11] {
        [StaticData::Unit, StaticData::ReadA, StaticData::WriteC, StaticData::OptReadA, StaticData::OptWriteC, StaticData::ReadExpectA, StaticData::ReadAWriteC, StaticData::OptReadAThenReadA, StaticData::NamingThenProviding, StaticData::GenReadA, StaticData::GenReadC]
    }
    pub fn reads(self) -> Vec<u8> {
        match self {
            StaticData::ReadA | StaticData::OptReadA | StaticData::ReadExpectA | StaticData::ReadAWriteC | StaticData::OptReadAThenReadA | StaticData::GenReadA => vec![0],
            StaticData::NamingThenProviding => vec![0, 2],
            StaticData::GenReadC => vec![2],
            _ => vec![],
        }
    }
    pub fn writes(self) -> Vec<u8> {
        match self {
            StaticData::WriteC | StaticData::OptWriteC | StaticData::ReadAWriteC => vec![2],
            _ => vec![],
        }
    }
    /// resources a default provider creates in `setup`
    pub fn defaults(self) -> Vec<u8> {
        match self {
            StaticData::ReadA => vec![0],
            StaticData::WriteC => vec![2],
            StaticData::ReadAWriteC | StaticData::NamingThenProviding => vec![0, 2],
            StaticData::OptReadAThenReadA | StaticData::GenReadA => vec![0],
            StaticData::GenReadC => vec![2],
            _ => vec![],
        }
    }
    pub fn label(self) -> &'static str {
        match self {
            StaticData::Unit => "()",
            StaticData::ReadA => "Read<A>",
            StaticData::WriteC => "Write<C>",
            StaticData::OptReadA => "Option<Read<A>>",
            StaticData::OptWriteC => "Option<Write<C>>",
            StaticData::ReadExpectA => "ReadExpect<A>",
            StaticData::ReadAWriteC => "(Read<A>, Write<C>)",
            StaticData::OptReadAThenReadA => "(Option<Read<A>>, Read<A>)",
            StaticData::NamingThenProviding => "((ReadExpect<A>, Option<Read<C>>), (Read<A>, Read<C>))",
            StaticData::GenReadA => "GenRead<A>",
            StaticData::GenReadC => "GenRead<C>",
        }
    }
}

#[derive(Clone, Debug, PartialEq, Eq, Hash)]
pub struct StaticSpec {
    pub name: String,
    pub deps: Vec<String>,
    pub data: StaticData,
    pub time: u8,
}

#[derive(Clone, Debug, PartialEq, Eq, Hash)]
pub struct BatchSpec {
    pub name: String,
    pub deps: Vec<String>,
    pub ctrl: CtrlData,
    /// inner dispatches per controller run
    pub times: u8,
    /// use the library's `MultiDispatcher` (times = value returned by plan())
    pub multi: bool,
    /// the controller fetches its declared data (and drops it) before dispatching
    pub fetch_data: bool,
    pub inner: Vec<Op>,
}

#[derive(Clone, Debug, PartialEq, Eq, Hash)]
pub enum Op {
    Sys(SysSpec),
    Barrier,
    Tl(SysSpec),
    Batch(BatchSpec),
    /// a system whose data is a statically typed `SystemData` (library setup / fetch paths)
    Static(StaticSpec),
}

fn acc_str(reads: &[u8], writes: &[u8]) -> String {
    let mut s = String::new();
    if !reads.is_empty() {
        s.push('R');
        for r in reads {
            s.push_str(res_name(*r));
        }
    }
    if !writes.is_empty() {
        s.push('W');
        for w in writes {
            s.push_str(res_name(*w));
        }
    }
    if s.is_empty() {
        s.push('-');
    }
    s
}

impl SysSpec {
    pub fn short(&self) -> String {
        let mut s = format!("{:?}:{}/t{}", self.name, acc_str(&self.reads, &self.writes), self.time);
        if !self.deps.is_empty() {
            s.push_str(&format!("<-{:?}", self.deps));
        }
        s
    }
}

impl Op {
    pub fn short(&self) -> String {
        match self {
            Op::Sys(s) => s.short(),
            Op::Barrier => "|".to_string(),
            Op::Tl(s) => format!("tl({})", s.short()),
            Op::Static(s) => format!("static({:?}:{}/t{}{})", s.name, s.data.label(), s.time, if s.deps.is_empty() { String::new() } else { format!("<-{:?}", s.deps) }),
            Op::Batch(b) => format!(
                "batch({:?}{} ctrl={} x{}{}{} [{}])",
                b.name,
                if b.deps.is_empty() { String::new() } else { format!("<-{:?}", b.deps) },
                b.ctrl.label(),
                b.times,
                if b.multi { " multi" } else { "" },
                if b.fetch_data { " fetch" } else { "" },
                b.inner.iter().map(|o| o.short()).collect::<Vec<_>>().join("; ")
            ),
        }
    }

    pub fn to_json(&self) -> Value {
        match self {
            Op::Sys(s) => json!({"op":"sys","name":s.name,"reads":s.reads,"writes":s.writes,"time":s.time,"deps":s.deps}),
            Op::Barrier => json!({"op":"barrier"}),
            Op::Tl(s) => json!({"op":"tl","name":s.name,"reads":s.reads,"writes":s.writes,"time":s.time}),
            Op::Static(s) => json!({"op":"static","name":s.name,"deps":s.deps,"data":s.data.label(),"time":s.time}),
            Op::Batch(b) => json!({"op":"batch","name":b.name,"deps":b.deps,"ctrl":b.ctrl.label(),
                "times":b.times,"multi":b.multi,"fetch_data":b.fetch_data,
                "inner": b.inner.iter().map(|o| o.to_json()).collect::<Vec<_>>()}),
        }
    }

    pub fn from_json(v: &Value) -> Option<Op> {
        let u8s = |x: &Value| -> Vec<u8> {
            x.as_array()
                .map(|a| a.iter().filter_map(|e| e.as_u64().map(|n| n as u8)).collect())
                .unwrap_or_default()
        };
        let strs = |x: &Value| -> Vec<String> {
            x.as_array()
                .map(|a| a.iter().filter_map(|e| e.as_str().map(|s| s.to_string())).collect())
                .unwrap_or_default()
        };
        match v.get("op")?.as_str()? {
            "barrier" => Some(Op::Barrier),
            k @ ("sys" | "tl") => {
                let s = SysSpec {
                    name: v.get("name")?.as_str()?.to_string(),
                    reads: u8s(v.get("reads")?),
                    writes: u8s(v.get("writes")?),
                    time: v.get("time")?.as_u64()? as u8,
                    deps: v.get("deps").map(strs).unwrap_or_default(),
                };
                Some(if k == "sys" { Op::Sys(s) } else { Op::Tl(s) })
            }
            "static" => {
                let label = v.get("data")?.as_str()?;
                Some(Op::Static(StaticSpec {
                    name: v.get("name")?.as_str()?.to_string(),
                    deps: strs(v.get("deps")?),
                    data: StaticData::all().into_iter().find(|c| c.label() == label)?,
                    time: v.get("time")?.as_u64()? as u8,
                }))
            }
            "batch" => {
                let label = v.get("ctrl")?.as_str()?;
                let ctrl = CtrlData::all().into_iter().find(|c| c.label() == label)?;
                let inner = v
                    .get("inner")?
                    .as_array()?
                    .iter()
                    .map(Op::from_json)
                    .collect::<Option<Vec<_>>>()?;
                Some(Op::Batch(BatchSpec {
                    name: v.get("name")?.as_str()?.to_string(),
                    deps: strs(v.get("deps")?),
                    ctrl,
                    times: v.get("times")?.as_u64()? as u8,
                    multi: v.get("multi")?.as_bool()?,
                    fetch_data: v.get("fetch_data")?.as_bool()?,
                    inner,
                }))
            }
            _ => None,
        }
    }
}

pub fn plan_short(ops: &[Op]) -> String {
    ops.iter().map(|o| o.short()).collect::<Vec<_>>().join("; ")
}

pub fn plan_json(ops: &[Op]) -> Value {
    Value::Array(ops.iter().map(|o| o.to_json()).collect())
}

pub fn plan_from_json(v: &Value) -> Option<Vec<Op>> {
    v.as_array()?.iter().map(Op::from_json).collect()
}

/// What kind of node a system id denotes.
#[derive(Clone, Copy, Debug, PartialEq, Eq)]
pub enum Kind {
    Sys,
    Tl,
    Batch,
}

/// Static information about one system of a plan (ids are pre-order numbers
/// over the op tree; barriers get none).
#[derive(Clone, Debug)]
pub struct Node {
    pub id: usize,
    pub kind: Kind,
    /// enclosing batch (None = top level)
    pub parent: Option<usize>,
    /// nesting depth (0 = top level)
    pub depth: usize,
    /// index of the op in its own registration sequence
    pub op_index: usize,
    pub name: String,
    pub deps: Vec<String>,
    pub time: u8,
    /// own declared access (for a batch: the controller's data)
    pub reads: Vec<u8>,
    pub writes: Vec<u8>,
    /// effective access as seen by the enclosing scheduler (for a batch: union
    /// of controller data and everything inside, recursively); bit masks
    pub eff_reads: u64,
    pub eff_writes: u64,
    /// for batches
    pub times: u8,
    pub multi: bool,
    pub children: Vec<usize>,
    /// number of barriers registered before this op in its sequence
    pub barriers_before: usize,
    /// statically typed system (no harness events, library setup path)
    pub is_static: bool,
    /// resources (bit mask) that this node's own data creates through a default provider in `setup`
    pub defaults: u8,
}

#[derive(Clone, Debug, Default)]
pub struct PlanInfo {
    pub nodes: Vec<Node>,
    /// ids of the top-level nodes in registration order (barriers skipped)
    pub top: Vec<usize>,
    /// top-level nodes whose registration call was rejected (set by the invariant checker)
    pub rejected: Vec<usize>,
}

fn mask(v: &[u8]) -> u64 {
    v.iter().fold(0u64, |m, r| m | (1u64 << r))
}

fn number(ops: &[Op], parent: Option<usize>, depth: usize, info: &mut PlanInfo) -> Vec<usize> {
    let mut ids = Vec::new();
    let mut barriers = 0;
    for (i, op) in ops.iter().enumerate() {
        match op {
            Op::Barrier => barriers += 1,
            Op::Sys(s) | Op::Tl(s) => {
                let id = info.nodes.len();
                info.nodes.push(Node {
                    id,
                    kind: if matches!(op, Op::Sys(_)) { Kind::Sys } else { Kind::Tl },
                    parent,
                    depth,
                    op_index: i,
                    name: s.name.clone(),
                    deps: s.deps.clone(),
                    time: s.time,
                    reads: s.reads.clone(),
                    writes: s.writes.clone(),
                    eff_reads: mask(&s.reads),
                    eff_writes: mask(&s.writes),
                    times: 0,
                    multi: false,
                    children: vec![],
                    barriers_before: barriers,
                    is_static: false,
                    defaults: 0,
                });
                ids.push(id);
            }
            Op::Static(st) => {
                let id = info.nodes.len();
                info.nodes.push(Node {
                    id,
                    kind: Kind::Sys,
                    parent,
                    depth,
                    op_index: i,
                    name: st.name.clone(),
                    deps: st.deps.clone(),
                    time: st.time,
                    reads: st.data.reads(),
                    writes: st.data.writes(),
                    eff_reads: mask(&st.data.reads()),
                    eff_writes: mask(&st.data.writes()),
                    times: 0,
                    multi: false,
                    children: vec![],
                    barriers_before: barriers,
                    is_static: true,
                    defaults: mask(&st.data.defaults()) as u8,
                });
                ids.push(id);
            }
            Op::Batch(b) => {
                let id = info.nodes.len();
                info.nodes.push(Node {
                    id,
                    kind: Kind::Batch,
                    parent,
                    depth,
                    op_index: i,
                    name: b.name.clone(),
                    deps: b.deps.clone(),
                    time: 5,
                    reads: b.ctrl.reads(),
                    writes: b.ctrl.writes(),
                    eff_reads: 0,
                    eff_writes: 0,
                    times: b.times,
                    multi: b.multi,
                    children: vec![],
                    barriers_before: barriers,
                    is_static: false,
                    // every controller kind of the harness uses default-providing Read / Write
                    defaults: (mask(&b.ctrl.reads()) | mask(&b.ctrl.writes())) as u8,
                });
                let ch = number(&b.inner, Some(id), depth + 1, info);
                let mut er = mask(&b.ctrl.reads());
                let mut ew = mask(&b.ctrl.writes());
                for c in &ch {
                    // thread-local systems of an inner builder are not part of
                    // what the inner *stages* accumulate, but they do run inside
                    // the batch: the harness's own union includes them.
                    er |= info.nodes[*c].eff_reads;
                    ew |= info.nodes[*c].eff_writes;
                }
                info.nodes[id].eff_reads = er;
                info.nodes[id].eff_writes = ew;
                info.nodes[id].children = ch;
                ids.push(id);
            }
        }
    }
    ids
}

impl PlanInfo {
    pub fn of(ops: &[Op]) -> PlanInfo {
        let mut info = PlanInfo::default();
        info.top = number(ops, None, 0, &mut info);
        info
    }

    pub fn conflict(&self, a: usize, b: usize) -> bool {
        let (x, y) = (&self.nodes[a], &self.nodes[b]);
        (x.eff_writes & (y.eff_reads | y.eff_writes)) != 0 || (x.eff_reads & y.eff_writes) != 0
    }

    /// leaf-level conflict on own declared access (for windows of leaves and of
    /// controller data)
    pub fn own_conflict(&self, a: usize, b: usize) -> bool {
        let (x, y) = (&self.nodes[a], &self.nodes[b]);
        let (xr, xw, yr, yw) = (mask(&x.reads), mask(&x.writes), mask(&y.reads), mask(&y.writes));
        (xw & (yr | yw)) != 0 || (xr & yw) != 0
    }

    /// is `anc` an ancestor (enclosing batch) of `id`?
    pub fn encloses(&self, anc: usize, id: usize) -> bool {
        let mut cur = self.nodes[id].parent;
        while let Some(p) = cur {
            if p == anc {
                return true;
            }
            cur = self.nodes[p].parent;
        }
        false
    }

    /// number of systems that are leaves (everything that has a run counter)
    pub fn n(&self) -> usize {
        self.nodes.len()
    }
}
