//! Collecting violations, matching them against known_findings.json, writing
//! replay files and evidence fragments.

use std::collections::BTreeMap;
use std::path::PathBuf;

use serde_json::{json, Value};

#[derive(Clone, Debug)]
pub struct Finding {
    pub prop: String,
    pub sig: String,
    pub msg: String,
    /// self-contained replay description
    pub replay: Value,
    /// smaller = simpler counterexample
    pub size: usize,
}

#[derive(Default)]
pub struct Collector {
    /// (prop, sig) -> (best finding, count)
    pub best: BTreeMap<(String, String), (Finding, u64)>,
}

impl Collector {
    pub fn add(&mut self, f: Finding) {
        let key = (f.prop.clone(), f.sig.clone());
        match self.best.get_mut(&key) {
            None => {
                self.best.insert(key, (f, 1));
            }
            Some((b, n)) => {
                *n += 1;
                if f.size < b.size {
                    *b = f;
                }
            }
        }
    }

    /// cheap path: only builds the finding when it would become the best one
    pub fn add_lazy<F: FnOnce() -> Finding>(&mut self, prop: &str, sig: &str, size: usize, mk: F) {
        let key = (prop.to_string(), sig.to_string());
        match self.best.get_mut(&key) {
            Some((b, n)) => {
                *n += 1;
                if size < b.size {
                    *b = mk();
                }
            }
            None => {
                self.best.insert(key, (mk(), 1));
            }
        }
    }

    pub fn merge(&mut self, other: Collector) {
        for (k, (f, n)) in other.best {
            match self.best.get_mut(&k) {
                None => {
                    self.best.insert(k, (f, n));
                }
                Some((b, m)) => {
                    *m += n;
                    if f.size < b.size {
                        *b = f;
                    }
                }
            }
        }
    }

    pub fn is_empty(&self) -> bool {
        self.best.is_empty()
    }
}

pub fn verif_dir() -> PathBuf {
    std::env::var("VERIF_DIR").map(PathBuf::from).unwrap_or_else(|_| PathBuf::from("/verif"))
}

pub struct Known {
    entries: Vec<Value>,
}

impl Known {
    pub fn load() -> Known {
        let p = verif_dir().join("known_findings.json");
        let entries = std::fs::read_to_string(&p)
            .ok()
            .and_then(|s| serde_json::from_str::<Value>(&s).ok())
            .and_then(|v| v.get("findings").and_then(|f| f.as_array().cloned()))
            .unwrap_or_default();
        Known { entries }
    }

    /// a `known` (not `fixed`) entry for this property and signature
    pub fn matches(&self, prop: &str, sig: &str) -> Option<String> {
        self.entries.iter().find_map(|e| {
            let ok = e.get("status").and_then(|s| s.as_str()) == Some("known")
                && e.get("property").and_then(|s| s.as_str()) == Some(prop)
                && e.get("signature").and_then(|s| s.as_str()) == Some(sig);
            if ok {
                Some(e.get("what").and_then(|s| s.as_str()).unwrap_or("").to_string())
            } else {
                None
            }
        })
    }
}

pub struct Verdict {
    pub violations: usize,
    pub known: usize,
    pub machinery: usize,
    pub lines: Vec<String>,
    pub details: Vec<Value>,
}

/// Print KNOWN-FINDING / VIOLATION lines for the findings of property `prop`
/// (findings of other properties are ignored: every check only decides its own
/// property), write replay files under out/<prop>/.
pub fn conclude(prop: &str, engine: &str, col: &Collector) -> Verdict {
    let known = Known::load();
    let dir = verif_dir().join("out").join(prop);
    let _ = std::fs::create_dir_all(&dir);
    let mut v = Verdict { violations: 0, known: 0, machinery: 0, lines: vec![], details: vec![] };
    let mut k = 0;
    for ((p, sig), (f, n)) in &col.best {
        if p == "MACHINERY" {
            v.machinery += 1;
            v.lines.push(format!("MACHINERY-ERROR engine={} {}: {}", engine, sig, f.msg));
            continue;
        }
        if p != prop {
            continue;
        }
        if let Some(what) = known.matches(p, sig) {
            v.known += 1;
            v.lines.push(format!("KNOWN-FINDING: property={} signature={} occurrences={} {} | e.g. {}", p, sig, n, what, first_line(&f.msg)));
            v.details.push(json!({"kind":"known","signature":sig,"occurrences":n,"example":f.msg}));
            continue;
        }
        let path = dir.join(format!("{}-{}-{}.json", engine, sig, k));
        k += 1;
        let mut rep = f.replay.clone();
        if let Some(o) = rep.as_object_mut() {
            o.insert("property".into(), json!(p));
            o.insert("engine".into(), json!(engine));
            o.insert("signature".into(), json!(sig));
            o.insert("what".into(), json!(f.msg));
            o.insert("occurrences".into(), json!(n));
        }
        let _ = std::fs::write(&path, serde_json::to_string_pretty(&rep).unwrap());
        v.violations += 1;
        v.lines.push(format!("VIOLATION property={} replay={}", p, path.display()));
        v.lines.push(format!("  signature={} occurrences={} {}", sig, n, first_line(&f.msg)));
        v.details.push(json!({"kind":"violation","signature":sig,"occurrences":n,"example":f.msg,"replay":path.display().to_string()}));
    }
    v
}

fn first_line(s: &str) -> String {
    s.lines().next().unwrap_or("").chars().take(300).collect()
}
