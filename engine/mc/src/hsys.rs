//! Harness systems: self-identifying systems with a dynamic accessor whose
//! fetch / run / release instants are harness code (DESIGN.md §5.3), batch
//! controllers, the shared per-execution context and the event log.

use std::marker::PhantomData;
use std::sync::atomic::{AtomicBool, AtomicU32, Ordering};
use std::sync::{Arc, Mutex};

use shred::{
    Accessor, AccessorCow, BatchController, Dispatcher, DynamicSystemData, Fetch, FetchMut,
    MultiDispatchController, Read, ResourceId, RunningTime, System, SystemData, World, Write,
};

use crate::sched::sched_point;
use crate::spec::NCONCRETE;

#[derive(Default, Debug, Clone, Copy, PartialEq, Eq)]
pub struct Cell0(pub u64);
#[derive(Default, Debug, Clone, Copy, PartialEq, Eq)]
pub struct Cell1(pub u64);

/// concrete universe
pub fn concrete_id(c: u8) -> ResourceId {
    match c {
        0 => ResourceId::new_with_dynamic_id::<Cell0>(0),
        // (concrete 1 and 3 share the NON-ZERO dynamic id 7 across the two Rust types: an id is the pair)
        1 => ResourceId::new_with_dynamic_id::<Cell0>(7),
        2 => ResourceId::new_with_dynamic_id::<Cell1>(0),
        3 => ResourceId::new_with_dynamic_id::<Cell1>(7),
        4 => ResourceId::new_with_dynamic_id::<Cell0>(0x1_0000_0001),
        5 => ResourceId::new_with_dynamic_id::<Cell1>(u64::MAX - 0xFF),
        // sweep classes (C19 relabelling sweep): 250 further ids, alternating between the two types
        k => {
            let k = (k - NCONCRETE as u8) as u64;
            if k % 2 == 0 {
                ResourceId::new_with_dynamic_id::<Cell0>(100 + k / 2)
            } else {
                ResourceId::new_with_dynamic_id::<Cell1>(100 + k / 2)
            }
        }
    }
}

fn is_cell0(c: u8) -> bool {
    matches!(c, 0 | 1 | 4) || (c >= NCONCRETE as u8 && (c - NCONCRETE as u8) % 2 == 0)
}

/// `new_world` plus every sweep class.
pub fn new_world_wide() -> World {
    let mut w = new_world();
    for c in NCONCRETE as u8..=255 {
        if is_cell0(c) {
            w.insert_by_id(concrete_id(c), Cell0(c as u64));
        } else {
            w.insert_by_id(concrete_id(c), Cell1(c as u64));
        }
    }
    w
}

pub const INIT_VALUES: [u64; NCONCRETE] = [11, 22, 33, 44, 55, 66];

/// A world holding the whole concrete universe with fixed initial values.
pub fn new_world() -> World {
    let mut w = World::empty();
    for c in 0..NCONCRETE as u8 {
        if is_cell0(c) {
            w.insert_by_id(concrete_id(c), Cell0(INIT_VALUES[c as usize]));
        } else {
            w.insert_by_id(concrete_id(c), Cell1(INIT_VALUES[c as usize]));
        }
    }
    // the two same-named resource types of the statically typed twin systems (abstract resources 62, 63)
    let tk = twin_kinds();
    (tk[0].insert)(&mut w, 77);
    (tk[1].insert)(&mut w, 88);
    w
}

pub fn world_values(w: &World) -> Vec<u64> {
    (0..NCONCRETE as u8)
        .map(|c| {
            if is_cell0(c) {
                w.try_fetch_by_id::<Cell0>(concrete_id(c)).map(|x| x.0).unwrap_or(u64::MAX)
            } else {
                w.try_fetch_by_id::<Cell1>(concrete_id(c)).map(|x| x.0).unwrap_or(u64::MAX)
            }
        })
        .collect()
}

/// Borrow state of every cell of the universe: 0 free, 1 shared, 2 exclusive, 3 absent.
pub fn world_borrow_state(w: &World) -> Vec<u8> {
    (0..NCONCRETE as u8)
        .map(|c| {
            // SAFETY: only probing the borrow flag, the box is not replaced.
            match unsafe { w.try_fetch_internal(concrete_id(c)) } {
                None => 3,
                Some(cell) => {
                    if cell.try_borrow_mut().is_ok() {
                        0
                    } else if cell.try_borrow().is_ok() {
                        1
                    } else {
                        2
                    }
                }
            }
        })
        .collect()
}

#[derive(Clone, Copy, Debug, PartialEq, Eq, Hash)]
pub enum Ev {
    /// identification run
    Ident,
    FetchBegin,
    Fetched,
    Release,
    CtrlBegin,
    CtrlDataOpen,
    CtrlDataClose,
    CtrlEnd,
    /// MultiDispatcher plan()
    Plan,
    /// driver markers
    DispatchBegin,
    DispatchEnd,
    /// script-level markers of the async driver (sys = op index)
    Script,
}

#[derive(Clone, Copy, Debug, PartialEq, Eq, Hash)]
pub struct Event {
    pub kind: Ev,
    pub sys: u16,
    /// controlled task id (0 outside controlled executions)
    pub task: u16,
    /// pool id of the task (0 = not a pool task; pool ids start at 1, the global pool is reported as u8::MAX)
    pub pool: u8,
    pub dispatch: u16,
    /// free payload (script result etc.)
    pub aux: u16,
}

impl Event {
    pub fn short(&self) -> String {
        format!(
            "{:?}({})@t{}{}",
            self.kind,
            self.sys,
            self.task,
            if self.pool != 0 { format!("p{}", self.pool) } else { String::new() }
        )
    }
}

#[derive(Clone, Copy, Debug, PartialEq, Eq)]
pub enum Beh {
    Normal,
    /// panic inside `fetch` (before borrowing) on dispatch number `.0` (u16::MAX = every dispatch)
    PanicFetch(u16),
    /// panic inside `run` on dispatch number `.0`
    PanicRun(u16),
    /// panic at the end of `run`, after the system has read and written through its guards
    PanicLate(u16),
    /// block inside `run` until `.0` systems are inside `run` (rendezvous group of the dispatch)
    Rendezvous(u16),
    /// the FIRST call of the system's setup hook panics (the caller recovers and sets up again)
    PanicSetupOnce,
}

pub struct Rendezvous {
    pub m: shuttle::sync::Mutex<(u16, u32)>,
    pub cv: shuttle::sync::Condvar,
}

/// Per-execution shared context.
pub struct Ctx {
    pub log: Mutex<Vec<Event>>,
    pub runs: Mutex<Vec<u32>>,
    pub setups: Mutex<Vec<u32>>,
    pub disposes: Mutex<Vec<u32>>,
    pub obs: Mutex<Vec<Vec<u64>>>,
    pub local: Mutex<Vec<u64>>,
    pub beh: Mutex<Vec<Beh>>,
    pub dispatch_no: AtomicU32,
    pub ident: AtomicBool,
    /// abstract -> concrete resource index
    pub resmap: Vec<u8>,
    pub inner_layouts: Mutex<Vec<(usize, Layout)>>,
    pub rendezvous: Mutex<Option<Arc<Rendezvous>>>,
    /// harness-internal errors (machinery, never a verdict)
    pub errors: Mutex<Vec<String>>,
    /// injected panics carry a payload that is neither `&str` nor `String` (`std::panic::panic_any`)
    pub typed_panics: AtomicBool,
}

pub const PANIC_MARK: &str = "HSYS-PANIC";

/// Payload of an injected panic raised with `panic_any` (a type no formatting helper knows).
pub struct TypedPanic(pub String);

/// Raise the injected panic of system `id` (`what` = "fetch" / "run").
pub fn inject_panic(ctx: &Ctx, what: &str, id: usize) -> ! {
    let msg = format!("{} {} sys={}", PANIC_MARK, what, id);
    if ctx.typed_panics.load(Ordering::Relaxed) {
        std::panic::panic_any(TypedPanic(msg))
    } else {
        std::panic::panic_any(msg)
    }
}

impl Ctx {
    pub fn new(n: usize, resmap: Vec<u8>) -> Arc<Ctx> {
        Arc::new(Ctx {
            log: Mutex::new(Vec::new()),
            runs: Mutex::new(vec![0; n]),
            setups: Mutex::new(vec![0; n]),
            disposes: Mutex::new(vec![0; n]),
            obs: Mutex::new(vec![Vec::new(); n]),
            local: Mutex::new(vec![0; n]),
            beh: Mutex::new(vec![Beh::Normal; n]),
            dispatch_no: AtomicU32::new(0),
            ident: AtomicBool::new(false),
            resmap,
            inner_layouts: Mutex::new(Vec::new()),
            rendezvous: Mutex::new(None),
            errors: Mutex::new(Vec::new()),
            typed_panics: AtomicBool::new(false),
        })
    }

    pub fn identity_map() -> Vec<u8> {
        (0..NCONCRETE as u8).collect()
    }

    pub fn log(&self, kind: Ev, sys: usize, aux: u16) {
        let (task, pool) = if rayon::verif::controlled() {
            let t = shuttle::current::get_current_task().map(usize::from).unwrap_or(0) as u16;
            let p = match rayon::verif::current_pool() {
                None => 0,
                Some(0) => u8::MAX,
                Some(p) => p as u8,
            };
            (t, p)
        } else {
            (0, 0)
        };
        self.log.lock().unwrap().push(Event {
            kind,
            sys: sys as u16,
            task,
            pool,
            dispatch: self.dispatch_no.load(Ordering::Relaxed) as u16,
            aux,
        });
    }

    pub fn is_ident(&self) -> bool {
        self.ident.load(Ordering::Relaxed)
    }

    pub fn cur_dispatch(&self) -> u16 {
        self.dispatch_no.load(Ordering::Relaxed) as u16
    }

    pub fn beh_of(&self, id: usize) -> Beh {
        self.beh.lock().unwrap()[id]
    }

    pub fn take_log(&self) -> Vec<Event> {
        std::mem::take(&mut *self.log.lock().unwrap())
    }

    pub fn err(&self, s: String) {
        self.errors.lock().unwrap().push(s);
    }
}

/// Executed layout with identities.
#[derive(Clone, Debug, Default, PartialEq, Eq, Hash)]
pub struct Layout {
    pub stages: Vec<Vec<Vec<usize>>>,
    pub tl: Vec<usize>,
    pub inner: Vec<(usize, Layout)>,
}

impl Layout {
    pub fn short(&self) -> String {
        let st: Vec<String> = self
            .stages
            .iter()
            .map(|s| {
                s.iter()
                    .map(|g| g.iter().map(|x| x.to_string()).collect::<Vec<_>>().join(","))
                    .collect::<Vec<_>>()
                    .join(" | ")
            })
            .collect();
        let mut r = format!("[{}]", st.join(" ; "));
        if !self.tl.is_empty() {
            r.push_str(&format!(" tl{:?}", self.tl));
        }
        for (b, l) in &self.inner {
            r.push_str(&format!(" {{{}: {}}}", b, l.short()));
        }
        r
    }

    /// (stage, group, pos) of a top-level id
    pub fn pos_of(&self, id: usize) -> Option<(usize, usize, usize)> {
        for (s, st) in self.stages.iter().enumerate() {
            for (g, gr) in st.iter().enumerate() {
                for (p, x) in gr.iter().enumerate() {
                    if *x == id {
                        return Some((s, g, p));
                    }
                }
            }
        }
        None
    }

    pub fn inner_of(&self, batch: usize) -> Option<&Layout> {
        self.inner.iter().find(|(b, _)| *b == batch).map(|(_, l)| l)
    }

    pub fn n_systems(&self) -> usize {
        self.stages.iter().flatten().map(|g| g.len()).sum()
    }
}

// ---------------------------------------------------------------------------
// HSys
// ---------------------------------------------------------------------------

pub struct HAcc {
    pub id: usize,
    pub reads: Vec<ResourceId>,
    pub writes: Vec<ResourceId>,
    /// concrete indices (for fetching), de-duplicated, writes win
    pub fetch_reads: Vec<u8>,
    pub fetch_writes: Vec<u8>,
    pub ctx: Arc<Ctx>,
}

impl Accessor for HAcc {
    /// The accessor TYPE has a default (an empty declaration, like a script system without dependencies);
    /// every harness system nevertheless returns its own per-instance accessor from `System::accessor`,
    /// and that one is the declaration that counts.
    fn try_new() -> Option<Self> {
        Some(HAcc { id: usize::MAX, reads: vec![], writes: vec![], fetch_reads: vec![], fetch_writes: vec![], ctx: Ctx::new(0, Ctx::identity_map()) })
    }
    fn reads(&self) -> Vec<ResourceId> {
        self.reads.clone()
    }
    fn writes(&self) -> Vec<ResourceId> {
        self.writes.clone()
    }
}

pub enum Guard<'a> {
    R0(Fetch<'a, Cell0>),
    R1(Fetch<'a, Cell1>),
    W0(FetchMut<'a, Cell0>),
    W1(FetchMut<'a, Cell1>),
}

impl Guard<'_> {
    fn get(&self) -> u64 {
        match self {
            Guard::R0(g) => g.0,
            Guard::R1(g) => g.0,
            Guard::W0(g) => g.0,
            Guard::W1(g) => g.0,
        }
    }
    fn set(&mut self, v: u64) {
        match self {
            Guard::W0(g) => g.0 = v,
            Guard::W1(g) => g.0 = v,
            _ => panic!("harness: write through a shared guard"),
        }
    }
}

pub struct HData<'a> {
    id: usize,
    ctx: Arc<Ctx>,
    active: bool,
    reads: Vec<Guard<'a>>,
    writes: Vec<Guard<'a>>,
}

impl<'a> DynamicSystemData<'a> for HData<'a> {
    type Accessor = HAcc;

    /// The harness systems do NOT override `System::setup`: the library's default hook hands the system's own
    /// accessor (`System::accessor`, not a default-constructed one) to this function, which is what gets counted.
    fn setup(acc: &HAcc, _: &mut World) {
        if acc.id != usize::MAX {
            let n = {
                let mut s = acc.ctx.setups.lock().unwrap();
                s[acc.id] += 1;
                s[acc.id]
            };
            if n == 1 && matches!(acc.ctx.beh_of(acc.id), Beh::PanicSetupOnce) {
                inject_panic(&acc.ctx, "setup", acc.id);
            }
        }
    }

    fn fetch(acc: &HAcc, world: &'a World) -> Self {
        let ctx = acc.ctx.clone();
        if ctx.is_ident() {
            ctx.log(Ev::Ident, acc.id, 0);
            return HData { id: acc.id, ctx, active: false, reads: vec![], writes: vec![] };
        }
        sched_point();
        ctx.log(Ev::FetchBegin, acc.id, 0);
        if let Beh::PanicFetch(d) = ctx.beh_of(acc.id) {
            if d == u16::MAX || d == ctx.cur_dispatch() {
                inject_panic(&ctx, "fetch", acc.id);
            }
        }
        let mut reads = Vec::with_capacity(acc.fetch_reads.len());
        for &c in &acc.fetch_reads {
            let g = if is_cell0(c) {
                world.try_fetch_by_id::<Cell0>(concrete_id(c)).map(Guard::R0)
            } else {
                world.try_fetch_by_id::<Cell1>(concrete_id(c)).map(Guard::R1)
            };
            reads.push(g.expect("harness: resource missing from the world"));
        }
        let mut writes = Vec::with_capacity(acc.fetch_writes.len());
        for &c in &acc.fetch_writes {
            let g = if is_cell0(c) {
                world.try_fetch_mut_by_id::<Cell0>(concrete_id(c)).map(Guard::W0)
            } else {
                world.try_fetch_mut_by_id::<Cell1>(concrete_id(c)).map(Guard::W1)
            };
            writes.push(g.expect("harness: resource missing from the world"));
        }
        ctx.log(Ev::Fetched, acc.id, 0);
        let d = HData { id: acc.id, ctx, active: true, reads, writes };
        sched_point();
        d
    }
}

impl Drop for HData<'_> {
    fn drop(&mut self) {
        if !self.active {
            return;
        }
        // release the real borrows first, then log, then offer the CPU
        self.reads.clear();
        self.writes.clear();
        self.ctx.log(Ev::Release, self.id, 0);
        sched_point();
    }
}

pub struct HSys {
    pub acc: HAcc,
    pub time: u8,
}

pub fn running_time(t: u8) -> RunningTime {
    match t {
        1 => RunningTime::VeryShort,
        2 => RunningTime::Short,
        3 => RunningTime::Average,
        4 => RunningTime::Long,
        // user code that panics while the builder asks for the hint (the registration call unwinds)
        9 => panic!("HSYS running_time panics"),
        _ => RunningTime::VeryLong,
    }
}

const P: u64 = 0x100000001b3;

fn mix(h: u64, v: u64) -> u64 {
    (h ^ v).wrapping_mul(P).rotate_left(17) ^ 0x9e3779b97f4a7c15
}

impl HSys {
    /// `reads` / `writes`: abstract indices in the listed order.
    pub fn new(id: usize, reads: &[u8], writes: &[u8], time: u8, ctx: &Arc<Ctx>) -> HSys {
        let cr: Vec<u8> = reads.iter().map(|r| ctx.resmap[*r as usize]).collect();
        let cw: Vec<u8> = writes.iter().map(|r| ctx.resmap[*r as usize]).collect();
        let mut fw: Vec<u8> = cw.clone();
        fw.sort();
        fw.dedup();
        let mut fr: Vec<u8> = cr.iter().copied().filter(|r| !fw.contains(r)).collect();
        fr.sort();
        fr.dedup();
        HSys {
            acc: HAcc {
                id,
                reads: cr.iter().map(|c| concrete_id(*c)).collect(),
                writes: cw.iter().map(|c| concrete_id(*c)).collect(),
                fetch_reads: fr,
                fetch_writes: fw,
                ctx: ctx.clone(),
            },
            time,
        }
    }
}

impl<'a> System<'a> for HSys {
    type SystemData = HData<'a>;

    fn run(&mut self, mut d: HData<'a>) {
        if !d.active {
            return;
        }
        let ctx = d.ctx.clone();
        let id = self.acc.id;
        ctx.runs.lock().unwrap()[id] += 1;
        match ctx.beh_of(id) {
            Beh::PanicRun(n) if n == u16::MAX || n == ctx.cur_dispatch() => {
                inject_panic(&ctx, "run", id);
            }
            Beh::Rendezvous(k) => {
                let rv = ctx.rendezvous.lock().unwrap().clone();
                if let Some(rv) = rv {
                    let disp = ctx.dispatch_no.load(Ordering::Relaxed);
                    let mut g = rv.m.lock().unwrap();
                    if g.1 != disp {
                        *g = (0, disp);
                    }
                    g.0 += 1;
                    if g.0 >= k {
                        rv.cv.notify_all();
                    }
                    while g.0 < k && g.1 == disp {
                        g = rv.cv.wait(g).unwrap();
                    }
                }
            }
            _ => {}
        }
        let cnt = {
            let mut l = ctx.local.lock().unwrap();
            l[id] += 1;
            l[id]
        };
        let mut h = mix(id as u64 + 1, cnt);
        let mut seen = Vec::with_capacity(d.reads.len() + d.writes.len());
        for g in &d.reads {
            let v = g.get();
            seen.push(v);
            h = mix(h, v);
        }
        for g in d.writes.iter_mut() {
            let old = g.get();
            seen.push(old);
            g.set(old.wrapping_mul(P).wrapping_add(h));
        }
        let mut o = ctx.obs.lock().unwrap();
        let mut oh = mix(0x51, cnt);
        for v in seen {
            oh = mix(oh, v);
        }
        o[id].push(oh);
        drop(o);
        sched_point();
        if let Beh::PanicLate(n) = ctx.beh_of(id) {
            if n == u16::MAX || n == ctx.cur_dispatch() {
                // `d` (the guards, written through) is dropped by the unwinding
                inject_panic(&ctx, "run", id);
            }
        }
    }

    fn running_time(&self) -> RunningTime {
        running_time(self.time)
    }

    fn accessor<'b>(&'b self) -> AccessorCow<'a, 'b, Self> {
        AccessorCow::Ref(&self.acc)
    }

    fn dispose(self, _world: &mut World) {
        self.acc.ctx.disposes.lock().unwrap()[self.acc.id] += 1;
    }
}

// ---------------------------------------------------------------------------
// batch controllers
// ---------------------------------------------------------------------------

pub trait CtrlKind: Send + 'static {
    type Data<'c>: SystemData<'c>;
}

pub struct KUnit;
pub struct KReadA;
pub struct KWriteA;
pub struct KReadC;
pub struct KWriteC;
pub struct KReadAWriteC;
pub struct KOptReadA;
pub struct KDerOptReadAWriteC;
/// derived bundle used as a controller's declared data
#[derive(shred::SystemData)]
pub struct CtrlDer<'a> {
    pub a: Option<Read<'a, Cell0>>,
    pub c: Write<'a, Cell1>,
}
impl CtrlKind for KDerOptReadAWriteC {
    type Data<'c> = CtrlDer<'c>;
}
impl CtrlKind for KOptReadA {
    type Data<'c> = Option<Read<'c, Cell0>>;
}

impl CtrlKind for KUnit {
    type Data<'c> = ();
}
impl CtrlKind for KReadA {
    type Data<'c> = Read<'c, Cell0>;
}
impl CtrlKind for KWriteA {
    type Data<'c> = Write<'c, Cell0>;
}
impl CtrlKind for KReadC {
    type Data<'c> = Read<'c, Cell1>;
}
impl CtrlKind for KWriteC {
    type Data<'c> = Write<'c, Cell1>;
}
impl CtrlKind for KReadAWriteC {
    type Data<'c> = (Read<'c, Cell0>, Write<'c, Cell1>);
}

pub struct HCtrl<K: CtrlKind> {
    pub id: usize,
    pub times: u8,
    pub fetch_data: bool,
    pub ctx: Arc<Ctx>,
    pub _k: PhantomData<K>,
}

/// Identify the executed layout of a dispatcher through the visitor hook:
/// every boxed system is run once in identification mode and announces itself.
pub fn identify(d: &mut Dispatcher<'_, '_>, ctx: &Arc<Ctx>, world: &World) -> Result<Layout, String> {
    let (shape, ntl) = d.verif_layout();
    let was = ctx.ident.swap(true, Ordering::Relaxed);
    let saved_log = ctx.take_log();
    let mut stages: Vec<Vec<Vec<usize>>> = shape.iter().map(|s| s.iter().map(|n| vec![usize::MAX; *n]).collect()).collect();
    let mut err: Option<String> = None;
    let mut inner_found: Vec<(usize, Layout)> = Vec::new();
    d.verif_visit(&mut |s, g, p, sys| {
        ctx.log.lock().unwrap().clear();
        let before = ctx.inner_layouts.lock().unwrap().len();
        sys.run_now(world);
        let log = ctx.take_log();
        let idents: Vec<_> = log.iter().filter(|e| e.kind == Ev::Ident).collect();
        if idents.len() != 1 {
            err = Some(format!("slot ({},{},{}) announced {} identities", s, g, p, idents.len()));
            return;
        }
        if s >= stages.len() || g >= stages[s].len() || p >= stages[s][g].len() {
            err = Some(format!("slot ({},{},{}) outside the reported shape", s, g, p));
            return;
        }
        stages[s][g][p] = idents[0].sys as usize;
        let mut il = ctx.inner_layouts.lock().unwrap();
        while il.len() > before {
            inner_found.push(il.pop().unwrap());
        }
    });
    let mut tl = vec![usize::MAX; ntl];
    d.verif_visit_thread_local(&mut |i, sys| {
        ctx.log.lock().unwrap().clear();
        sys.run_now(world);
        let log = ctx.take_log();
        let idents: Vec<_> = log.iter().filter(|e| e.kind == Ev::Ident).collect();
        if idents.len() != 1 || i >= tl.len() {
            err = Some(format!("thread-local slot {} announced {} identities", i, idents.len()));
            return;
        }
        tl[i] = idents[0].sys as usize;
    });
    ctx.ident.store(was, Ordering::Relaxed);
    *ctx.log.lock().unwrap() = saved_log;
    if let Some(e) = err {
        return Err(e);
    }
    if stages.iter().flatten().flatten().any(|x| *x == usize::MAX) || tl.iter().any(|x| *x == usize::MAX) {
        return Err("some slot of the reported shape was not visited".to_string());
    }
    inner_found.sort_by_key(|x| x.0);
    Ok(Layout { stages, tl, inner: inner_found })
}

impl<K: CtrlKind> HCtrl<K> {
    fn body<'c>(&mut self, world: &'c World, dispatcher: &mut Dispatcher<'_, '_>) {
        let ctx = self.ctx.clone();
        if ctx.is_ident() {
            ctx.log(Ev::Ident, self.id, 0);
            let saved = ctx.take_log();
            match identify(dispatcher, &ctx, world) {
                Ok(l) => ctx.inner_layouts.lock().unwrap().push((self.id, l)),
                Err(e) => ctx.err(format!("inner identify of batch {}: {}", self.id, e)),
            }
            *ctx.log.lock().unwrap() = saved;
            return;
        }
        sched_point();
        ctx.log(Ev::CtrlBegin, self.id, 0);
        ctx.runs.lock().unwrap()[self.id] += 1;
        match ctx.beh_of(self.id) {
            Beh::PanicRun(n) if n == u16::MAX || n == ctx.cur_dispatch() => {
                inject_panic(&ctx, "run", self.id);
            }
            _ => {}
        }
        if self.fetch_data {
            {
                let data: K::Data<'c> = world.system_data();
                ctx.log(Ev::CtrlDataOpen, self.id, 0);
                sched_point();
                drop(data);
            }
            ctx.log(Ev::CtrlDataClose, self.id, 0);
            sched_point();
        }
        for _ in 0..self.times {
            dispatcher.dispatch(world);
        }
        ctx.log(Ev::CtrlEnd, self.id, 0);
        sched_point();
    }
}

impl<'a, 'b, 'c, K: CtrlKind> BatchController<'a, 'b, 'c> for HCtrl<K> {
    type BatchSystemData = K::Data<'c>;

    fn run(&mut self, world: &'c World, dispatcher: &mut Dispatcher<'a, 'b>) {
        self.body(world, dispatcher);
    }
}

/// Controller for the library's `MultiDispatcher`.
pub struct HMulti<K: CtrlKind> {
    pub id: usize,
    pub times: u8,
    pub ctx: Arc<Ctx>,
    pub _k: PhantomData<K>,
}

impl<'c, K: CtrlKind> MultiDispatchController<'c> for HMulti<K> {
    type SystemData = K::Data<'c>;

    fn plan(&mut self, data: Self::SystemData) -> usize {
        let ctx = self.ctx.clone();
        if ctx.is_ident() {
            ctx.log(Ev::Ident, self.id, 0);
            drop(data);
            return 0;
        }
        ctx.log(Ev::Plan, self.id, 0);
        ctx.runs.lock().unwrap()[self.id] += 1;
        drop(data);
        match ctx.beh_of(self.id) {
            Beh::PanicRun(n) if n == u16::MAX || n == ctx.cur_dispatch() => {
                inject_panic(&ctx, "run", self.id);
            }
            _ => {}
        }
        sched_point();
        self.times as usize
    }
}


// ---------------------------------------------------------------------------
// statically typed systems: the library's own setup / fetch paths
// ---------------------------------------------------------------------------

pub trait StaticKind: Send + 'static {
    type Data<'c>: SystemData<'c>;
    /// read every member, overwrite every exclusively held one with a value derived from `h`;
    /// returns the values seen
    fn touch(data: &mut Self::Data<'_>, h: u64) -> Vec<u64>;
}
pub struct SUnit;
pub struct SReadA;
pub struct SWriteC;
pub struct SOptReadA;
pub struct SOptWriteC;
pub struct SReadExpectA;
pub struct SReadAWriteC;
impl StaticKind for SUnit {
    type Data<'c> = ();
    fn touch(_: &mut (), _: u64) -> Vec<u64> {
        vec![]
    }
}
impl StaticKind for SReadA {
    type Data<'c> = Read<'c, Cell0>;
    fn touch(d: &mut Read<'_, Cell0>, _: u64) -> Vec<u64> {
        vec![d.0]
    }
}
impl StaticKind for SWriteC {
    type Data<'c> = Write<'c, Cell1>;
    fn touch(d: &mut Write<'_, Cell1>, h: u64) -> Vec<u64> {
        let old = d.0;
        d.0 = old.wrapping_mul(P).wrapping_add(h);
        vec![old]
    }
}
impl StaticKind for SOptReadA {
    type Data<'c> = Option<Read<'c, Cell0>>;
    fn touch(d: &mut Option<Read<'_, Cell0>>, _: u64) -> Vec<u64> {
        d.iter().map(|x| x.0).collect()
    }
}
impl StaticKind for SOptWriteC {
    type Data<'c> = Option<Write<'c, Cell1>>;
    fn touch(d: &mut Option<Write<'_, Cell1>>, h: u64) -> Vec<u64> {
        match d {
            Some(x) => {
                let old = x.0;
                x.0 = old.wrapping_mul(P).wrapping_add(h);
                vec![old]
            }
            None => vec![],
        }
    }
}
impl StaticKind for SReadExpectA {
    type Data<'c> = shred::ReadExpect<'c, Cell0>;
    fn touch(d: &mut shred::ReadExpect<'_, Cell0>, _: u64) -> Vec<u64> {
        vec![d.0]
    }
}
impl StaticKind for SReadAWriteC {
    type Data<'c> = (Read<'c, Cell0>, Write<'c, Cell1>);
    fn touch(d: &mut (Read<'_, Cell0>, Write<'_, Cell1>), h: u64) -> Vec<u64> {
        let a = d.0 .0;
        let old = d.1 .0;
        d.1 .0 = old.wrapping_mul(P).wrapping_add(mix(h, a));
        vec![a, old]
    }
}

pub struct SOptReadAThenReadA;
impl StaticKind for SOptReadAThenReadA {
    type Data<'c> = (Option<Read<'c, Cell0>>, Read<'c, Cell0>);
    fn touch(d: &mut Self::Data<'_>, _: u64) -> Vec<u64> {
        vec![d.1 .0]
    }
}
pub struct SNamingThenProviding;
impl StaticKind for SNamingThenProviding {
    type Data<'c> = ((shred::ReadExpect<'c, Cell0>, Option<Read<'c, Cell1>>), (Read<'c, Cell0>, Read<'c, Cell1>));
    fn touch(d: &mut Self::Data<'_>, _: u64) -> Vec<u64> {
        vec![d.1 .0 .0, d.1 .1 .0]
    }
}

/// derived bundle, generic over the resource it reads: every instantiation declares ITS resource
#[derive(shred::SystemData)]
pub struct GenRead<'a, T>
where
    T: shred::Resource + Default,
{
    v: Read<'a, T>,
}
pub struct SGenReadA;
impl StaticKind for SGenReadA {
    type Data<'c> = GenRead<'c, Cell0>;
    fn touch(d: &mut Self::Data<'_>, _: u64) -> Vec<u64> {
        vec![d.v.0]
    }
}
pub struct SGenReadC;
impl StaticKind for SGenReadC {
    type Data<'c> = GenRead<'c, Cell1>;
    fn touch(d: &mut Self::Data<'_>, _: u64) -> Vec<u64> {
        vec![d.v.0]
    }
}

/// derived bundle generic over part of its data: the field `rest` is typed by a bare type parameter
#[derive(shred::SystemData)]
pub struct GenOver<'a, D>
where
    D: SystemData<'a>,
{
    head: Read<'a, Cell0>,
    rest: D,
}
pub struct SGenOverWriteC;
impl StaticKind for SGenOverWriteC {
    type Data<'c> = GenOver<'c, Write<'c, Cell1>>;
    fn touch(d: &mut Self::Data<'_>, h: u64) -> Vec<u64> {
        let a = d.head.0;
        let old = d.rest.0;
        d.rest.0 = old.wrapping_mul(P).wrapping_add(mix(h, a));
        vec![a, old]
    }
}
/// derived bundle with a tuple-typed field
#[derive(shred::SystemData)]
pub struct DerTuple<'a> {
    pair: (Read<'a, Cell0>, Write<'a, Cell1>),
}
pub struct SDerTupleAC;
impl StaticKind for SDerTupleAC {
    type Data<'c> = DerTuple<'c>;
    fn touch(d: &mut Self::Data<'_>, h: u64) -> Vec<u64> {
        let a = d.pair.0 .0;
        let old = d.pair.1 .0;
        d.pair.1 .0 = old.wrapping_mul(P).wrapping_add(mix(h, a));
        vec![a, old]
    }
}
/// derived bundle generated by a macro: the field type reaches the derive as a `$t:ty` fragment
macro_rules! der_bundle {
    ($name:ident, $lt:lifetime, $t:ty) => {
        #[derive(shred::SystemData)]
        pub struct $name<$lt> {
            field: $t,
        }
    };
}
der_bundle!(DerMac, 'a, Write<'a, Cell1>);
pub struct SDerMacWriteC;
impl StaticKind for SDerMacWriteC {
    type Data<'c> = DerMac<'c>;
    fn touch(d: &mut Self::Data<'_>, h: u64) -> Vec<u64> {
        let old = d.field.0;
        d.field.0 = old.wrapping_mul(P).wrapping_add(h);
        vec![old]
    }
}

/// Statically typed systems over two DISTINCT resource types that share one type name: the types (and the kinds
/// that name them) are items of two sibling blocks of one function body.
pub struct TwinKind {
    pub add: fn(&mut shred::DispatcherBuilder<'static, 'static>, usize, u8, &Arc<Ctx>, &str, &[&str]),
    pub leaf: fn(usize, &Arc<Ctx>) -> Box<dyn for<'a> shred::RunWithPool<'a> + Send>,
    pub insert: fn(&mut World, u64),
    pub id: ResourceId,
    pub type_name: &'static str,
}

/// [Write<Twin#1>, Write<Twin#2>, Read<Twin#2>]
pub fn twin_kinds() -> &'static [TwinKind; 3] {
    static K: std::sync::OnceLock<[TwinKind; 3]> = std::sync::OnceLock::new();
    K.get_or_init(|| {
        macro_rules! twin_block {
            () => {{
                #[derive(Default)]
                pub struct Twin(pub u64);
                struct KW;
                struct KR;
                impl StaticKind for KW {
                    type Data<'c> = Write<'c, Twin>;
                    fn touch(d: &mut Self::Data<'_>, h: u64) -> Vec<u64> {
                        let old = d.0;
                        d.0 = old.wrapping_mul(P).wrapping_add(h);
                        vec![old]
                    }
                }
                impl StaticKind for KR {
                    type Data<'c> = Read<'c, Twin>;
                    fn touch(d: &mut Self::Data<'_>, _: u64) -> Vec<u64> {
                        vec![d.0]
                    }
                }
                fn add_w(b: &mut shred::DispatcherBuilder<'static, 'static>, id: usize, time: u8, ctx: &Arc<Ctx>, name: &str, deps: &[&str]) {
                    b.add(SSys::<KW> { id, time, ctx: ctx.clone(), _k: PhantomData }, name, deps)
                }
                fn add_r(b: &mut shred::DispatcherBuilder<'static, 'static>, id: usize, time: u8, ctx: &Arc<Ctx>, name: &str, deps: &[&str]) {
                    b.add(SSys::<KR> { id, time, ctx: ctx.clone(), _k: PhantomData }, name, deps)
                }
                fn leaf_w(id: usize, ctx: &Arc<Ctx>) -> Box<dyn for<'a> shred::RunWithPool<'a> + Send> {
                    Box::new(SSys::<KW> { id, time: 3, ctx: ctx.clone(), _k: PhantomData })
                }
                fn leaf_r(id: usize, ctx: &Arc<Ctx>) -> Box<dyn for<'a> shred::RunWithPool<'a> + Send> {
                    Box::new(SSys::<KR> { id, time: 3, ctx: ctx.clone(), _k: PhantomData })
                }
                fn ins(w: &mut World, v: u64) {
                    w.insert(Twin(v))
                }
                let tn = std::any::type_name::<Write<'static, Twin>>();
                (
                    TwinKind { add: add_w, leaf: leaf_w, insert: ins, id: ResourceId::new::<Twin>(), type_name: tn },
                    TwinKind { add: add_r, leaf: leaf_r, insert: ins, id: ResourceId::new::<Twin>(), type_name: tn },
                )
            }};
        }
        let one = twin_block!();
        let two = twin_block!();
        assert!(one.0.type_name == two.0.type_name && one.0.id != two.0.id, "harness: the twin types must be distinct types with one name");
        [one.0, two.0, two.1]
    })
}

/// A system with statically typed data; `setup` is deliberately NOT overridden (the default
/// `System::setup` -> `SystemData::setup` path is what is being checked through the world).
pub struct SSys<K: StaticKind> {
    pub id: usize,
    pub time: u8,
    pub ctx: Arc<Ctx>,
    pub _k: PhantomData<K>,
}

impl<'a, K: StaticKind> System<'a> for SSys<K> {
    type SystemData = K::Data<'a>;

    fn run(&mut self, data: Self::SystemData) {
        let mut data = data;
        if self.ctx.is_ident() {
            drop(data);
            self.ctx.log(Ev::Ident, self.id, 0);
            return;
        }
        // the library has already fetched `data`; from here on the protocol is the one of `HSys`
        let ctx = self.ctx.clone();
        let id = self.id;
        ctx.runs.lock().unwrap()[id] += 1;
        ctx.log(Ev::FetchBegin, id, 0);
        ctx.log(Ev::Fetched, id, 0);
        sched_point();
        let cnt = {
            let mut l = ctx.local.lock().unwrap();
            l[id] += 1;
            l[id]
        };
        let seen = K::touch(&mut data, mix(id as u64 + 1, cnt));
        {
            let mut o = ctx.obs.lock().unwrap();
            let mut oh = mix(0x51, cnt);
            for v in seen {
                oh = mix(oh, v);
            }
            o[id].push(oh);
        }
        sched_point();
        drop(data);
        ctx.log(Ev::Release, id, 0);
        sched_point();
    }

    fn running_time(&self) -> RunningTime {
        running_time(self.time)
    }

    fn dispose(self, _world: &mut World) {
        self.ctx.disposes.lock().unwrap()[self.id] += 1;
    }
}
