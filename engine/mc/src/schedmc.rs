//! E2 `schedmc`: stateless model checking of real dispatches under the
//! controlled scheduler (DESIGN.md §5.1-5.3, §7).

use std::collections::{BTreeMap, HashSet};
use std::panic::{catch_unwind, AssertUnwindSafe};
use std::sync::atomic::Ordering;
use std::sync::{Arc, Mutex};
use std::time::Instant;

use serde_json::{json, Value};

use crate::hsys::*;
use crate::inv::{expected_runs, Viol};
use crate::plan::*;
use crate::report::{Collector, Finding};
use crate::sched::{self, payload_str, sched_point, Abnormal, Cfg};
use crate::spec::*;

#[derive(Clone, Copy, Debug, PartialEq, Eq, Hash)]
pub enum Mode {
    Dispatch,
    Par,
    Seq,
    Async,
}

impl Mode {
    pub fn label(self) -> &'static str {
        match self {
            Mode::Dispatch => "dispatch",
            Mode::Par => "dispatch_par",
            Mode::Seq => "dispatch_seq",
            Mode::Async => "async",
        }
    }
    pub fn from_label(s: &str) -> Option<Mode> {
        [Mode::Dispatch, Mode::Par, Mode::Seq, Mode::Async].into_iter().find(|m| m.label() == s)
    }
}

#[derive(Clone, Debug, PartialEq, Eq, Hash)]
pub struct Scenario {
    pub ops: Vec<Op>,
    pub mode: Mode,
    pub dispatches: u8,
    /// user-supplied pool with that many threads (None = builder's default pool)
    pub user_pool: Option<usize>,
    /// threads of the default pool (None = unbounded)
    pub default_threads: Option<usize>,
    /// (system id, at fetch?) panics on dispatch 1
    pub panics: Vec<(usize, bool)>,
    /// systems that rendezvous: (ids, k)
    pub rendezvous: Option<(Vec<usize>, u16)>,
    /// call dispatch from inside a worker of another ("foreign") pool with that many threads
    pub foreign_pool: Option<usize>,
    /// async script (mode Async only): D dispatch, R running, W wait, X wait_without_tl, O world, M world_mut, S setup
    pub script: Option<String>,
    /// the injected run-panics fire at the END of `run`, after the system has written through its guards
    pub panic_late: bool,
    /// the LAST dispatch is issued from a destructor that runs while the calling thread unwinds from an unrelated
    /// panic (a scope guard running a final frame); it is an ordinary dispatch
    pub last_in_unwind: bool,
    /// systems whose first setup call panics (async scripts: the script's first `S` unwinds, the caller goes on)
    pub setup_panics: Vec<usize>,
    /// the first dispatch is a `dispatch_seq`, whatever `mode` says (a history: sequential first, then `mode`)
    pub first_seq: bool,
    /// the injected panics carry a typed (non-string) payload
    pub panic_typed: bool,
    /// where the user-supplied pool is handed to the builder: 0 = before the registrations, 1 = after them,
    /// 2 = before them but after a one-thread decoy pool (the later `add_pool` replaces the earlier one)
    pub pool_placement: u8,
    /// async scripts: build and drive the dispatcher from inside `install` of its own user-supplied pool
    pub script_in_pool: bool,
}

impl Scenario {
    pub fn plain(ops: Vec<Op>, mode: Mode, dispatches: u8) -> Scenario {
        Scenario { ops, mode, dispatches, user_pool: None, default_threads: None, panics: vec![], rendezvous: None, foreign_pool: None, script: None, panic_late: false, last_in_unwind: false, setup_panics: vec![], first_seq: false, panic_typed: false, pool_placement: 0, script_in_pool: false }
    }

    pub fn to_json(&self) -> Value {
        json!({
            "ops": plan_json(&self.ops),
            "plan": plan_short(&self.ops),
            "mode": self.mode.label(),
            "dispatches": self.dispatches,
            "user_pool": self.user_pool,
            "default_threads": self.default_threads,
            "panics": self.panics.iter().map(|(i, f)| json!([i, f])).collect::<Vec<_>>(),
            "rendezvous": self.rendezvous.as_ref().map(|(ids, k)| json!({"ids": ids, "k": k})),
            "script": self.script,
            "foreign_pool": self.foreign_pool,
            "panic_late": self.panic_late,
            "last_in_unwind": self.last_in_unwind,
            "setup_panics": self.setup_panics,
            "first_seq": self.first_seq,
            "panic_typed": self.panic_typed,
            "pool_placement": self.pool_placement,
            "script_in_pool": self.script_in_pool,
        })
    }

    pub fn from_json(v: &Value) -> Option<Scenario> {
        Some(Scenario {
            ops: plan_from_json(v.get("ops")?)?,
            mode: Mode::from_label(v.get("mode")?.as_str()?)?,
            dispatches: v.get("dispatches")?.as_u64()? as u8,
            user_pool: v.get("user_pool").and_then(|x| x.as_u64()).map(|x| x as usize),
            default_threads: v.get("default_threads").and_then(|x| x.as_u64()).map(|x| x as usize),
            panics: v
                .get("panics")
                .and_then(|p| p.as_array())
                .map(|a| a.iter().filter_map(|e| Some((e.get(0)?.as_u64()? as usize, e.get(1)?.as_bool()?))).collect())
                .unwrap_or_default(),
            rendezvous: v.get("rendezvous").and_then(|r| {
                if r.is_null() {
                    None
                } else {
                    Some((r.get("ids")?.as_array()?.iter().filter_map(|x| x.as_u64().map(|y| y as usize)).collect(), r.get("k")?.as_u64()? as u16))
                }
            }),
            script: v.get("script").and_then(|x| x.as_str()).map(|x| x.to_string()),
            foreign_pool: v.get("foreign_pool").and_then(|x| x.as_u64()).map(|x| x as usize),
            panic_late: v.get("panic_late").and_then(|x| x.as_bool()).unwrap_or(false),
            last_in_unwind: v.get("last_in_unwind").and_then(|x| x.as_bool()).unwrap_or(false),
            setup_panics: v.get("setup_panics").and_then(|x| x.as_array()).map(|a| a.iter().filter_map(|y| y.as_u64().map(|z| z as usize)).collect()).unwrap_or_default(),
            first_seq: v.get("first_seq").and_then(|x| x.as_bool()).unwrap_or(false),
            panic_typed: v.get("panic_typed").and_then(|x| x.as_bool()).unwrap_or(false),
            pool_placement: v.get("pool_placement").and_then(|x| x.as_u64()).unwrap_or(0) as u8,
            script_in_pool: v.get("script_in_pool").and_then(|x| x.as_bool()).unwrap_or(false),
        })
    }
}

/// What one execution produced.
#[derive(Clone, Debug, Default)]
pub struct ExecOut {
    pub log: Vec<Event>,
    pub values: Vec<u64>,
    pub borrow: Vec<u8>,
    pub obs: Vec<Vec<u64>>,
    pub local: Vec<u64>,
    pub runs: Vec<u32>,
    /// per dispatch: None = returned normally, Some(msg) = panicked
    pub results: Vec<Option<String>>,
    pub build_error: Option<String>,
    pub errors: Vec<String>,
    pub main_task: u16,
    /// pool id of the task that called dispatch (0 = not a pool task)
    pub main_pool: u8,
    pub spawn_panics: usize,
    pub pool_lock_ok: bool,
    /// (world values, borrow state, local counters) after each dispatch
    pub after: Vec<(Vec<u64>, Vec<u8>, Vec<u64>)>,
    /// setup-hook counters (async scripts)
    pub setups: Vec<u32>,
}

impl ExecOut {
    pub fn digest(&self) -> (Vec<u64>, Vec<Vec<u64>>, Vec<u64>) {
        (self.values.clone(), self.obs.clone(), self.local.clone())
    }
}

fn run_dispatch(d: &mut shred::Dispatcher<'static, 'static>, w: &shred::World, mode: Mode) {
    match mode {
        Mode::Dispatch => d.dispatch(w),
        Mode::Par => d.dispatch_par(w),
        Mode::Seq => d.dispatch_seq(w),
        Mode::Async => unreachable!(),
    }
}

pub struct ScriptOut {
    pub results: Vec<Option<String>>,
    pub values: Vec<u64>,
    pub borrow: Vec<u8>,
    pub main_task: u16,
    pub build_error: Option<String>,
}

/// Register, build the async dispatcher and run the script, all on the current task.
fn run_script(sc: &Scenario, ctx: &Arc<Ctx>, pool: Option<Arc<rayon::ThreadPool>>) -> ScriptOut {
    let mut out = ScriptOut { results: vec![], values: vec![], borrow: vec![], main_task: if rayon::verif::controlled() { shuttle::current::get_current_task().map(usize::from).unwrap_or(0) as u16 } else { 0 }, build_error: None };
    let reg = register_placed(&sc.ops, ctx, pool, sc.pool_placement);
    if let Some(c) = reg.calls.iter().find(|c| c.panic.is_some()) {
        out.build_error = Some(format!("builder call {:?} panicked: {}", c.path, c.panic.clone().unwrap()));
        return out;
    }
    let script = sc.script.clone().unwrap_or_default();
    let script = &script;
    {
        // a resource whose destructor tells the harness that the world has been dropped (script op 'K': the dispatcher
        // is dropped while a dispatch may be in flight; the background job owns the world until it is done)
        struct DropSignal(Arc<(shuttle::sync::Mutex<bool>, shuttle::sync::Condvar)>, bool);
        impl Drop for DropSignal {
            fn drop(&mut self) {
                if self.1 {
                    *self.0 .0.lock().unwrap() = true;
                    self.0 .1.notify_all();
                }
            }
        }
        let controlled = rayon::verif::controlled();
        let gone = Arc::new((shuttle::sync::Mutex::new(false), shuttle::sync::Condvar::new()));
        let mut world = new_world();
        let drops = script.contains('K');
        if drops && controlled {
            world.insert(DropSignal(gone.clone(), true));
        }
        let mut ad_slot = Some(reg.builder.build_async(world));
        let mut script: Vec<char> = script.chars().collect();
        if !drops {
            script.push('O'); // final world(): fetch the results
        }
        for (k, op) in script.iter().enumerate() {
            sched_point();
            ctx.log(Ev::Script, k, 0);
            if *op == 'K' {
                // drop the dispatcher, then wait until the world it owned has been dropped (the job is over)
                drop(ad_slot.take());
                if controlled {
                    let mut g = gone.0.lock().unwrap();
                    while !*g {
                        g = gone.1.wait(g).unwrap();
                    }
                }
                ctx.log(Ev::Script, k, 1);
                break;
            }
            let ad = ad_slot.as_mut().unwrap();
            let r = catch_unwind(AssertUnwindSafe(|| -> u16 {
                match op {
                    'D' => {
                        ad.dispatch();
                        0
                    }
                    'R' => ad.running() as u16,
                    'W' => {
                        ad.wait();
                        0
                    }
                    'X' => {
                        ad.wait_without_tl();
                        0
                    }
                    'O' => {
                        let _ = ad.world();
                        0
                    }
                    'M' => {
                        let _ = ad.world_mut();
                        0
                    }
                    'S' => {
                        ad.setup();
                        0
                    }
                    _ => 0,
                }
            }));
            match r {
                Ok(a) => ctx.log(Ev::Script, k, 1 + a),
                Err(p) => {
                    ctx.log(Ev::Script, k, 9);
                    out.results.push(Some(payload_str(&*p)));
                }
            }
        }
        if let Some(ad) = ad_slot.as_mut() {
            let w: &shred::World = ad.world();
            out.borrow = world_borrow_state(w);
            out.values = if out.borrow.iter().all(|b| *b == 0) { world_values(w) } else { vec![] };
        }
    }
    out
}

/// Run the scenario once (in whatever mode the current OS thread is: inside a
/// controlled execution or inline).  `twin` = run the sequential twin instead.
pub fn run_scenario(sc: &Scenario, twin: bool) -> ExecOut {
    let info = PlanInfo::of(&sc.ops);
    if !twin && rayon::verif::controlled() && sc.foreign_pool.is_some() && sc.script.is_none() && sc.mode != Mode::Async && info.nodes.iter().any(|n| n.kind == Kind::Tl) {
        // a dispatcher with thread-local systems cannot be sent to another thread: its whole life (registration, build,
        // dispatches) takes place on a worker of the foreign pool
        let foreign = rayon::ThreadPoolBuilder::new().num_threads(sc.foreign_pool.unwrap()).build().unwrap();
        let mut inner = sc.clone();
        inner.foreign_pool = None;
        return foreign.install(move || run_scenario(&inner, false));
    }
    let ctx = Ctx::new(info.n(), Ctx::identity_map());
    let mut out = ExecOut::default();
    out.main_task = if rayon::verif::controlled() { shuttle::current::get_current_task().map(usize::from).unwrap_or(0) as u16 } else { 0 };
    out.main_pool = rayon::verif::current_pool().map(|p| if p == 0 { u8::MAX } else { p as u8 }).unwrap_or(0);
    ctx.typed_panics.store(sc.panic_typed, std::sync::atomic::Ordering::Relaxed);
    {
        let mut b = ctx.beh.lock().unwrap();
        for (id, at_fetch) in &sc.panics {
            // async scripts do not number their dispatches: the system panics whenever it runs
            let d = if sc.script.is_some() { u16::MAX } else { 1 };
            b[*id] = if *at_fetch {
                Beh::PanicFetch(d)
            } else if sc.panic_late {
                Beh::PanicLate(d)
            } else {
                Beh::PanicRun(d)
            };
        }
        for id in &sc.setup_panics {
            b[*id] = Beh::PanicSetupOnce;
        }
        if !twin {
            if let Some((ids, k)) = &sc.rendezvous {
                for id in ids {
                    b[*id] = Beh::Rendezvous(*k);
                }
            }
        }
    }
    if sc.rendezvous.is_some() && !twin && rayon::verif::controlled() {
        *ctx.rendezvous.lock().unwrap() = Some(Arc::new(Rendezvous { m: shuttle::sync::Mutex::new((0, 0)), cv: shuttle::sync::Condvar::new() }));
    }
    rayon::verif::set_default_threads(sc.default_threads);
    let pool = sc.user_pool.map(|n| Arc::new(rayon::ThreadPoolBuilder::new().num_threads(n).build().unwrap()));
    if let (Mode::Async, Some(_), false) = (sc.mode, sc.script.as_ref(), twin) {
        // the whole life of the async dispatcher (registration, build, script) on the calling task, or - `script_in_pool`
        // - on a worker of the dispatcher's own (user-supplied) pool
        let so = match (&pool, sc.script_in_pool && rayon::verif::controlled()) {
            (Some(p), true) => {
                let (sc2, ctx2, p2) = (sc.clone(), ctx.clone(), pool.clone());
                p.install(move || run_script(&sc2, &ctx2, p2))
            }
            _ => run_script(sc, &ctx, pool.clone()),
        };
        if let Some(e) = so.build_error {
            out.build_error = Some(e);
            return out;
        }
        out.results = so.results;
        out.values = so.values;
        out.borrow = so.borrow;
        out.main_task = so.main_task;
        out.setups = ctx.setups.lock().unwrap().clone();
        out.log = ctx.take_log();
        out.obs = ctx.obs.lock().unwrap().clone();
        out.local = ctx.local.lock().unwrap().clone();
        out.runs = ctx.runs.lock().unwrap().clone();
        out.errors = ctx.errors.lock().unwrap().clone();
        out.spawn_panics = rayon::verif::spawn_panics();
        return out;
    }
    let reg = register_placed(&sc.ops, &ctx, pool, sc.pool_placement);
    if let Some(c) = reg.calls.iter().find(|c| c.panic.is_some()) {
        out.build_error = Some(format!("builder call {:?} panicked: {}", c.path, c.panic.clone().unwrap()));
        return out;
    }
    if false {
    } else if sc.mode == Mode::Async && !twin {
        let world = new_world();
        let mut ad = reg.builder.build_async(world);
        for i in 1..=sc.dispatches {
            ctx.dispatch_no.store(i as u32, Ordering::Relaxed);
            ctx.log(Ev::DispatchBegin, 0, 0);
            let r = catch_unwind(AssertUnwindSafe(|| {
                ad.dispatch();
                sched_point();
                ad.wait();
            }));
            ctx.log(Ev::DispatchEnd, 0, 0);
            out.results.push(r.err().map(|p| payload_str(&*p)));
        }
        let w: &shred::World = ad.world();
        out.borrow = world_borrow_state(w);
        out.values = if out.borrow.iter().all(|b| *b == 0) { world_values(w) } else { vec![] };
    } else {
        let mut d = match build(reg.builder) {
            Ok(d) => d,
            Err(e) => {
                out.build_error = Some(e);
                return out;
            }
        };
        let world = new_world();
        let foreign = if twin { None } else { sc.foreign_pool.map(|n| rayon::ThreadPoolBuilder::new().num_threads(n).build().unwrap()) };
        if let Some(f) = &foreign {
            // dispatch is called from a worker of another pool: needs the sendable form (no thread-local systems)
            let mut sd = match d.try_into_sendable() {
                Ok(sd) => sd,
                Err(_) => {
                    out.build_error = Some("foreign-pool scenario with thread-local systems".into());
                    return out;
                }
            };
            for i in 1..=sc.dispatches {
                ctx.dispatch_no.store(i as u32, Ordering::Relaxed);
                ctx.log(Ev::DispatchBegin, 0, 0);
                let r = catch_unwind(AssertUnwindSafe(|| {
                    let (sdr, wr) = (&mut sd, &world);
                    f.install(move || sdr.dispatch(wr));
                }));
                ctx.log(Ev::DispatchEnd, 0, 0);
                out.results.push(r.err().map(|p| payload_str(&*p)));
                let bs = world_borrow_state(&world);
                let vals = if bs.iter().all(|b| *b == 0) { world_values(&world) } else { vec![] };
                out.after.push((vals, bs, ctx.local.lock().unwrap().clone()));
            }
            out.borrow = world_borrow_state(&world);
            out.values = if out.borrow.iter().all(|b| *b == 0) { world_values(&world) } else { vec![] };
            out.log = ctx.take_log();
            out.obs = ctx.obs.lock().unwrap().clone();
            out.local = ctx.local.lock().unwrap().clone();
            out.runs = ctx.runs.lock().unwrap().clone();
            out.errors = ctx.errors.lock().unwrap().clone();
            out.spawn_panics = rayon::verif::spawn_panics();
            return out;
        }
        for i in 1..=sc.dispatches {
            ctx.dispatch_no.store(i as u32, Ordering::Relaxed);
            ctx.log(Ev::DispatchBegin, 0, 0);
            let r = if sc.last_in_unwind && !twin && i == sc.dispatches {
                // the dispatch runs inside a destructor while this thread unwinds from an unrelated panic
                struct Final<'x, 'y> {
                    d: &'x mut shred::Dispatcher<'static, 'static>,
                    w: &'y shred::World,
                    mode: Mode,
                    done: &'x std::cell::Cell<bool>,
                }
                impl Drop for Final<'_, '_> {
                    fn drop(&mut self) {
                        run_dispatch(self.d, self.w, self.mode);
                        self.done.set(true);
                    }
                }
                let done = std::cell::Cell::new(false);
                let _ = catch_unwind(AssertUnwindSafe(|| {
                    let _g = Final { d: &mut d, w: &world, mode: sc.mode, done: &done };
                    std::panic::panic_any(String::from("HARNESS unrelated panic"));
                }));
                if done.get() {
                    Ok(())
                } else {
                    Err(Box::new(String::from("the dispatch issued while unwinding did not complete")) as Box<dyn std::any::Any + Send>)
                }
            } else {
                catch_unwind(AssertUnwindSafe(|| {
                    if twin {
                        d.dispatch_seq(&world);
                        if matches!(sc.mode, Mode::Dispatch | Mode::Async) {
                            d.dispatch_thread_local(&world);
                        }
                    } else if foreign.is_some() {
                        unreachable!("foreign-pool scenarios run on the sendable form");
                    } else {
                        run_dispatch(&mut d, &world, if sc.first_seq && i == 1 { Mode::Seq } else { sc.mode });
                    }
                }))
            };
            ctx.log(Ev::DispatchEnd, 0, 0);
            out.results.push(r.err().map(|p| payload_str(&*p)));
            let bs = world_borrow_state(&world);
            let vals = if bs.iter().all(|b| *b == 0) { world_values(&world) } else { vec![] };
            out.after.push((vals, bs, ctx.local.lock().unwrap().clone()));
        }
        out.borrow = world_borrow_state(&world);
        out.values = if out.borrow.iter().all(|b| *b == 0) { world_values(&world) } else { vec![] };
    }
    out.log = ctx.take_log();
    out.obs = ctx.obs.lock().unwrap().clone();
    out.local = ctx.local.lock().unwrap().clone();
    out.runs = ctx.runs.lock().unwrap().clone();
    out.errors = ctx.errors.lock().unwrap().clone();
    out.spawn_panics = rayon::verif::spawn_panics();
    out
}

// ---------------------------------------------------------------------------
// monitors
// ---------------------------------------------------------------------------

fn v(prop: &'static str, sig: &str, msg: String) -> Viol {
    Viol { prop, sig: sig.to_string(), msg }
}

#[derive(Clone, Copy, Default, Debug)]
pub struct Mon {
    pub c01: bool,
    pub c02: bool,
    pub c03: bool,
    pub c04: bool,
    pub c05: bool,
    pub c07: bool,
    pub c12: bool,
    pub c14: bool,
}

impl Mon {
    pub fn of(prop: &str) -> Mon {
        let mut m = Mon::default();
        match prop {
            "C01" => m.c01 = true,
            "C02" => m.c02 = true,
            "C03" => m.c03 = true,
            "C04" => m.c04 = true,
            "C05" => m.c05 = true,
            "C07" => m.c07 = true,
            "C12" => m.c12 = true,
            "C14" => m.c14 = true,
            _ => {}
        }
        m
    }
}

fn is_borrow_panic(msg: &str) -> bool {
    msg.contains("already") && msg.contains("borrowed")
}

fn tl_in_batch(info: &PlanInfo, id: usize) -> bool {
    info.nodes[id].kind == Kind::Tl && info.nodes[id].parent.is_some()
}

/// begin / end event kinds of a node
fn is_begin(info: &PlanInfo, e: &Event) -> bool {
    match info.nodes.get(e.sys as usize).map(|n| n.kind) {
        Some(Kind::Batch) => matches!(e.kind, Ev::CtrlBegin | Ev::Plan),
        Some(_) => e.kind == Ev::FetchBegin,
        None => false,
    }
}

fn is_end(info: &PlanInfo, e: &Event) -> bool {
    match info.nodes.get(e.sys as usize).map(|n| n.kind) {
        Some(Kind::Batch) => e.kind == Ev::CtrlEnd,
        Some(_) => e.kind == Ev::Release,
        None => false,
    }
}

pub fn analyze(m: &Mon, sc: &Scenario, info: &PlanInfo, out: &ExecOut, twin: Option<&ExecOut>) -> Vec<Viol> {
    let mut vs = Vec::new();
    for e in &out.errors {
        vs.push(v("MACHINERY", "harness-error", e.clone()));
    }
    if let Some(e) = &out.build_error {
        vs.push(v("MACHINERY", "scenario-does-not-build", e.clone()));
        return vs;
    }
    let log = &out.log;
    let parallel = !matches!(sc.mode, Mode::Seq);
    let expecting_panic = !sc.panics.is_empty();

    // panics escaping dispatch
    for (i, r) in out.results.iter().enumerate() {
        if let Some(msg) = r {
            if is_borrow_panic(msg) {
                if m.c01 || m.c07 || m.c05 {
                    // who could it be? attribute to the tl-in-batch finding if such a system exists and conflicts
                    let sig = if info.nodes.iter().any(|n| tl_in_batch(info, n.id) && (n.eff_reads | n.eff_writes) != 0) { "tl-in-batch-not-in-union" } else { "borrow-panic-escaped-dispatch" };
                    let p: &'static str = if m.c01 { "C01" } else if m.c07 { "C07" } else { "C05" };
                    vs.push(v(p, sig, format!("dispatch {} panicked with a borrow conflict: {}", i + 1, msg)));
                }
            } else if !(expecting_panic && i == 0) {
                vs.push(v("MACHINERY", "unexpected-panic", format!("dispatch {} panicked: {}", i + 1, msg)));
            }
        }
    }

    // isolation: shadow reader/writer sets over leaf windows and controller-data windows
    if m.c01 || m.c07 {
        let mut open: Vec<usize> = Vec::new(); // leaf / ctrl-data windows
        let mut open_batches: Vec<usize> = Vec::new();
        for e in log {
            let id = e.sys as usize;
            match e.kind {
                Ev::Fetched | Ev::CtrlDataOpen => {
                    for x in &open {
                        if *x != id && info.own_conflict(*x, id) {
                            let sig = if tl_in_batch(info, *x) || tl_in_batch(info, id) { "tl-in-batch-not-in-union" } else { "conflicting-windows-overlap" };
                            let msg = format!("system {} entered its borrow window while conflicting system {} was inside its own", id, x);
                            if m.c01 {
                                vs.push(v("C01", sig, msg.clone()));
                            }
                            if m.c07 && (info.nodes[*x].depth > 0 || info.nodes[id].depth > 0 || info.nodes[*x].kind == Kind::Batch || info.nodes[id].kind == Kind::Batch) {
                                vs.push(v("C07", sig, msg));
                            }
                        }
                    }
                    if m.c07 && e.kind == Ev::Fetched {
                        for b in &open_batches {
                            if !info.encloses(*b, id) && info.conflict(*b, id) {
                                let sig = if conflict_only_via_tl(info, *b, id) { "tl-in-batch-not-in-union" } else { "outside-system-overlaps-batch" };
                                vs.push(v("C07", sig, format!("system {} entered its window while batch {} (which it conflicts with) was running", id, b)));
                            }
                        }
                    }
                    open.push(id);
                }
                Ev::Release | Ev::CtrlDataClose => {
                    if let Some(p) = open.iter().position(|x| *x == id) {
                        open.remove(p);
                    }
                }
                Ev::CtrlBegin => {
                    if m.c07 {
                        for x in &open {
                            if info.nodes[*x].kind != Kind::Batch && !info.encloses(id, *x) && info.conflict(id, *x) {
                                let sig = if conflict_only_via_tl(info, id, *x) { "tl-in-batch-not-in-union" } else { "batch-starts-inside-conflicting-window" };
                                vs.push(v("C07", sig, format!("batch {} started while conflicting outside system {} was inside its window", id, x)));
                            }
                        }
                    }
                    open_batches.push(id);
                }
                Ev::CtrlEnd => {
                    if let Some(p) = open_batches.iter().position(|x| *x == id) {
                        open_batches.remove(p);
                    }
                }
                _ => {}
            }
        }
    }

    // ordering monitors: j-th begin of b after j-th end of a, per sequence
    if m.c02 || m.c03 || m.c12 {
        // occurrence lists
        let mut begins: BTreeMap<usize, Vec<usize>> = BTreeMap::new();
        let mut ends: BTreeMap<usize, Vec<usize>> = BTreeMap::new();
        for (i, e) in log.iter().enumerate() {
            if is_begin(info, e) {
                begins.entry(e.sys as usize).or_default().push(i);
            }
            if is_end(info, e) {
                ends.entry(e.sys as usize).or_default().push(i);
            }
        }
        // the library's MultiDispatcher gives the harness no hook at its end: take the last event of any
        // system inside it (or its plan() event) before its next plan()
        for n in &info.nodes {
            if n.kind == Kind::Batch && n.multi {
                let plans: Vec<usize> = begins.get(&n.id).cloned().unwrap_or_default();
                let mut es = Vec::new();
                for (k, pi) in plans.iter().enumerate() {
                    let stop = plans.get(k + 1).copied().unwrap_or(log.len());
                    let mut last = *pi;
                    for i in *pi..stop {
                        if info.encloses(n.id, log[i].sys as usize) && !matches!(log[i].kind, Ev::DispatchBegin | Ev::DispatchEnd | Ev::Script) {
                            last = i;
                        }
                    }
                    es.push(last);
                }
                ends.insert(n.id, es);
            }
        }
        let ordered = |a: usize, b: usize| -> Option<(usize, usize, usize)> {
            // every begin of b must come after the end of a with the same index
            let eb = begins.get(&b).cloned().unwrap_or_default();
            let ea = ends.get(&a).cloned().unwrap_or_default();
            for (j, bi) in eb.iter().enumerate() {
                match ea.get(j) {
                    Some(ai) if ai < bi => {}
                    Some(ai) => return Some((j, *ai, *bi)),
                    None => {
                        // a never ended that often: only a violation if a began (it is running) or never ran
                        return Some((j, usize::MAX, *bi));
                    }
                }
            }
            None
        };
        // sequences: top-level and every batch's children
        let mut seqs: Vec<Vec<usize>> = vec![info.top.clone()];
        for n in &info.nodes {
            if n.kind == Kind::Batch {
                seqs.push(n.children.clone());
            }
        }
        for seq in &seqs {
            let names: BTreeMap<&str, usize> = {
                let mut mm = BTreeMap::new();
                for id in seq {
                    let n = &info.nodes[*id];
                    if n.kind != Kind::Tl && !n.name.is_empty() {
                        mm.entry(n.name.as_str()).or_insert(*id);
                    }
                }
                mm
            };
            if m.c02 && !expecting_panic {
                for id in seq {
                    for d in &info.nodes[*id].deps {
                        if let Some(a) = names.get(d.as_str()) {
                            if let Some((j, ai, bi)) = ordered(*a, *id) {
                                vs.push(v("C02", "dependent-started-before-dependency-finished", format!("occurrence {} of system {} began (event {}) before its dependency {} had finished (event {})", j, id, bi, a, ai as isize)));
                            }
                        }
                    }
                }
            }
            if m.c03 && !expecting_panic {
                for x in seq {
                    for y in seq {
                        let (nx, ny) = (&info.nodes[*x], &info.nodes[*y]);
                        if nx.kind != Kind::Tl && ny.kind != Kind::Tl && nx.barriers_before < ny.barriers_before {
                            if let Some((j, ai, bi)) = ordered(*x, *y) {
                                vs.push(v("C03", "post-barrier-system-started-early", format!("occurrence {} of system {} (after a barrier) began at event {} before pre-barrier system {} finished (event {})", j, y, bi, x, ai as isize)));
                            }
                        }
                    }
                }
            }
            if m.c12 && !expecting_panic {
                let tls: Vec<usize> = seq.iter().copied().filter(|id| info.nodes[*id].kind == Kind::Tl).collect();
                let others: Vec<usize> = seq.iter().copied().filter(|id| info.nodes[*id].kind != Kind::Tl).collect();
                for (k, t) in tls.iter().enumerate() {
                    if sc.mode == Mode::Par || sc.mode == Mode::Seq {
                        if info.nodes[*t].parent.is_none() && begins.get(t).map_or(false, |b| !b.is_empty()) {
                            vs.push(v("C12", "tl-ran-in-stage-only-dispatch", format!("thread-local system {} ran during {}", t, sc.mode.label())));
                        }
                        if info.nodes[*t].parent.is_none() {
                            continue;
                        }
                    }
                    for o in &others {
                        if let Some((j, ai, bi)) = ordered(*o, *t) {
                            vs.push(v("C12", "tl-started-before-others-finished", format!("occurrence {} of thread-local system {} began at event {} before system {} finished (event {})", j, t, bi, o, ai as isize)));
                        }
                    }
                    if k > 0 {
                        if let Some((j, ai, bi)) = ordered(tls[k - 1], *t) {
                            vs.push(v("C12", "tl-order", format!("occurrence {} of thread-local system {} began at event {} before thread-local system {} finished (event {})", j, t, bi, tls[k - 1], ai as isize)));
                        }
                    }
                }
            }
        }
        if m.c12 && expecting_panic {
            // a dispatch in which an ordinary system panicked: the other systems have not all finished,
            // so no top-level thread-local system may start in it
            let ordinary_panicked = sc.panics.iter().any(|(id, _)| info.nodes[*id].kind != Kind::Tl && log.iter().any(|e| e.dispatch == 1 && is_begin(info, e) && e.sys as usize == *id));
            if ordinary_panicked && (sc.mode == Mode::Async || out.results.first().map_or(false, |r| r.is_some())) {
                for e in log {
                    let id = e.sys as usize;
                    if e.dispatch == 1 && e.kind == Ev::FetchBegin && info.nodes.get(id).map_or(false, |n| n.kind == Kind::Tl && n.parent.is_none()) {
                        vs.push(v("C12", "tl-started-although-a-system-panicked", format!("thread-local system {} started in a dispatch in which an ordinary system panicked (not every other system has finished)", id)));
                    }
                }
            }
        }
        if m.c12 {
            for e in log {
                let id = e.sys as usize;
                if matches!(e.kind, Ev::FetchBegin | Ev::Fetched | Ev::Release) && info.nodes.get(id).map_or(false, |n| n.kind == Kind::Tl) {
                    if info.nodes[id].parent.is_none() {
                        if e.task != out.main_task || e.pool != out.main_pool {
                            vs.push(v("C12", "tl-not-on-calling-thread", format!("top-level thread-local system {} ran in task {} (pool {}), the caller is task {}", id, e.task, e.pool, out.main_task)));
                        }
                    } else if e.pool != 0 && parallel {
                        vs.push(v("C12", "tl-in-batch-ran-in-pool", format!("thread-local system {} registered inside batch {} ran on a pool worker (task {}, pool {})", id, info.nodes[id].parent.unwrap(), e.task, e.pool)));
                    }
                }
            }
        }
    }

    if m.c12 && sc.mode == Mode::Dispatch && sc.script.is_none() {
        // a dispatch that returns normally has run every top-level thread-local system exactly once,
        // also when an earlier dispatch of the same dispatcher ended in a (caught) panic
        for (di, r) in out.results.iter().enumerate() {
            if r.is_some() {
                continue;
            }
            let d = di as u16 + 1;
            for n in info.nodes.iter().filter(|n| n.kind == Kind::Tl) {
                // inside batches: once per inner dispatch, i.e. the product of the controllers' repeat counts
                let exp = expected_runs(info, n.id, 1, 1) as usize;
                let ran = log.iter().filter(|e| e.dispatch == d && e.kind == Ev::FetchBegin && e.sys as usize == n.id).count();
                // after a panic inside a batch the batch's remaining inner dispatches of that outer dispatch are abandoned
                if ran != exp && !(expecting_panic && n.parent.is_some() && di == 0) {
                    vs.push(v("C12", "tl-not-run-once-by-dispatch", format!("dispatch {} returned normally but thread-local system {} ran {} times in it, expected {}", d, n.id, ran, exp)));
                }
            }
        }
    }

    if m.c04 && expecting_panic && sc.script.is_none() && sc.mode != Mode::Async {
        // exactly once per dispatch also holds for every dispatch that returns normally AFTER a dispatch
        // that ended in a (caught) panic
        for (di, r) in out.results.iter().enumerate().skip(1) {
            if r.is_some() {
                continue;
            }
            let d = di as u16 + 1;
            let tl = if sc.mode == Mode::Dispatch { 1 } else { 0 };
            for n in &info.nodes {
                let exp = expected_runs(info, n.id, 1, tl) as usize;
                let ran = log.iter().filter(|e| e.dispatch == d && is_begin(info, e) && e.sys as usize == n.id).count();
                if ran != exp {
                    let sig = if ran < exp { "system-skipped-after-contained-panic" } else { "system-ran-too-often-after-contained-panic" };
                    vs.push(v("C04", sig, format!("dispatch {} (after a dispatch that ended in a caught panic) ran system {} {} times, expected {}", d, n.id, ran, exp)));
                }
            }
        }
    }

    if m.c04 && !expecting_panic && out.results.iter().all(|r| r.is_none()) {
        let k = sc.dispatches as u32;
        let tl = if matches!(sc.mode, Mode::Dispatch | Mode::Async) { k } else { 0 };
        for n in &info.nodes {
            let exp = expected_runs(info, n.id, k, tl);
            if out.runs[n.id] != exp {
                let sig = if out.runs[n.id] < exp { "system-skipped" } else { "system-ran-too-often" };
                vs.push(v("C04", sig, format!("system {} ran {} times in {} x {}, expected {}", n.id, out.runs[n.id], k, sc.mode.label(), exp)));
            }
        }
    }

    if m.c14 && expecting_panic && !out.results.is_empty() {
        // (1) the panic reaches the caller with the payload of a panicking system
        let began1: Vec<usize> = log.iter().filter(|e| e.dispatch == 1 && is_begin(info, e)).map(|e| e.sys as usize).collect();
        let reached: Vec<usize> = sc.panics.iter().map(|p| p.0).filter(|id| began1.contains(id)).collect();
        match &out.results[0] {
            None => {
                if !reached.is_empty() {
                    vs.push(v("C14", "panic-swallowed", format!("system(s) {:?} panicked in dispatch 1 but dispatch returned normally", reached)));
                }
            }
            Some(msg) => {
                let ok = sc.panics.iter().any(|(id, _)| msg.contains(PANIC_MARK) && msg.ends_with(&format!("sys={}", id)));
                if !ok && !is_borrow_panic(msg) {
                    vs.push(v("C14", "foreign-payload", format!("dispatch 1 panicked with {:?}, not the payload of a panicking system {:?}", msg, sc.panics)));
                }
            }
        }
        // (2) no dependent of a system that panicked ran in that dispatch; nothing ran twice
        let mut seqs: Vec<Vec<usize>> = vec![info.top.clone()];
        for n in &info.nodes {
            if n.kind == Kind::Batch {
                seqs.push(n.children.clone());
            }
        }
        for seq in &seqs {
            let mut names: BTreeMap<&str, usize> = BTreeMap::new();
            for id in seq {
                let n = &info.nodes[*id];
                if n.kind != Kind::Tl && !n.name.is_empty() {
                    names.entry(n.name.as_str()).or_insert(*id);
                }
            }
            // transitive dependents of the systems that panicked
            let mut tainted: Vec<usize> = reached.iter().copied().filter(|r| seq.contains(r)).collect();
            let mut changed = true;
            while changed {
                changed = false;
                for id in seq {
                    if tainted.contains(id) {
                        continue;
                    }
                    if info.nodes[*id].deps.iter().any(|d| names.get(d.as_str()).map_or(false, |a| tainted.contains(a))) {
                        tainted.push(*id);
                        changed = true;
                    }
                }
            }
            for id in &tainted {
                if !reached.contains(id) && began1.contains(id) {
                    // inner sequences run `times` per batch run: only meaningful when the dependency panicked before
                    let first_begin = log.iter().position(|e| e.dispatch == 1 && is_begin(info, e) && e.sys as usize == *id).unwrap();
                    let dep_panic_pos = reached.iter().filter_map(|r| log.iter().position(|e| e.dispatch == 1 && is_begin(info, e) && e.sys as usize == *r)).min().unwrap_or(0);
                    // (at the top level every system runs once per dispatch: a dependent that ran at all - before or
                    // after the panic - ran in a dispatch in which its dependency panicked)
                    if info.nodes[*id].parent.is_none() || first_begin > dep_panic_pos {
                        vs.push(v("C14", "dependent-ran-after-panic", format!("system {} depends (transitively) on a system that panicked in dispatch 1 but ran in that dispatch", id)));
                    }
                }
            }
        }
        for n in &info.nodes {
            let cnt = began1.iter().filter(|x| **x == n.id).count() as u32;
            let max = expected_runs(info, n.id, 1, 1);
            if cnt > max.max(1) {
                vs.push(v("C14", "system-ran-twice-in-panicking-dispatch", format!("system {} began {} times in dispatch 1 (at most {} expected)", n.id, cnt, max)));
            }
        }
        // (3) nothing left borrowed
        if let Some((_, bs, _)) = out.after.first() {
            if bs.iter().any(|b| *b == 1 || *b == 2) {
                vs.push(v("C14", "resource-left-borrowed", format!("borrow state after the caught panic: {:?} (0 free, 1 shared, 2 exclusive)", bs)));
            }
        }
        // (4) the next dispatch runs every system exactly once, as if nothing had happened
        if out.results.len() >= 2 {
            if let Some(msg) = &out.results[1] {
                vs.push(v("C14", "next-dispatch-panicked", format!("the dispatch after the caught panic panicked: {}", msg)));
            } else {
                let tl = if matches!(sc.mode, Mode::Dispatch | Mode::Async) { 1 } else { 0 };
                for n in &info.nodes {
                    let cnt = log.iter().filter(|e| e.dispatch == 2 && is_begin(info, e) && e.sys as usize == n.id).count() as u32;
                    let exp = expected_runs(info, n.id, 1, tl);
                    if cnt != exp {
                        vs.push(v("C14", "next-dispatch-not-exactly-once", format!("system {} ran {} times in the dispatch after the caught panic, expected {}", n.id, cnt, exp)));
                    }
                }
                if let (Some((v1, b1, l1)), Some((v2, _, _))) = (out.after.first(), out.after.get(1)) {
                    if b1.iter().all(|b| *b == 0) && !v1.is_empty() {
                        let exp = seq_expectation(sc, v1, l1);
                        if exp != *v2 {
                            let has_tl_batch = info.nodes.iter().any(|n| tl_in_batch(info, n.id) && (n.eff_reads | n.eff_writes) != 0);
                            let sig = if has_tl_batch { "tl-in-batch-not-in-union" } else { "next-dispatch-outcome-differs" };
                            vs.push(v("C14", sig, format!("world after the dispatch following the panic is {:?}, a sequential dispatch from the same state gives {:?}", v2, exp)));
                        }
                    }
                }
            }
        }
    }

    if m.c05 && !expecting_panic {
        if let Some(t) = twin {
            if out.results.iter().all(|r| r.is_none()) && out.digest() != t.digest() {
                let has_tl_batch = info.nodes.iter().any(|n| tl_in_batch(info, n.id) && (n.eff_reads | n.eff_writes) != 0);
                let sig = if has_tl_batch { "tl-in-batch-not-in-union" } else { "outcome-differs-from-sequential" };
                vs.push(v("C05", sig, format!("final world {:?} / observations differ from the sequential twin {:?}", out.values, t.values)));
            }
        }
    }
    vs
}

/// World values after one sequential dispatch (dispatch_seq + thread-local
/// tail if the mode runs it) of a fresh, panic-free twin started from the
/// given world values and local counters.
pub fn seq_expectation(sc: &Scenario, values: &[u64], local: &[u64]) -> Vec<u64> {
    let was = rayon::verif::controlled();
    rayon::verif::set_controlled(false);
    let info = PlanInfo::of(&sc.ops);
    let ctx = Ctx::new(info.n(), Ctx::identity_map());
    *ctx.local.lock().unwrap() = local.to_vec();
    let r = (|| {
        let mut d = build_plan(&sc.ops, &ctx, None).ok()?;
        let mut w = shred::World::empty();
        for c in 0..NCONCRETE as u8 {
            if matches!(c, 0 | 1 | 4) {
                w.insert_by_id(concrete_id(c), Cell0(values[c as usize]));
            } else {
                w.insert_by_id(concrete_id(c), Cell1(values[c as usize]));
            }
        }
        ctx.dispatch_no.store(2, Ordering::Relaxed);
        d.dispatch_seq(&w);
        if matches!(sc.mode, Mode::Dispatch | Mode::Async) {
            d.dispatch_thread_local(&w);
        }
        Some(world_values(&w))
    })();
    rayon::verif::set_controlled(was);
    r.unwrap_or_default()
}

/// World values, per-system observations and local counters after `k` sequential rounds (dispatch_seq + thread-local
/// tail) of a fresh twin on a fresh world: what an async script of k `dispatch ... wait` rounds has to produce.
pub fn seq_rounds(sc: &Scenario, k: u32) -> (Vec<u64>, Vec<Vec<u64>>, Vec<u64>) {
    let was = rayon::verif::controlled();
    rayon::verif::set_controlled(false);
    let info = PlanInfo::of(&sc.ops);
    let ctx = Ctx::new(info.n(), Ctx::identity_map());
    let r = (|| {
        let mut d = build_plan(&sc.ops, &ctx, None).ok()?;
        let w = new_world();
        for i in 1..=k {
            ctx.dispatch_no.store(i, Ordering::Relaxed);
            d.dispatch_seq(&w);
            d.dispatch_thread_local(&w);
        }
        Some((world_values(&w), ctx.obs.lock().unwrap().clone(), ctx.local.lock().unwrap().clone()))
    })();
    rayon::verif::set_controlled(was);
    r.unwrap_or_default()
}

/// C15 oracle over the log of an async script run.
pub fn analyze_async(sc: &Scenario, info: &PlanInfo, out: &ExecOut) -> Vec<Viol> {
    let mut vs = Vec::new();
    for e in &out.errors {
        vs.push(v("MACHINERY", "harness-error", e.clone()));
    }
    if let Some(e) = &out.build_error {
        vs.push(v("MACHINERY", "scenario-does-not-build", e.clone()));
        return vs;
    }
    for r in out.results.iter().flatten() {
        // with an injected background panic the hand-over never happens: the blocking calls unwind with
        // "Sender dropped", which is the library's way of NOT reporting completion
        if !(sc.panics.is_empty()) && r.contains("Sender dropped") {
            continue;
        }
        // the injected first-setup panic: the call unwinds to the caller, who goes on with the script
        if !sc.setup_panics.is_empty() && r.contains(PANIC_MARK) && r.contains(" setup sys=") {
            continue;
        }
        vs.push(v("C15", "async-call-panicked", format!("a call of the script panicked: {}", r)));
    }
    let drops_dispatcher = sc.script.as_deref().unwrap_or("").contains('K');
    let script: Vec<char> = if drops_dispatcher { sc.script.as_deref().unwrap_or("").chars().collect() } else { sc.script.as_deref().unwrap_or("").chars().chain(std::iter::once('O')).collect() };
    let log = &out.log;
    // C13: every setup() call that returned has reached every system once - also while a dispatch is in flight
    if sc.panics.is_empty() && sc.setup_panics.is_empty() && !out.setups.is_empty() {
        let ok_s = log.iter().filter(|e| e.kind == Ev::Script && e.aux != 0 && e.aux != 9 && script.get(e.sys as usize) == Some(&'S')).count() as u32;
        for n in info.nodes.iter().filter(|n| n.kind != Kind::Batch && !n.is_static) {
            if out.setups.get(n.id).copied().unwrap_or(ok_s) != ok_s {
                vs.push(v("C13", "async-setup-count", format!("{} setup() calls returned but system {} was set up {} times", ok_s, n.id, out.setups[n.id])));
            }
        }
    }
    let n = info.n();
    let mut begun = vec![0u32; n];
    let mut ended = vec![0u32; n];
    let mut open: Vec<usize> = Vec::new();
    let mut issued: u32 = 0;
    let mut in_wait = false;
    let mut open_at_call = 0usize;
    let mut unfinished_at_call = false;
    // thread-local systems belong to a dispatch and run inside wait(): the first wait() that returns after
    // one or more dispatches has to run every top-level thread-local system exactly once
    let tl_nodes: Vec<usize> = info.nodes.iter().filter(|x| x.kind == Kind::Tl && x.parent.is_none()).map(|x| x.id).collect();
    let mut dispatched_since_wait = false;
    let mut tl_begun_at_wait: Vec<u32> = vec![0; n];
    let stage_nodes: Vec<usize> = info.nodes.iter().filter(|x| !(x.kind == Kind::Tl && x.parent.is_none())).map(|x| x.id).collect();
    let all_done = |begun: &Vec<u32>, ended: &Vec<u32>, issued: u32| -> Option<usize> {
        for id in &stage_nodes {
            let exp = expected_runs(info, *id, issued, 0);
            let nd = &info.nodes[*id];
            let e = if nd.kind == Kind::Batch && nd.multi { begun[*id] } else { ended[*id] };
            if begun[*id] != exp || e != exp {
                return Some(*id);
            }
        }
        None
    };
    // ends of dispatch j per top-level node, for the overtaking check
    let mut last_end_of_round: Vec<usize> = Vec::new(); // event index of the last top-level end, per round
    let mut first_begin_of_round: Vec<usize> = Vec::new();
    for (i, e) in log.iter().enumerate() {
        let id = e.sys as usize;
        match e.kind {
            Ev::Script => {
                let op = script.get(id).copied().unwrap_or('?');
                if e.aux == 0 {
                    // call begins
                    open_at_call = open.len();
                    unfinished_at_call = all_done(&begun, &ended, issued).is_some();
                    if op == 'W' {
                        in_wait = true;
                        tl_begun_at_wait = begun.clone();
                    }
                } else {
                    in_wait = false;
                    if op == 'D' && e.aux != 9 {
                        issued += 1;
                        dispatched_since_wait = true;
                    }
                    let returned_ok = e.aux != 9;
                    if op == 'W' && returned_ok {
                        if dispatched_since_wait && sc.panics.is_empty() {
                            for t in &tl_nodes {
                                let ran = begun[*t] - tl_begun_at_wait[*t];
                                if ran != 1 {
                                    vs.push(v("C12", "wait-did-not-run-thread-local-once", format!("wait() (call {}) returned after a dispatch but thread-local system {} ran {} times inside it", id, t, ran)));
                                    // the same fact seen from "every system of a dispatch runs exactly once"
                                    vs.push(v("C04", "thread-local-not-run-once-per-async-dispatch", format!("dispatch ... wait() (call {}) completed but thread-local system {} ran {} times for it", id, t, ran)));
                                }
                            }
                        }
                        dispatched_since_wait = false;
                    }
                    if op == 'K' && returned_ok && sc.panics.is_empty() {
                        // the dispatcher was dropped and the world it owned is gone: every dispatch() that returned has
                        // been carried out in full by then (the background job owns world and stages until it is done)
                        if let Some(x) = all_done(&begun, &ended, issued) {
                            vs.push(v("C04", "dispatch-abandoned-when-dispatcher-dropped", format!("the dispatcher was dropped after {} dispatch() call(s) and its world has been dropped, but system {} has run {} times", issued, x, begun[x])));
                        }
                    }
                    match op {
                        'W' | 'X' | 'O' | 'M' | 'S' if returned_ok => {
                            if !open.is_empty() {
                                vs.push(v("C15", "accessor-returned-while-system-running", format!("call {} ({}) returned while system(s) {:?} were inside their window", id, op, open)));
                            }
                            if let Some(x) = all_done(&begun, &ended, issued) {
                                vs.push(v("C15", "accessor-returned-before-completion", format!("call {} ({}) returned but system {} has run {} / finished {} times after {} dispatches", id, op, x, begun[x], ended[x], issued)));
                            }
                        }
                        'R' if returned_ok => {
                            let running = e.aux == 2;
                            if !running {
                                if !open.is_empty() {
                                    vs.push(v("C15", "running-false-while-system-running", format!("running() (call {}) returned false while system(s) {:?} were inside their window", id, open)));
                                }
                                if let Some(x) = all_done(&begun, &ended, issued) {
                                    vs.push(v("C15", "running-false-before-completion", format!("running() (call {}) returned false but system {} has run {} / finished {} times after {} dispatches", id, x, begun[x], ended[x], issued)));
                                }
                            } else if open_at_call == 0 && !unfinished_at_call {
                                // everything had finished and been handed back? only a violation if the state had
                                // already been taken back by an earlier blocking accessor: then nothing can be running
                                let taken_back = {
                                    // the previous completed call was a blocking accessor or running()==false and no dispatch since
                                    let mut tb = false;
                                    for p in log[..i].iter().rev() {
                                        if p.kind == Ev::Script && p.aux != 0 && p.sys as usize != id {
                                            let pop = script.get(p.sys as usize).copied().unwrap_or('?');
                                            tb = matches!(pop, 'W' | 'X' | 'O' | 'M' | 'S') || (pop == 'R' && p.aux == 1);
                                            break;
                                        }
                                    }
                                    tb || issued == 0
                                };
                                if taken_back {
                                    vs.push(v("C15", "running-true-when-idle", format!("running() (call {}) returned true although nothing was dispatched since the state was taken back", id)));
                                }
                            }
                        }
                        _ => {}
                    }
                }
            }
            _ if is_begin(info, e) => {
                begun[id] += 1;
                if info.nodes[id].parent.is_none() && info.nodes[id].kind != Kind::Tl {
                    let round = begun[id] as usize - 1;
                    while first_begin_of_round.len() <= round {
                        first_begin_of_round.push(i);
                    }
                }
                if info.nodes[id].kind == Kind::Tl && info.nodes[id].parent.is_none() {
                    if !in_wait {
                        vs.push(v("C15", "tl-outside-wait", format!("thread-local system {} ran outside wait()", id)));
                    }
                    // (a caller that is itself a pool worker - `script_in_pool` - carries its pool id)
                    if e.task != out.main_task || (e.pool != 0 && !sc.script_in_pool) {
                        vs.push(v("C15", "tl-not-on-caller", format!("thread-local system {} ran in task {} (pool {}), the caller is task {}", id, e.task, e.pool, out.main_task)));
                    }
                    if !open.is_empty() {
                        vs.push(v("C15", "tl-while-system-running", format!("thread-local system {} started while {:?} were running", id, open)));
                    }
                }
            }
            _ => {}
        }
        match e.kind {
            Ev::Fetched => open.push(id),
            Ev::Release => {
                if let Some(p) = open.iter().position(|x| *x == id) {
                    open.remove(p);
                }
            }
            _ => {}
        }
        if is_end(info, e) {
            ended[id] += 1;
            if info.nodes[id].parent.is_none() && info.nodes[id].kind != Kind::Tl {
                let round = ended[id] as usize - 1;
                while last_end_of_round.len() <= round {
                    last_end_of_round.push(i);
                }
                last_end_of_round[round] = i;
            }
        }
    }
    // a second dispatch does not start before the previous one is complete
    for r in 1..first_begin_of_round.len() {
        if let Some(le) = last_end_of_round.get(r - 1) {
            if first_begin_of_round[r] < *le {
                vs.push(v("C15", "dispatch-overtaken", format!("a system of dispatch {} began (event {}) before dispatch {} had finished (event {})", r + 1, first_begin_of_round[r], r, le)));
            }
        }
    }
    // C05: a script made of `dispatch ... wait` rounds (anything but a dispatch in between) leaves the world, what every
    // system saw and every system's state exactly as the same number of sequential rounds does
    if sc.panics.is_empty() && sc.setup_panics.is_empty() && out.results.iter().all(|r| r.is_none()) && !out.values.is_empty() {
        let s: String = sc.script.clone().unwrap_or_default();
        let mut rounds = 0u32;
        let mut ok = !s.is_empty();
        let mut open = false;
        for ch in s.chars() {
            match ch {
                'D' if !open => open = true,
                'D' => ok = false,
                'W' if open => {
                    open = false;
                    rounds += 1;
                }
                'W' => ok = false,
                'S' => ok = false,
                _ => {}
            }
        }
        if ok && !open && rounds > 0 {
            let (ev, eo, el) = seq_rounds(sc, rounds);
            if !ev.is_empty() && (ev != out.values || eo != out.obs || el != out.local) {
                let has_tl_batch = info.nodes.iter().any(|n| tl_in_batch(info, n.id) && (n.eff_reads | n.eff_writes) != 0);
                let sig = if has_tl_batch { "tl-in-batch-not-in-union" } else { "async-outcome-differs-from-sequential" };
                vs.push(v("C05", sig, format!("after {} dispatch ... wait rounds the world is {:?} and the systems' states {:?}; {} sequential rounds give {:?} / {:?}", rounds, out.values, out.local, rounds, ev, el)));
            }
        }
    }
    // exactly once per dispatch at the end (the script ends with world())
    if let Some(x) = all_done(&begun, &ended, issued) {
        if out.results.iter().all(|r| r.as_ref().map_or(true, |m| !sc.setup_panics.is_empty() && m.contains(" setup sys="))) {
            vs.push(v("C15", "not-exactly-once", format!("after the script, system {} has run {} times for {} dispatches", x, begun[x], issued)));
            if sc.panics.is_empty() {
                // the same fact under "k dispatches run every system k times": a dispatch() call that returned is a dispatch
                vs.push(v("C04", "async-dispatches-not-all-carried-out", format!("{} dispatch() calls returned and the script's final world() returned, but system {} has run {} times", issued, x, begun[x])));
            }
        }
    }
    vs
}

fn conflict_only_via_tl(info: &PlanInfo, batch: usize, other: usize) -> bool {
    // would the conflict disappear if thread-local systems inside batches declared nothing?
    fn eff(info: &PlanInfo, id: usize) -> (u64, u64) {
        let n = &info.nodes[id];
        match n.kind {
            Kind::Tl if n.parent.is_some() => (0, 0),
            Kind::Batch => {
                let mut r = n.reads.iter().fold(0u64, |m, x| m | (1u64 << x));
                let mut w = n.writes.iter().fold(0u64, |m, x| m | (1u64 << x));
                for c in &n.children {
                    let (cr, cw) = eff(info, *c);
                    r |= cr;
                    w |= cw;
                }
                (r, w)
            }
            _ => (n.eff_reads, n.eff_writes),
        }
    }
    let (a, b) = (eff(info, batch), eff(info, other));
    !((a.1 & (b.0 | b.1)) != 0 || (a.0 & b.1) != 0)
}

// ---------------------------------------------------------------------------
// exploration of one scenario
// ---------------------------------------------------------------------------

#[derive(Default, Clone, Debug)]
pub struct ScStats {
    pub executions: u64,
    pub nodes: u64,
    pub transitions: u64,
    pub max_depth: usize,
    pub distinct_traces: u64,
    pub distinct_outcomes: u64,
    pub deadlocks: u64,
    pub capped: bool,
    pub bound_completed: i64,
    pub overlaps_seen: u64,
    pub max_preemptions: u32,
}

pub struct ScResult {
    pub stats: ScStats,
    pub col: Collector,
    pub divergence: Option<String>,
    pub traces: Vec<Vec<(Ev, u16)>>,
}

#[derive(Clone, Debug)]
pub struct ExploreOpts {
    pub bounds: Vec<u32>,
    pub all_points: bool,
    pub deadline: Instant,
    pub max_execs: u64,
    /// keep up to this many distinct event traces (for E4)
    pub keep_traces: usize,
    /// deadlock is a violation of this property (C11 / C15); None = machinery error
    pub deadlock_prop: Option<&'static str>,
    /// delay bounding instead of preemption bounding
    pub delay_mode: bool,
}

fn trace_key(log: &[Event]) -> Vec<(Ev, u16)> {
    log.iter().filter(|e| !matches!(e.kind, Ev::DispatchBegin | Ev::DispatchEnd)).map(|e| (e.kind, e.sys)).collect()
}

fn count_overlaps(info: &PlanInfo, log: &[Event]) -> u64 {
    // number of (Fetched while another window open) pairs: non-vacuity
    let mut open: Vec<usize> = vec![];
    let mut n = 0;
    for e in log {
        match e.kind {
            Ev::Fetched => {
                n += open.len() as u64;
                open.push(e.sys as usize);
            }
            Ev::Release => {
                if let Some(p) = open.iter().position(|x| *x == e.sys as usize) {
                    open.remove(p);
                }
            }
            _ => {}
        }
    }
    let _ = info;
    n
}

/// Per-bound accumulators shared between the job body and the driver.
#[derive(Default)]
struct BoundAcc {
    traces: HashSet<Vec<(Ev, u16)>>,
    outcomes: HashSet<u64>,
    found: Collector,
    overlaps: u64,
    kept: Vec<Vec<(Ev, u16)>>,
}

struct Cur {
    idx: usize,
    sc: Scenario,
    info: Arc<PlanInfo>,
    twin: Option<Arc<ExecOut>>,
    bound_i: usize,
    total: ScStats,
    col: Collector,
    divergence: Option<String>,
    acc: Arc<Mutex<BoundAcc>>,
    pending: Arc<Mutex<Option<sched::Outcome>>>,
    kept: Vec<Vec<(Ev, u16)>>,
}

/// Feeds (scenario, bound) jobs to a scheduler session; one driver per OS thread.
pub struct Driver {
    scs: Arc<Vec<Scenario>>,
    next: Arc<std::sync::atomic::AtomicUsize>,
    mon: Mon,
    opts: ExploreOpts,
    known: crate::report::Known,
    cur: Option<Cur>,
    pub results: Arc<Mutex<Vec<(usize, ScResult)>>>,
}

impl Driver {
    pub fn new(scs: Arc<Vec<Scenario>>, next: Arc<std::sync::atomic::AtomicUsize>, mon: Mon, opts: ExploreOpts, results: Arc<Mutex<Vec<(usize, ScResult)>>>) -> Driver {
        Driver { scs, next, mon, opts, known: crate::report::Known::load(), cur: None, results }
    }

    fn finish_cur(&mut self) {
        if let Some(c) = self.cur.take() {
            self.results.lock().unwrap().push((c.idx, ScResult { stats: c.total, col: c.col, divergence: c.divergence, traces: c.kept }));
        }
    }

    /// fold the outcome of the bound that just ended; true = go on with the next bound
    fn fold(&mut self) -> bool {
        let c = self.cur.as_mut().unwrap();
        let out = match c.pending.lock().unwrap().take() {
            Some(o) => o,
            None => return true, // nothing ran yet
        };
        let bound = self.opts.bounds[c.bound_i];
        let acc = std::mem::take(&mut *c.acc.lock().unwrap());
        let st = out.stats;
        c.total.executions = st.executions;
        c.total.nodes = st.nodes + st.executions;
        c.total.transitions = st.transitions;
        c.total.max_depth = c.total.max_depth.max(st.max_depth);
        c.total.distinct_traces = acc.traces.len() as u64;
        c.total.distinct_outcomes = acc.outcomes.len() as u64;
        c.total.deadlocks = st.deadlocks;
        c.total.overlaps_seen = acc.overlaps;
        c.total.max_preemptions = st.max_preemptions_seen;
        for k in acc.kept {
            if c.kept.len() < self.opts.keep_traces && !c.kept.contains(&k) {
                c.kept.push(k);
            }
        }
        let known = &self.known;
        let had = acc.found.best.keys().any(|(p, sg)| known.matches(p, sg).is_none());
        c.col.merge(acc.found);
        if out.divergence.is_some() {
            c.divergence = out.divergence;
            return false;
        }
        if st.capped {
            c.total.capped = true;
            return false;
        }
        c.total.bound_completed = if bound == u32::MAX { 99 } else { bound as i64 };
        if had {
            return false;
        }
        c.bound_i += 1;
        c.bound_i < self.opts.bounds.len()
    }

    pub fn next_job(&mut self) -> Option<sched::Job> {
        loop {
            if self.cur.is_some() {
                let has_pending = self.cur.as_ref().unwrap().pending.lock().unwrap().is_some();
                if has_pending && !self.fold() {
                    self.finish_cur();
                    continue;
                }
                break;
            }
            let i = self.next.fetch_add(1, Ordering::Relaxed);
            if i >= self.scs.len() {
                return None;
            }
            let sc = self.scs[i].clone();
            if Instant::now() > self.opts.deadline {
                let mut st = ScStats::default();
                st.capped = true;
                st.bound_completed = -1;
                self.results.lock().unwrap().push((i, ScResult { stats: st, col: Collector::default(), divergence: None, traces: vec![] }));
                continue;
            }
            let info = Arc::new(PlanInfo::of(&sc.ops));
            let twin = if self.mon.c05 {
                let was = rayon::verif::controlled();
                rayon::verif::set_controlled(false);
                let t = run_scenario(&sc, true);
                rayon::verif::set_controlled(was);
                Some(Arc::new(t))
            } else {
                None
            };
            let mut total = ScStats::default();
            total.bound_completed = -1;
            self.cur = Some(Cur { idx: i, sc, info, twin, bound_i: 0, total, col: Collector::default(), divergence: None, acc: Arc::new(Mutex::new(BoundAcc::default())), pending: Arc::new(Mutex::new(None)), kept: vec![] });
            break;
        }
        let c = self.cur.as_ref().unwrap();
        let bound = self.opts.bounds[c.bound_i];
        let cfg = Cfg { bound, all_points: self.opts.all_points, max_execs: self.opts.max_execs, deadline: Some(self.opts.deadline), fixed: None, delay_mode: self.opts.delay_mode };
        let (sc2, info2, twin2, acc2) = (c.sc.clone(), c.info.clone(), c.twin.clone(), c.acc.clone());
        let mon = self.mon;
        let keep = self.opts.keep_traces;
        let all_pts = self.opts.all_points;
        let scj = c.sc.to_json();
        let scj2 = scj.clone();
        let acc3 = c.acc.clone();
        let dl_prop = self.opts.deadlock_prop;
        let pending = c.pending.clone();
        let body = move || {
            let o = run_scenario(&sc2, false);
            let vs = if sc2.script.is_some() { analyze_async(&sc2, &info2, &o) } else { analyze(&mon, &sc2, &info2, &o, twin2.as_deref()) };
            let mut a = acc2.lock().unwrap();
            if !vs.is_empty() {
                let choices = sched::current_choices();
                let pre = sched::current_preemptions();
                for vi in vs {
                    let size = (pre as usize) * 10_000 + sc2.ops.len() * 100 + choices.len();
                    a.found.add_lazy(vi.prop, &vi.sig.clone(), size, || Finding {
                        prop: vi.prop.to_string(),
                        sig: vi.sig.clone(),
                        msg: format!("{} | {} x{} of plan: {} | trace: {}", vi.msg, sc2.mode.label(), sc2.dispatches, plan_short(&sc2.ops), o.log.iter().map(|e| e.short()).collect::<Vec<_>>().join(" ")),
                        replay: json!({"kind":"schedule","scenario":scj2.clone(),"choices":choices,"bound":bound,"preemptions":pre,"all_points":all_pts}),
                        size,
                    });
                }
            }
            let key = trace_key(&o.log);
            a.overlaps += count_overlaps(&info2, &o.log);
            if !a.traces.contains(&key) {
                if a.kept.len() < keep {
                    a.kept.push(key.clone());
                }
                a.traces.insert(key);
            }
            use std::hash::{Hash, Hasher};
            let mut h = std::collections::hash_map::DefaultHasher::new();
            o.digest().hash(&mut h);
            o.results.hash(&mut h);
            a.outcomes.insert(h.finish());
        };
        let on_abnormal = move |ab: Abnormal, choices: Vec<u16>| -> bool {
            let mut a = acc3.lock().unwrap();
            match ab {
                Abnormal::Deadlock(msg) => {
                    let (p, sig) = match dl_prop {
                        Some(p) => (p, "deadlock"),
                        None => ("MACHINERY", "unexpected-deadlock"),
                    };
                    a.found.add(Finding { prop: p.to_string(), sig: sig.to_string(), msg: format!("deadlock: {} | {}", msg, scj["plan"]), replay: json!({"kind":"schedule","scenario":scj.clone(),"choices":choices,"bound":bound}), size: choices.len() });
                }
                Abnormal::Panic(msg) => {
                    a.found.add(Finding { prop: "MACHINERY".into(), sig: "task-ended-by-panicking".into(), msg: format!("{} | {}", msg, scj["plan"]), replay: json!({"kind":"schedule","scenario":scj.clone(),"choices":choices,"bound":bound}), size: choices.len() });
                }
            }
            true
        };
        Some(sched::Job { cfg, body: Arc::new(body), on_abnormal: Box::new(on_abnormal), on_done: Box::new(move |o| *pending.lock().unwrap() = Some(o)) })
    }
}

pub fn explore_scenario(sc: &Scenario, mon: Mon, opts: &ExploreOpts) -> ScResult {
    let results = Arc::new(Mutex::new(Vec::new()));
    let mut d = Driver::new(Arc::new(vec![sc.clone()]), Arc::new(std::sync::atomic::AtomicUsize::new(0)), mon, opts.clone(), results.clone());
    sched::run_jobs(Box::new(move || d.next_job()));
    let r = results.lock().unwrap().pop();
    r.map(|x| x.1).unwrap_or(ScResult { stats: ScStats::default(), col: Collector::default(), divergence: Some("scenario did not run".into()), traces: vec![] })
}

/// Replay one schedule of a scenario; returns the violations found and the trace.
pub fn replay(sc: &Scenario, choices: &[u16], mon: Mon, all_points: bool) -> (Vec<Viol>, Vec<String>, Option<String>) {
    let info = Arc::new(PlanInfo::of(&sc.ops));
    let twin = if mon.c05 {
        rayon::verif::set_controlled(false);
        Some(Arc::new(run_scenario(sc, true)))
    } else {
        None
    };
    let res: Arc<Mutex<(Vec<Viol>, Vec<String>)>> = Arc::new(Mutex::new((vec![], vec![])));
    let (sc2, r2) = (sc.clone(), res.clone());
    let abn: Arc<Mutex<Option<String>>> = Arc::new(Mutex::new(None));
    let a2 = abn.clone();
    let cfg = Cfg { bound: u32::MAX, all_points, max_execs: 1, deadline: None, fixed: Some(choices.to_vec()), delay_mode: false };
    let out = sched::explore(
        &cfg,
        move || {
            let o = run_scenario(&sc2, false);
            let vs = if sc2.script.is_some() { analyze_async(&sc2, &info, &o) } else { analyze(&mon, &sc2, &info, &o, twin.as_deref()) };
            let mut r = r2.lock().unwrap();
            r.0 = vs;
            r.1 = o.log.iter().map(|e| e.short()).collect();
        },
        move |ab, _| {
            *a2.lock().unwrap() = Some(format!("{:?}", ab));
            false
        },
    );
    let r = res.lock().unwrap();
    let ab = abn.lock().unwrap().clone().or(out.divergence);
    (r.0.clone(), r.1.clone(), ab)
}
