//! `PbDfs`: exhaustive depth-first scheduler with a preemption bound for the
//! shuttle runtime, plus the `explore` driver (DESIGN.md §5.1).
//!
//! * choice point = a `next_task` call with more than one alternative;
//!   alternatives in canonical order: the running task first (if it is still
//!   runnable), then ascending task id.  Alternative 0 is free; another one
//!   while the running task is runnable is a preemption (cost 1).
//! * `marked_only` mode: a point at which the running task is still runnable is
//!   a choice point only if the harness marked it (`mark()` immediately before
//!   the scheduling point); at all other such points the running task simply
//!   continues.  Blocking and task end are always choice points.  `all_points`
//!   mode treats every scheduling point as a choice point (used to validate
//!   the reduction on small configurations).
//! * environment choices (`next_u64`) are binary, cost 0.
//! * replay of a prefix checks the number and identity of the alternatives; a
//!   mismatch is a *divergence* = machinery error, never a verdict.

use std::cell::Cell;
use std::panic::{catch_unwind, AssertUnwindSafe};
use std::sync::{Arc, Mutex};
use std::time::Instant;

use shuttle::scheduler::{Schedule, Scheduler, Task, TaskId};

std::thread_local! {
    static MARK: Cell<bool> = const { Cell::new(false) };
}

/// Mark the next scheduling point as a harness choice point.
pub fn mark() {
    MARK.with(|m| m.set(true));
}

/// A marked scheduling point (an ordinary preemption point, not a yield hint).
pub fn sched_point() {
    if std::thread::panicking() {
        return;
    }
    if !rayon::verif::controlled() {
        return;
    }
    mark();
    shuttle::thread::yield_now();
}

#[derive(Clone, Debug)]
struct Frame {
    chosen: u16,
    n: u16,
    cost_before: u32,
    preemptible: bool,
    sig: u64,
}

#[derive(Default, Clone, Debug)]
pub struct Stats {
    pub executions: u64,
    pub nodes: u64,
    pub transitions: u64,
    pub max_depth: usize,
    pub max_alts: usize,
    pub capped: bool,
    pub deadlocks: u64,
    pub max_preemptions_seen: u32,
}

pub struct Shared {
    bound: u32,
    all_points: bool,
    delay_mode: bool,
    stack: Vec<Frame>,
    cursor: usize,
    cur_cost: u32,
    started: bool,
    stop: bool,
    max_execs: u64,
    deadline: Option<Instant>,
    fixed: Option<Vec<u16>>,
    pub stats: Stats,
    pub divergence: Option<String>,
    /// how often an execution did not follow its replayed prefix (the code under test made a choice the scheduler
    /// does not own, e.g. iterated over a randomly seeded hash map).  The first occurrence is reported (machinery,
    /// never a verdict); the search drops the stale suffix and goes on, so that a violation which IS reachable can
    /// still be exhibited; after `MAX_DIVERGENCES` the job stops.
    diverged: u32,
}

const MAX_DIVERGENCES: u32 = 64;

impl Shared {
    pub fn choices(&self) -> Vec<u16> {
        self.stack[..self.cursor.min(self.stack.len())]
            .iter()
            .map(|f| f.chosen)
            .collect()
    }
    pub fn preemptions(&self) -> u32 {
        self.cur_cost
    }
}

/// One unit of exploration: all schedules of `body` within `cfg`.
pub struct Job {
    pub cfg: Cfg,
    pub body: Arc<dyn Fn() + Send + Sync>,
    /// called for every execution that did not run to completion; `false` stops this job
    pub on_abnormal: Box<dyn FnMut(Abnormal, Vec<u16>) -> bool + Send>,
    pub on_done: Box<dyn FnOnce(Outcome) + Send>,
}

/// A session runs many jobs on one long-lived shuttle `Runner` (so that the
/// coroutine stacks are allocated once per OS thread).
pub struct Session {
    dfs: Option<Shared>,
    job: Option<Job>,
    source: Box<dyn FnMut() -> Option<Job> + Send>,
}

pub struct PbDfs(pub Arc<Mutex<Session>>);

fn sig_of(ids: &[usize]) -> u64 {
    let mut h: u64 = 0xcbf29ce484222325;
    for &i in ids {
        h ^= i as u64 + 1;
        h = h.wrapping_mul(0x100000001b3);
    }
    h
}

impl Shared {
    fn choose(&mut self, n: usize, preemptible: bool, sig: u64) -> Option<usize> {
        if self.stop {
            return None;
        }
        if let Some(fx) = &self.fixed {
            let c = fx.get(self.cursor).copied().unwrap_or(0) as usize;
            if c >= n {
                self.divergence = Some(format!(
                    "replay: choice {} out of range {} at point {}",
                    c, n, self.cursor
                ));
                self.stop = true;
                return None;
            }
            if self.cursor >= self.stack.len() {
                self.stack.push(Frame {
                    chosen: c as u16,
                    n: n as u16,
                    cost_before: self.cur_cost,
                    preemptible,
                    sig,
                });
            }
            self.cursor += 1;
            if preemptible && c != 0 {
                self.cur_cost += 1;
            }
            return Some(c);
        }
        let c;
        if self.cursor < self.stack.len() {
            let f = &self.stack[self.cursor];
            if f.n as usize != n || f.sig != sig || f.preemptible != preemptible {
                if self.divergence.is_none() {
                    self.divergence = Some(format!(
                        "divergence at choice point {}: recorded n={} sig={:x} pre={}, now n={} sig={:x} pre={}",
                        self.cursor, f.n, f.sig, f.preemptible, n, sig, preemptible
                    ));
                }
                self.diverged += 1;
                if self.diverged > MAX_DIVERGENCES {
                    self.stop = true;
                    return None;
                }
                // drop the stale suffix and continue this execution with default choices
                self.stack.truncate(self.cursor);
                self.stack.push(Frame { chosen: 0, n: n as u16, cost_before: self.cur_cost, preemptible, sig });
                c = 0;
            } else {
                c = f.chosen as usize;
            }
        } else {
            self.stack.push(Frame {
                chosen: 0,
                n: n as u16,
                cost_before: self.cur_cost,
                preemptible,
                sig,
            });
            self.stats.nodes += 1;
            self.stats.transitions += 1;
            if n > self.stats.max_alts {
                self.stats.max_alts = n;
            }
            c = 0;
        }
        self.cursor += 1;
        if self.cursor > self.stats.max_depth {
            self.stats.max_depth = self.cursor;
        }
        if preemptible && c != 0 {
            self.cur_cost += 1;
            if self.cur_cost > self.stats.max_preemptions_seen {
                self.stats.max_preemptions_seen = self.cur_cost;
            }
        }
        Some(c)
    }
}

impl Shared {
    fn new(cfg: &Cfg) -> Shared {
        Shared {
            bound: cfg.bound,
            all_points: cfg.all_points,
            delay_mode: cfg.delay_mode,
            stack: Vec::new(),
            cursor: 0,
            cur_cost: 0,
            started: false,
            stop: false,
            max_execs: cfg.max_execs,
            deadline: cfg.deadline,
            fixed: cfg.fixed.clone(),
            stats: Stats::default(),
            divergence: None,
            diverged: 0,
        }
    }

    /// prepare the next execution of this job; false = job exhausted
    fn advance(&mut self) -> bool {
        let s = self;
        if s.stop || (s.divergence.is_some() && (s.fixed.is_some() || s.diverged > MAX_DIVERGENCES)) {
            return false;
        }
        if !s.started {
            s.started = true;
        } else {
            if s.fixed.is_some() {
                return false;
            }
            // the previous execution must have consumed its whole prefix
            if s.cursor < s.stack.len() {
                if s.divergence.is_none() {
                    s.divergence = Some(format!(
                        "execution ended after {} choice points but the replayed prefix has {}",
                        s.cursor,
                        s.stack.len()
                    ));
                }
                s.diverged += 1;
                if s.diverged > MAX_DIVERGENCES {
                    return false;
                }
                s.stack.truncate(s.cursor);
            }
            // backtrack
            loop {
                let bound = s.bound;
                match s.stack.last_mut() {
                    None => return false,
                    Some(f) => {
                        let can = (f.chosen as usize + 1) < f.n as usize
                            && (!f.preemptible || f.cost_before < bound);
                        if can {
                            f.chosen += 1;
                            s.stats.transitions += 1;
                            break;
                        } else {
                            s.stack.pop();
                        }
                    }
                }
            }
            if s.stats.executions >= s.max_execs
                || ((s.stats.executions & 15) == 0 && s.deadline.map_or(false, |d| Instant::now() > d))
            {
                s.stats.capped = true;
                s.stop = true;
                return false;
            }
        }
        s.cursor = 0;
        s.cur_cost = 0;
        s.stats.executions += 1;
        true
    }
}

impl Scheduler for PbDfs {
    fn new_execution(&mut self) -> Option<Schedule> {
        let mut guard = self.0.lock().unwrap();
        let s = &mut *guard;
        loop {
            if let Some(dfs) = s.dfs.as_mut() {
                if dfs.advance() {
                    MARK.with(|m| m.set(false));
                    return Some(Schedule::new(0));
                }
                let dfs = s.dfs.take().unwrap();
                if let Some(job) = s.job.take() {
                    (job.on_done)(Outcome { stats: dfs.stats, divergence: dfs.divergence });
                }
            }
            match (s.source)() {
                Some(job) => {
                    s.dfs = Some(Shared::new(&job.cfg));
                    s.job = Some(job);
                }
                None => return None,
            }
        }
    }

    fn next_task(
        &mut self,
        runnable_tasks: &[&Task],
        current_task: Option<TaskId>,
        _is_yielding: bool,
    ) -> Option<TaskId> {
        let marked = MARK.with(|m| m.replace(false));
        let mut guard = self.0.lock().unwrap();
        let s = guard.dfs.as_mut()?;
        // ignore tasks that are only offered for a spurious wake-up
        let mut ids: Vec<(usize, TaskId)> = runnable_tasks
            .iter()
            .filter(|t| t.runnable())
            .map(|t| (usize::from(t.id()), t.id()))
            .collect();
        if ids.is_empty() {
            return runnable_tasks.first().map(|t| t.id());
        }
        ids.sort_by_key(|x| x.0);
        let cur = current_task.map(usize::from);
        let cur_pos = cur.and_then(|c| ids.iter().position(|x| x.0 == c));
        // delay-bounded mode: every deviation from the default choice costs 1,
        // also at points where the running task blocked or ended
        let preemptible = cur_pos.is_some() || s.delay_mode;
        if let Some(p) = cur_pos {
            if !(s.all_points || marked) {
                return Some(ids[p].1);
            }
            let c = ids.remove(p);
            ids.insert(0, c);
        }
        if ids.len() == 1 {
            return Some(ids[0].1);
        }
        let key: Vec<usize> = ids.iter().map(|x| x.0).collect();
        let c = s.choose(ids.len(), preemptible, sig_of(&key))?;
        Some(ids[c].1)
    }

    fn next_u64(&mut self) -> u64 {
        let mut guard = self.0.lock().unwrap();
        match guard.dfs.as_mut().and_then(|s| s.choose(2, false, 0xE17)) {
            Some(c) => c as u64,
            None => 0,
        }
    }
}

#[derive(Clone, Debug)]
pub struct Cfg {
    /// preemption bound; `u32::MAX` = unbounded
    pub bound: u32,
    pub all_points: bool,
    pub max_execs: u64,
    pub deadline: Option<Instant>,
    pub fixed: Option<Vec<u16>>,
    /// delay bounding: `bound` limits all deviations from the default
    /// (non-preemptive, lowest-id-first) scheduler, not only preemptions
    pub delay_mode: bool,
}

impl Default for Cfg {
    fn default() -> Self {
        Cfg {
            bound: 2,
            all_points: false,
            max_execs: u64::MAX,
            deadline: None,
            fixed: None,
            delay_mode: false,
        }
    }
}

#[derive(Debug, Clone)]
pub enum Abnormal {
    Deadlock(String),
    Panic(String),
}

pub struct Outcome {
    pub stats: Stats,
    pub divergence: Option<String>,
}

std::thread_local! {
    static LAST_PANIC: std::cell::RefCell<String> = const { std::cell::RefCell::new(String::new()) };
}

pub fn last_panic_location() -> String {
    LAST_PANIC.with(|l| l.borrow().clone())
}

/// Install the quiet panic hook (records message + location in a thread-local;
/// prints only when VERIF_PANIC_TRACE is set).
pub fn install_quiet_hook() {
    let verbose = std::env::var("VERIF_PANIC_TRACE").is_ok();
    std::panic::set_hook(Box::new(move |info| {
        let msg = format!("{}", info);
        if verbose {
            eprintln!("[panic] {}", msg);
        }
        LAST_PANIC.with(|l| *l.borrow_mut() = msg);
    }));
}

pub fn payload_str(p: &(dyn std::any::Any + Send)) -> String {
    if let Some(s) = p.downcast_ref::<&str>() {
        s.to_string()
    } else if let Some(s) = p.downcast_ref::<String>() {
        s.clone()
    } else if let Some(t) = p.downcast_ref::<crate::hsys::TypedPanic>() {
        t.0.clone()
    } else {
        "<non-string panic payload>".to_string()
    }
}

fn shuttle_config() -> shuttle::Config {
    let mut c = shuttle::Config::new();
    c.failure_persistence = shuttle::FailurePersistence::None;
    c.max_steps = shuttle::MaxSteps::FailAfter(200_000);
    c.silence_warnings = true;
    c.stack_size = 0x40000;
    c
}

/// Run jobs from `source` until it is exhausted, on one long-lived runner.
pub fn run_jobs(source: Box<dyn FnMut() -> Option<Job> + Send>) {
    let session = Arc::new(Mutex::new(Session { dfs: None, job: None, source }));
    let was_controlled = rayon::verif::controlled();
    loop {
        rayon::verif::set_controlled(true);
        let sh = session.clone();
        let sh2 = session.clone();
        CURRENT.with(|c| *c.borrow_mut() = Some(session.clone()));
        let r = catch_unwind(AssertUnwindSafe(move || {
            let runner = shuttle::Runner::new(PbDfs(sh), shuttle_config());
            runner.run(move || {
                static HOOK: std::sync::Once = std::sync::Once::new();
                HOOK.call_once(install_quiet_hook);
                rayon::verif::reset_execution();
                rayon::verif::set_controlled(true);
                let b = sh2.lock().unwrap().job.as_ref().map(|j| j.body.clone());
                if let Some(b) = b {
                    b();
                }
            })
        }));
        match r {
            Ok(_) => break,
            Err(p) => {
                let msg = payload_str(&*p);
                let mut s = session.lock().unwrap();
                let s = &mut *s;
                let (choices, fixed) = match s.dfs.as_mut() {
                    Some(d) => {
                        let c = d.choices();
                        let cur = d.cursor;
                        d.stack.truncate(cur);
                        (c, d.fixed.is_some())
                    }
                    None => (vec![], false),
                };
                let ab = if msg.starts_with("deadlock!") {
                    if let Some(d) = s.dfs.as_mut() {
                        d.stats.deadlocks += 1;
                    }
                    Abnormal::Deadlock(msg)
                } else {
                    Abnormal::Panic(format!("{} @ {}", msg, last_panic_location()))
                };
                let cont = match s.job.as_mut() {
                    Some(j) => (j.on_abnormal)(ab, choices),
                    None => false,
                };
                if !cont || fixed {
                    if let Some(d) = s.dfs.as_mut() {
                        d.stop = true;
                    }
                }
            }
        }
    }
    rayon::verif::set_controlled(was_controlled);
    CURRENT.with(|c| *c.borrow_mut() = None);
}

/// Explore all schedules of `body` within `cfg` (single job).  `on_abnormal`
/// is called for every execution that did not run to completion (deadlock / a
/// task that ended by panicking); returning `false` stops the exploration.
pub fn explore<F, G>(cfg: &Cfg, body: F, on_abnormal: G) -> Outcome
where
    F: Fn() + Send + Sync + 'static,
    G: FnMut(Abnormal, Vec<u16>) -> bool + Send + 'static,
{
    let result: Arc<Mutex<Option<Outcome>>> = Arc::new(Mutex::new(None));
    let r2 = result.clone();
    let mut job = Some(Job {
        cfg: cfg.clone(),
        body: Arc::new(body),
        on_abnormal: Box::new(on_abnormal),
        on_done: Box::new(move |o| *r2.lock().unwrap() = Some(o)),
    });
    run_jobs(Box::new(move || job.take()));
    let o = result.lock().unwrap().take();
    o.unwrap_or(Outcome { stats: Stats::default(), divergence: Some("job did not finish".into()) })
}

std::thread_local! {
    static CURRENT: std::cell::RefCell<Option<Arc<Mutex<Session>>>> = const { std::cell::RefCell::new(None) };
}

/// Choice vector of the execution in progress (for replay files).
pub fn current_choices() -> Vec<u16> {
    CURRENT.with(|c| {
        c.borrow()
            .as_ref()
            .and_then(|s| s.lock().unwrap().dfs.as_ref().map(|d| d.choices()))
            .unwrap_or_default()
    })
}

/// Preemptions used so far by the execution in progress.
pub fn current_preemptions() -> u32 {
    CURRENT.with(|c| {
        c.borrow()
            .as_ref()
            .and_then(|s| s.lock().unwrap().dfs.as_ref().map(|d| d.preemptions()))
            .unwrap_or(0)
    })
}
