//! Observation of one builder state (E1): everything the invariants look at.

use std::panic::{catch_unwind, AssertUnwindSafe};
use std::sync::Arc;

use shred::World;

use crate::hsys::*;
use crate::plan::*;
use crate::sched::payload_str;
use crate::spec::*;

#[derive(Clone, Copy, Default, Debug)]
pub struct Need {
    pub debug: bool,
    pub counters: bool,
    pub setup_dispose: bool,
    pub sendable: bool,
}

#[derive(Clone, Debug, Default)]
pub struct Obs {
    pub calls: Vec<Call>,
    /// Debug text of the top-level builder after the last call
    pub debug: Option<Result<String, String>>,
    pub debug_pretty: Option<Result<String, String>>,
    pub build_panic: Option<String>,
    pub layout: Option<Layout>,
    pub ident_error: Option<String>,
    pub max_threads: usize,
    /// run counters after the script [seq, par, dispatch, thread_local]
    pub runs: Option<Vec<u32>>,
    pub dispatch_panic: Option<String>,
    pub setups: Option<Vec<u32>>,
    pub disposes: Option<Vec<u32>>,
    /// try_into_sendable: Some(Ok(shape)) / Some(Err(()))
    pub sendable: Option<Result<Vec<Vec<usize>>, ()>>,
    pub shape: Vec<Vec<usize>>,
    pub ntl: usize,
    pub harness_errors: Vec<String>,
}

pub fn observe(ops: &[Op], resmap: &[u8], need: Need) -> Obs {
    let info_n = PlanInfo::of(ops).n();
    let ctx = Ctx::new(info_n, resmap.to_vec());
    let mut o = Obs::default();
    let reg = register(ops, &ctx, None, false);
    o.calls = reg.calls;
    if need.debug {
        o.debug = Some(debug_text(&reg.builder));
        o.debug_pretty = Some(
            catch_unwind(AssertUnwindSafe(|| format!("{:#?}", reg.builder))).map_err(|p| payload_str(&*p)),
        );
    }
    let mut d = match build(reg.builder) {
        Ok(d) => d,
        Err(e) => {
            o.build_panic = Some(e);
            return o;
        }
    };
    o.max_threads = d.max_threads();
    let (shape, ntl) = d.verif_layout();
    o.shape = shape;
    o.ntl = ntl;
    let world = new_world();
    match identify(&mut d, &ctx, &world) {
        Ok(l) => o.layout = Some(l),
        Err(e) => o.ident_error = Some(e),
    }
    if need.setup_dispose {
        let mut w = World::empty();
        let r = catch_unwind(AssertUnwindSafe(|| d.setup(&mut w)));
        if let Err(p) = r {
            o.dispatch_panic = Some(format!("setup: {}", payload_str(&*p)));
        }
        o.setups = Some(ctx.setups.lock().unwrap().clone());
    }
    if need.counters {
        let r = catch_unwind(AssertUnwindSafe(|| {
            ctx.dispatch_no.store(1, std::sync::atomic::Ordering::Relaxed);
            d.dispatch_seq(&world);
            ctx.dispatch_no.store(2, std::sync::atomic::Ordering::Relaxed);
            d.dispatch_par(&world);
            ctx.dispatch_no.store(3, std::sync::atomic::Ordering::Relaxed);
            d.dispatch(&world);
            ctx.dispatch_no.store(4, std::sync::atomic::Ordering::Relaxed);
            d.dispatch_thread_local(&world);
        }));
        if let Err(p) = r {
            o.dispatch_panic = Some(payload_str(&*p));
        }
        o.runs = Some(ctx.runs.lock().unwrap().clone());
        ctx.take_log();
    }
    if need.setup_dispose {
        let mut w = World::empty();
        let r = catch_unwind(AssertUnwindSafe(|| d.dispose(&mut w)));
        if let Err(p) = r {
            o.dispatch_panic = Some(format!("dispose: {}", payload_str(&*p)));
        }
        o.disposes = Some(ctx.disposes.lock().unwrap().clone());
    } else if need.sendable {
        o.sendable = Some(match d.try_into_sendable() {
            Ok(sd) => Ok(sd.verif_layout()),
            Err(_) => Err(()),
        });
    }
    o.harness_errors = ctx.errors.lock().unwrap().clone();
    o
}

/// Just the layout (used by metamorphic comparisons).
pub fn layout_of(ops: &[Op], resmap: &[u8]) -> Result<Layout, String> {
    let o = observe(ops, resmap, Need::default());
    if let Some(c) = o.calls.iter().find(|c| c.panic.is_some()) {
        return Err(format!("call {:?} panicked: {}", c.path, c.panic.clone().unwrap()));
    }
    if let Some(e) = o.build_panic {
        return Err(format!("build panicked: {}", e));
    }
    if let Some(e) = o.ident_error {
        return Err(format!("identify: {}", e));
    }
    Ok(o.layout.unwrap())
}

#[allow(dead_code)]
fn _keep(_: Arc<Ctx>) {}
