//! Observation of one builder state (E1): everything the invariants look at.

use std::panic::{catch_unwind, AssertUnwindSafe};
use std::sync::Arc;

use shred::World;

use crate::hsys::*;
use crate::plan::*;
use crate::sched::payload_str;
use crate::spec::*;

#[derive(Clone, Copy, Default, Debug)]
pub struct Need {
    pub debug: bool,
    pub counters: bool,
    pub setup_dispose: bool,
    pub sendable: bool,
}

#[derive(Clone, Debug, Default)]
pub struct Obs {
    pub calls: Vec<Call>,
    /// Debug text of the top-level builder after the last call
    pub debug: Option<Result<String, String>>,
    pub debug_pretty: Option<Result<String, String>>,
    /// final `{:?}` / `{:#?}` text and built shape of a second builder that was formatted (both ways) after every
    /// top-level call: printing is an observation, so neither may differ from the builder printed once
    pub debug_stepwise: Option<(Result<String, String>, Result<String, String>, Option<Vec<Vec<usize>>>)>,
    /// `{:?}` text of the same registrations with every non-empty top-level name replaced by a fresh, separator-free
    /// one: what is printed for an UNNAMED system cannot depend on what the other systems are called
    pub debug_renamed: Option<Result<String, String>>,
    pub build_panic: Option<String>,
    pub layout: Option<Layout>,
    /// executed layout of the SAME dispatcher identified again after it has been used: after one clean dispatch,
    /// and after a dispatch in which one system panicked (caught by the caller) - (what happened, layout or error)
    pub layout_after_use: Vec<(String, Result<Layout, String>)>,
    pub ident_error: Option<String>,
    pub max_threads: usize,
    /// run counters after the script [seq, par, dispatch, thread_local, run_now, dispatch on a second world, dispatch on the first again, dispatch from a destructor during unwinding]
    pub runs: Option<Vec<u32>>,
    pub dispatch_panic: Option<String>,
    /// two dispatches on a world from which abstract resource A (0) / C (2) has been removed, for plans in which only
    /// `Option<Read>` / `Option<Write>` members name it: (resource, run counters, panic)
    pub runs_absent: Vec<(u8, Vec<u32>, Option<String>)>,
    /// run counters that differ from `runs` when the default pool has that many threads
    pub runs_by_pool: Vec<(usize, Vec<u32>)>,
    pub setups: Option<Vec<u32>>,
    /// after a second setup on a fully populated world
    pub setups2: Option<Vec<u32>>,
    pub disposes: Option<Vec<u32>>,
    /// how often each system ran in one `RunNow::run_now` of the dispatcher (C12: the thread-local ones too)
    pub runs_by_run_now: Option<Vec<u32>>,
    /// the same counters when the dispatcher is set up and disposed through its `RunNow` implementation
    /// (which is how it is driven when it is registered as a thread-local system of another dispatcher)
    pub setups_via_run_now: Option<Vec<u32>>,
    pub disposes_via_run_now: Option<Vec<u32>>,
    /// try_into_sendable: Some(Ok(shape)) / Some(Err(()))
    pub sendable: Option<Result<Vec<Vec<usize>>, ()>>,
    /// the sendable form used directly: (order in which its dispatch_seq begins the top-level members, run counters
    /// after dispatch_seq + dispatch_par + dispatch, a call panicked)
    pub sendable_use: Option<(Vec<usize>, Vec<u32>, Option<String>)>,
    /// setup / dispose counters when the dispatcher is converted first and the SENDABLE form is set up and disposed
    pub setups_via_sendable: Option<(Vec<u32>, Vec<u32>)>,
    /// after a rejected try_into_sendable: (a dispatch of the dispatcher handed back completed, run counters of that
    /// dispatch, its identified layout, a second conversion succeeded)
    pub after_rejected_conversion: Option<(bool, Vec<u32>, Option<Layout>, bool)>,
    pub shape: Vec<Vec<usize>>,
    pub ntl: usize,
    /// world side of setup: for every subset (bit 0 = A, bit 1 = C) of pre-inserted sentinels, the values of
    /// (A, C) after `setup`, after a second `setup`, and after `setup; remove A and C; setup`
    /// (None = absent); plus whether anything else appeared in the world
    pub setup_worlds: Vec<(u8, [Option<u64>; 2], [Option<u64>; 2], [Option<u64>; 2], bool)>,
    pub harness_errors: Vec<String>,
}

std::thread_local! {
    /// attach a user-supplied pool of that many threads to every builder `observe` makes on this thread, BEFORE the
    /// registrations (the plan must not depend on the pool)
    static E1_USER_POOL: std::cell::Cell<Option<usize>> = const { std::cell::Cell::new(None) };
}

pub fn set_e1_user_pool(n: Option<usize>) {
    E1_USER_POOL.with(|c| c.set(n));
}

pub fn observe(ops: &[Op], resmap: &[u8], need: Need) -> Obs {
    let info_n = PlanInfo::of(ops).n();
    let ctx = Ctx::new(info_n, resmap.to_vec());
    let mut o = Obs::default();
    let pool = E1_USER_POOL.with(|c| c.get()).map(|n| Arc::new(rayon::ThreadPoolBuilder::new().num_threads(n).build().unwrap()));
    let reg = register(ops, &ctx, pool, false);
    o.calls = reg.calls;
    if need.debug {
        o.debug = Some(debug_text(&reg.builder));
        o.debug_pretty = Some(
            catch_unwind(AssertUnwindSafe(|| format!("{:#?}", reg.builder))).map_err(|p| payload_str(&*p)),
        );
    }
    if need.debug && ops.iter().any(|o| matches!(o, Op::Sys(x) if x.name.is_empty()) || matches!(o, Op::Batch(b) if b.name.is_empty())) && o.calls.iter().all(|c| c.panic.is_none()) {
        let mut names: Vec<String> = Vec::new();
        for op in ops {
            let n = match op {
                Op::Sys(x) => &x.name,
                Op::Batch(b) => &b.name,
                Op::Static(st) => &st.name,
                _ => continue,
            };
            if !n.is_empty() && !names.contains(n) {
                names.push(n.clone());
            }
        }
        let f = |s: &String| -> String { names.iter().position(|x| x == s).map_or_else(|| s.clone(), |k| format!("renamed{}", k)) };
        let ops2: Vec<Op> = ops
            .iter()
            .map(|op| match op {
                Op::Sys(x) => Op::Sys(SysSpec { name: if x.name.is_empty() { String::new() } else { f(&x.name) }, deps: x.deps.iter().map(&f).collect(), ..x.clone() }),
                Op::Batch(b) => Op::Batch(BatchSpec { name: if b.name.is_empty() { String::new() } else { f(&b.name) }, deps: b.deps.iter().map(&f).collect(), ..b.clone() }),
                Op::Static(st) => Op::Static(StaticSpec { name: if st.name.is_empty() { String::new() } else { f(&st.name) }, deps: st.deps.iter().map(&f).collect(), ..st.clone() }),
                x => x.clone(),
            })
            .collect();
        let ctx_r = Ctx::new(info_n, resmap.to_vec());
        let reg_r = register(&ops2, &ctx_r, None, false);
        if reg_r.calls.iter().all(|c| c.panic.is_none()) {
            o.debug_renamed = Some(debug_text(&reg_r.builder));
        }
    }
    if need.debug {
        let ctx_s = Ctx::new(info_n, resmap.to_vec());
        let mut b = shred::DispatcherBuilder::new();
        let mut calls = Vec::new();
        let (mut next_id, mut path) = (0, Vec::new());
        for (i, op) in ops.iter().enumerate() {
            path.push(i);
            register_ops_step(&mut b, std::slice::from_ref(op), &mut next_id, &mut path, &ctx_s, &mut calls);
            path.pop();
            let _ = debug_text(&b);
            let _ = catch_unwind(AssertUnwindSafe(|| format!("{:#?}", b)));
        }
        let t1 = debug_text(&b);
        let t2 = catch_unwind(AssertUnwindSafe(|| format!("{:#?}", b))).map_err(|p| payload_str(&*p));
        let shape = build(b).ok().map(|d| d.verif_layout().0);
        o.debug_stepwise = Some((t1, t2, shape));
    }
    let mut d = match build(reg.builder) {
        Ok(d) => d,
        Err(e) => {
            o.build_panic = Some(e);
            return o;
        }
    };
    o.max_threads = d.max_threads();
    let (shape, ntl) = d.verif_layout();
    o.shape = shape;
    o.ntl = ntl;
    let world = if resmap.iter().any(|c| *c as usize >= NCONCRETE) { new_world_wide() } else { new_world() };
    match identify(&mut d, &ctx, &world) {
        Ok(l) => o.layout = Some(l),
        Err(e) => o.ident_error = Some(e),
    }
    if need.debug && o.layout.is_some() {
        // the printed plan describes the built dispatcher for as long as it lives: identify it again after use
        let r = catch_unwind(AssertUnwindSafe(|| d.dispatch(&world)));
        if r.is_ok() {
            o.layout_after_use.push(("one clean dispatch".into(), identify(&mut d, &ctx, &world)));
            let info = PlanInfo::of(ops);
            if let Some(victim) = info.nodes.iter().find(|n| n.kind == crate::spec::Kind::Sys && !n.is_static) {
                ctx.beh.lock().unwrap()[victim.id] = crate::hsys::Beh::PanicRun(u16::MAX);
                let r = catch_unwind(AssertUnwindSafe(|| d.dispatch(&world)));
                ctx.beh.lock().unwrap()[victim.id] = crate::hsys::Beh::Normal;
                if r.is_err() && crate::hsys::world_borrow_state(&world).iter().all(|b| *b == 0) {
                    o.layout_after_use.push((format!("a dispatch in which system {} panicked (caught)", victim.id), identify(&mut d, &ctx, &world)));
                }
            }
        }
        ctx.take_log();
        for r in ctx.runs.lock().unwrap().iter_mut() {
            *r = 0;
        }
    }
    if need.setup_dispose {
        let mut w = World::empty();
        let r = catch_unwind(AssertUnwindSafe(|| d.setup(&mut w)));
        if let Err(p) = r {
            o.dispatch_panic = Some(format!("setup: {}", payload_str(&*p)));
        }
        o.setups = Some(ctx.setups.lock().unwrap().clone());
        // a second setup, on a world in which every resource of the universe already exists
        let mut w2 = new_world();
        let r = catch_unwind(AssertUnwindSafe(|| d.setup(&mut w2)));
        if let Err(p) = r {
            o.dispatch_panic = Some(format!("second setup: {}", payload_str(&*p)));
        }
        o.setups2 = Some(ctx.setups.lock().unwrap().clone());
        if world_values(&w2) != INIT_VALUES.to_vec() {
            o.dispatch_panic = Some(format!("setup on a populated world changed it: {:?}", world_values(&w2)));
        }
    }
    if need.counters {
        let r = catch_unwind(AssertUnwindSafe(|| {
            ctx.dispatch_no.store(1, std::sync::atomic::Ordering::Relaxed);
            d.dispatch_seq(&world);
            ctx.dispatch_no.store(2, std::sync::atomic::Ordering::Relaxed);
            d.dispatch_par(&world);
            ctx.dispatch_no.store(3, std::sync::atomic::Ordering::Relaxed);
            d.dispatch(&world);
            ctx.dispatch_no.store(4, std::sync::atomic::Ordering::Relaxed);
            d.dispatch_thread_local(&world);
            // a dispatcher is itself something that can be run (it can be registered as a thread-local
            // system of another dispatcher): that is one more full dispatch
            ctx.dispatch_no.store(5, std::sync::atomic::Ordering::Relaxed);
            shred::RunNow::run_now(&mut d, &world);
            // the same dispatcher on a second world, then on the first one again: two more dispatches
            let world2 = if resmap.iter().any(|c| *c as usize >= NCONCRETE) { new_world_wide() } else { new_world() };
            ctx.dispatch_no.store(6, std::sync::atomic::Ordering::Relaxed);
            d.dispatch(&world2);
            ctx.dispatch_no.store(7, std::sync::atomic::Ordering::Relaxed);
            d.dispatch(&world);
            // one more dispatch, issued from a destructor while the calling thread unwinds from a panic (a final
            // "flush" in a Drop impl): a dispatch like any other
            ctx.dispatch_no.store(8, std::sync::atomic::Ordering::Relaxed);
            struct OnUnwind<'x, 'a, 'b>(&'x mut shred::Dispatcher<'a, 'b>, &'x World);
            impl<'x, 'a, 'b> Drop for OnUnwind<'x, 'a, 'b> {
                fn drop(&mut self) {
                    self.0.dispatch(self.1);
                }
            }
            let _ = catch_unwind(AssertUnwindSafe(|| {
                let _g = OnUnwind(&mut d, &world);
                std::panic::resume_unwind(Box::new(0u8));
            }));
        }));
        if let Err(p) = r {
            o.dispatch_panic = Some(payload_str(&*p));
        }
        o.runs = Some(ctx.runs.lock().unwrap().clone());
        ctx.take_log();
        // a resource that only optional members name is absent at dispatch time: every system runs all the same
        fn tolerates(ops: &[Op], missing: u8, opt_seen: &mut bool) -> bool {
            ops.iter().all(|op| match op {
                Op::Barrier => true,
                Op::Sys(x) | Op::Tl(x) => !x.reads.contains(&missing) && !x.writes.contains(&missing),
                Op::Static(st) => match (st.data, missing) {
                    (StaticData::OptReadA, 0) | (StaticData::OptWriteC, 2) => {
                        *opt_seen = true;
                        true
                    }
                    (d, m) => !d.reads().contains(&m) && !d.writes().contains(&m),
                },
                Op::Batch(b) => {
                    let ctrl_ok = if matches!(b.ctrl, CtrlData::OptReadA | CtrlData::DerOptReadAWriteC) && missing == 0 {
                        *opt_seen = true;
                        true
                    } else {
                        !b.ctrl.reads().contains(&missing) && !b.ctrl.writes().contains(&missing)
                    };
                    ctrl_ok && tolerates(&b.inner, missing, opt_seen)
                }
            })
        }
        if resmap == Ctx::identity_map().as_slice() {
            for missing in [0u8, 2] {
                let mut opt_seen = false;
                if !(tolerates(ops, missing, &mut opt_seen) && opt_seen) {
                    continue;
                }
                let ctx5 = Ctx::new(info_n, resmap.to_vec());
                let reg5 = register(ops, &ctx5, None, false);
                if let Ok(mut d5) = build(reg5.builder) {
                    let mut w5 = new_world();
                    if missing == 0 {
                        drop(w5.remove::<Cell0>());
                    } else {
                        drop(w5.remove::<Cell1>());
                    }
                    let r = catch_unwind(AssertUnwindSafe(|| {
                        d5.dispatch(&w5);
                        d5.dispatch(&w5);
                    }));
                    o.runs_absent.push((missing, ctx5.runs.lock().unwrap().clone(), r.err().map(|p| payload_str(&*p))));
                }
            }
        }
        // the same script with default pools of 1, 2 and 3 threads (code that looks at the pool size)
        if o.dispatch_panic.is_none() {
            for n in [1usize, 2, 3] {
                rayon::verif::set_default_threads(Some(n));
                let ctx2 = Ctx::new(info_n, resmap.to_vec());
                let reg2 = register(ops, &ctx2, None, false);
                if let Ok(mut d2) = build(reg2.builder) {
                    let r = catch_unwind(AssertUnwindSafe(|| {
                        d2.dispatch_seq(&world);
                        d2.dispatch_par(&world);
                        d2.dispatch(&world);
                        d2.dispatch_thread_local(&world);
                        shred::RunNow::run_now(&mut d2, &world);
                        let world2 = if resmap.iter().any(|c| *c as usize >= NCONCRETE) { new_world_wide() } else { new_world() };
                        d2.dispatch(&world2);
                        d2.dispatch(&world);
                        struct OnUnwind2<'x, 'a, 'b>(&'x mut shred::Dispatcher<'a, 'b>, &'x World);
                        impl<'x, 'a, 'b> Drop for OnUnwind2<'x, 'a, 'b> {
                            fn drop(&mut self) {
                                self.0.dispatch(self.1);
                            }
                        }
                        let _ = catch_unwind(AssertUnwindSafe(|| {
                            let _g = OnUnwind2(&mut d2, &world);
                            std::panic::resume_unwind(Box::new(0u8));
                        }));
                    }));
                    if let Err(p) = r {
                        o.dispatch_panic = Some(format!("default pool of {} threads: {}", n, payload_str(&*p)));
                    }
                    let r2 = ctx2.runs.lock().unwrap().clone();
                    if Some(&r2) != o.runs.as_ref() {
                        o.runs_by_pool.push((n, r2));
                    }
                }
                rayon::verif::set_default_threads(None);
            }
        }
    }
    if need.setup_dispose {
        let mut w = World::empty();
        let r = catch_unwind(AssertUnwindSafe(|| d.dispose(&mut w)));
        if let Err(p) = r {
            o.dispatch_panic = Some(format!("dispose: {}", payload_str(&*p)));
        }
        o.disposes = Some(ctx.disposes.lock().unwrap().clone());
    } else if need.sendable {
        {
            let before = ctx.runs.lock().unwrap().clone();
            let r = catch_unwind(AssertUnwindSafe(|| shred::RunNow::run_now(&mut d, &world)));
            if r.is_ok() {
                let after = ctx.runs.lock().unwrap().clone();
                o.runs_by_run_now = Some(after.iter().zip(before.iter()).map(|(a, b)| a - b).collect());
            }
            ctx.take_log();
        }
        o.sendable = Some(match d.try_into_sendable() {
            Ok(mut sd) => {
                // "the conversion preserves its plan": the sendable form is used directly, on a world of its own
                let shape = sd.verif_layout();
                let info = PlanInfo::of(ops);
                let before = ctx.runs.lock().unwrap().clone();
                ctx.take_log();
                let w2 = if resmap.iter().any(|c| *c as usize >= NCONCRETE) { new_world_wide() } else { new_world() };
                let r = catch_unwind(AssertUnwindSafe(|| {
                    sd.dispatch_seq(&w2);
                }));
                let order: Vec<usize> = ctx
                    .take_log()
                    .iter()
                    .filter(|e| info.nodes.get(e.sys as usize).map_or(false, |n| n.parent.is_none() && match n.kind { crate::spec::Kind::Batch => matches!(e.kind, Ev::CtrlBegin | Ev::Plan), _ => e.kind == Ev::FetchBegin }))
                    .map(|e| e.sys as usize)
                    .collect();
                let r2 = catch_unwind(AssertUnwindSafe(|| {
                    sd.dispatch_par(&w2);
                    sd.dispatch(&w2);
                }));
                let after = ctx.runs.lock().unwrap().clone();
                ctx.take_log();
                let panic = r.err().or(r2.err()).map(|p| payload_str(&*p));
                o.sendable_use = Some((order, after.iter().zip(before.iter()).map(|(a, b)| a - b).collect(), panic));
                Ok(shape)
            }
            Err(mut back) => {
                // a rejected conversion hands the ORIGINAL dispatcher back: it goes on working, thread-local systems
                // included, and a second conversion is rejected again
                let before = ctx.runs.lock().unwrap().clone();
                let r = catch_unwind(AssertUnwindSafe(|| back.dispatch(&world)));
                let after = ctx.runs.lock().unwrap().clone();
                let layout_back = identify(&mut back, &ctx, &world).ok();
                let again = back.try_into_sendable().is_ok();
                o.after_rejected_conversion = Some((r.is_ok(), after.iter().zip(before.iter()).map(|(a, b)| a - b).collect(), layout_back, again));
                ctx.take_log();
                Err(())
            }
        });
    }
    if need.setup_dispose && all_ok(&o) {
        // converted first: setup and dispose of the SENDABLE form reach every system once as well
        {
            let ctx4 = Ctx::new(info_n, resmap.to_vec());
            let reg4 = register(ops, &ctx4, None, false);
            if let Ok(d4) = build(reg4.builder) {
                if let Ok(mut sd) = d4.try_into_sendable() {
                    let mut w = World::empty();
                    let r = catch_unwind(AssertUnwindSafe(move || {
                        sd.setup(&mut w);
                        sd.dispose(&mut w);
                    }));
                    if let Err(p) = r {
                        o.dispatch_panic = Some(format!("setup / dispose of the sendable form: {}", payload_str(&*p)));
                    }
                    o.setups_via_sendable = Some((ctx4.setups.lock().unwrap().clone(), ctx4.disposes.lock().unwrap().clone()));
                }
            }
        }
        o.setup_worlds = setup_worlds(ops, resmap);
        let ctx3 = Ctx::new(info_n, resmap.to_vec());
        let reg3 = register(ops, &ctx3, None, false);
        if let Ok(d3) = build(reg3.builder) {
            let mut w = World::empty();
            let r = catch_unwind(AssertUnwindSafe(move || {
                let mut b: Box<dyn shred::RunNow<'static> + 'static> = Box::new(d3);
                b.setup(&mut w);
                b.dispose(&mut w);
            }));
            if let Err(p) = r {
                o.dispatch_panic = Some(format!("setup / dispose through RunNow: {}", payload_str(&*p)));
            }
            o.setups_via_run_now = Some(ctx3.setups.lock().unwrap().clone());
            o.disposes_via_run_now = Some(ctx3.disposes.lock().unwrap().clone());
        }
    }
    o.harness_errors = ctx.errors.lock().unwrap().clone();
    o
}

fn all_ok(o: &Obs) -> bool {
    o.calls.iter().all(|c| c.panic.is_none()) && o.build_panic.is_none()
}

const SENT_A: u64 = 7_770;
const SENT_C: u64 = 7_772;

fn ac(w: &World) -> [Option<u64>; 2] {
    [w.try_fetch::<Cell0>().map(|x| x.0), w.try_fetch::<Cell1>().map(|x| x.0)]
}

fn others_present(w: &World) -> bool {
    // any of the other resources of the concrete universe
    [1u8, 3, 4, 5].iter().any(|c| w.has_value_raw(concrete_id(*c)))
}

fn setup_worlds(ops: &[Op], resmap: &[u8]) -> Vec<(u8, [Option<u64>; 2], [Option<u64>; 2], [Option<u64>; 2], bool)> {
    let mut out = Vec::new();
    // bit 0: A pre-inserted, bit 1: C pre-inserted, bit 2: the world holds "decoys" - resources of the same two
    // Rust types under other dynamic ids, which no statically typed data names
    for mask in 0..8u8 {
        let n = PlanInfo::of(ops).n();
        let ctx = Ctx::new(n, resmap.to_vec());
        let reg = register(ops, &ctx, None, false);
        let mut d = match build(reg.builder) {
            Ok(d) => d,
            Err(_) => continue,
        };
        let mut w = World::empty();
        if mask & 1 != 0 {
            w.insert(Cell0(SENT_A));
        }
        if mask & 2 != 0 {
            w.insert(Cell1(SENT_C));
        }
        let decoys = mask & 4 != 0;
        if decoys {
            for c in [1u8, 4] {
                w.insert_by_id(concrete_id(c), Cell0(9_000 + c as u64));
            }
            for c in [3u8, 5] {
                w.insert_by_id(concrete_id(c), Cell1(9_000 + c as u64));
            }
        }
        let decoys_intact = |w: &World| -> bool {
            [1u8, 4].iter().all(|c| w.try_fetch_by_id::<Cell0>(concrete_id(*c)).map(|x| x.0) == Some(9_000 + *c as u64)) && [3u8, 5].iter().all(|c| w.try_fetch_by_id::<Cell1>(concrete_id(*c)).map(|x| x.0) == Some(9_000 + *c as u64))
        };
        let r = catch_unwind(AssertUnwindSafe(|| {
            d.setup(&mut w);
            let first = ac(&w);
            d.setup(&mut w);
            let second = ac(&w);
            let extra = if decoys { !decoys_intact(&w) } else { others_present(&w) };
            w.remove::<Cell0>();
            w.remove::<Cell1>();
            d.setup(&mut w);
            (first, second, ac(&w), extra)
        }));
        if let Ok((a, b, c, e)) = r {
            out.push((mask, a, b, c, e));
        }
    }
    out
}

/// Just the layout (used by metamorphic comparisons).
pub fn layout_of(ops: &[Op], resmap: &[u8]) -> Result<Layout, String> {
    let o = observe(ops, resmap, Need::default());
    if let Some(c) = o.calls.iter().find(|c| c.panic.is_some()) {
        return Err(format!("call {:?} panicked: {}", c.path, c.panic.clone().unwrap()));
    }
    if let Some(e) = o.build_panic {
        return Err(format!("build panicked: {}", e));
    }
    if let Some(e) = o.ident_error {
        return Err(format!("identify: {}", e));
    }
    Ok(o.layout.unwrap())
}

/// Layout of `ops` when its builder is filled call by call in alternation with a second, independent builder
/// (`other`), both alive at once; the other one is built first.  A builder's plan is a function of its own calls.
pub fn layout_interleaved(ops: &[Op], other: &[Op], resmap: &[u8]) -> Result<Layout, String> {
    let ctx1 = Ctx::new(PlanInfo::of(ops).n(), resmap.to_vec());
    let ctx2 = Ctx::new(PlanInfo::of(other).n(), resmap.to_vec());
    let (mut b1, mut b2) = (shred::DispatcherBuilder::new(), shred::DispatcherBuilder::new());
    let (mut calls1, mut calls2) = (Vec::new(), Vec::new());
    let (mut n1, mut n2, mut path) = (0usize, 0usize, Vec::new());
    for i in 0..ops.len().max(other.len()) {
        if let Some(op) = other.get(i) {
            path.push(i);
            register_ops_step(&mut b2, std::slice::from_ref(op), &mut n2, &mut path, &ctx2, &mut calls2);
            path.pop();
        }
        if let Some(op) = ops.get(i) {
            path.push(i);
            register_ops_step(&mut b1, std::slice::from_ref(op), &mut n1, &mut path, &ctx1, &mut calls1);
            path.pop();
        }
    }
    if let Some(c) = calls1.iter().find(|c| c.panic.is_some()) {
        return Err(format!("call {:?} panicked: {}", c.path, c.panic.clone().unwrap()));
    }
    // the second builder's dispatcher stays alive while the first one is built and identified
    let d2 = if calls2.iter().all(|c| c.panic.is_none()) { build(b2).ok() } else { None };
    let mut d1 = build(b1).map_err(|e| format!("build panicked: {}", e))?;
    let world = if resmap.iter().any(|c| *c as usize >= NCONCRETE) { new_world_wide() } else { new_world() };
    let l = identify(&mut d1, &ctx1, &world).map_err(|e| format!("identify: {}", e));
    drop(d2);
    l
}

#[allow(dead_code)]
fn _keep(_: Arc<Ctx>) {}
