//! Per-property check definitions: which engines / profiles / bounds run for
//! which property and tier, and the evidence fragment they produce.

use std::time::{Duration, Instant};

use serde_json::{json, Value};

use crate::inv::Props;
use crate::obs::Need;
use crate::planmc::*;
use crate::report::{conclude, Collector};

#[derive(Clone, Copy, PartialEq, Eq, Debug)]
pub enum Tier {
    Quick,
    Thorough,
}

pub struct Frag {
    pub parts: Vec<Value>,
    pub states: u64,
    pub transitions: u64,
    pub traces_validated: u64,
    pub samples: Vec<Value>,
    pub exhaustive: bool,
    pub col: Collector,
    pub assumptions: Vec<String>,
    pub extra: serde_json::Map<String, Value>,
}

impl Frag {
    pub fn new() -> Frag {
        Frag { parts: vec![], states: 0, transitions: 0, traces_validated: 0, samples: vec![], exhaustive: true, col: Collector::default(), assumptions: vec![], extra: Default::default() }
    }
}

pub fn threads() -> usize {
    std::env::var("VERIF_THREADS").ok().and_then(|s| s.parse().ok()).unwrap_or_else(|| std::thread::available_parallelism().map(|n| n.get()).unwrap_or(8))
}

fn acc(list: &[(&[u8], &[u8])]) -> Vec<(Vec<u8>, Vec<u8>)> {
    list.iter().map(|(r, w)| (r.to_vec(), w.to_vec())).collect()
}

pub struct E1Job {
    pub profile: Profile,
    pub depth: usize,
}

/// E1 jobs per property and tier.
pub fn e1_jobs(prop: &str, tier: Tier) -> (Vec<E1Job>, usize) {
    let q = tier == Tier::Quick;
    let b_acc = acc(&[(&[], &[]), (&[0], &[]), (&[], &[0]), (&[], &[1]), (&[0], &[1])]);
    let b_small = acc(&[(&[], &[]), (&[0], &[]), (&[], &[0])]);
    let d_acc = acc(&[(&[], &[]), (&[0], &[]), (&[], &[0]), (&[], &[1])]);
    let pa = |d| E1Job { profile: Profile::A { times: vec![1, 3, 5] }, depth: d };
    let pa1 = |d| E1Job { profile: Profile::A { times: vec![3] }, depth: d };
    let pb = |d| E1Job { profile: Profile::B { access: b_acc.clone(), times: vec![3, 5], unnamed: true, dup: true, pairs: true }, depth: d };
    let pbs = |d| E1Job { profile: Profile::B { access: b_small.clone(), times: vec![3], unnamed: false, dup: true, pairs: true }, depth: d };
    let pc = |d| E1Job { profile: Profile::C { times: vec![1, 5] }, depth: d };
    let pd = |d| E1Job { profile: Profile::D { access: d_acc.clone() }, depth: d };
    let pe = |m, rich, d| E1Job { profile: Profile::E { inner_max: m, rich }, depth: d };
    let pf = |d| E1Job { profile: Profile::F, depth: d };
    let pn = |d| E1Job { profile: Profile::N, depth: d };
    let pill = |d| E1Job { profile: Profile::Ill, depth: d };
    let fam = if q { 64 } else { 400 };
    let jobs = match prop {
        "C01" => if q { vec![pa(3), pbs(4), pc(6), pd(4), pe(1, true, 2)] } else { vec![pa(3), pa1(4), pb(4), pc(8), pd(6), pe(2, true, 2), pe(1, false, 3)] },
        "C02" => if q { vec![pb(3), pbs(4), pd(5)] } else { vec![pb(4), pbs(5), pd(6)] },
        "C03" => if q { vec![pd(5), pf(4), pe(1, true, 2)] } else { vec![pd(7), pf(5), pe(2, true, 2)] },
        "C04" => if q { vec![pa1(3), pbs(3), pc(6), pd(4), pe(1, true, 2), pf(4)] } else { vec![pa(3), pbs(4), pc(8), pd(5), pe(2, true, 2), pf(5)] },
        "C07" => if q { vec![pe(1, true, 2), pe(2, true, 1), pe(1, false, 3)] } else { vec![pe(2, true, 2), pe(1, true, 3)] },
        "C10" => if q { vec![pa(3), pb(3), pbs(4), pc(6), pd(5)] } else { vec![pa(3), pa1(4), pb(4), pbs(5), pc(8), pd(7)] },
        "C12" => if q { vec![pf(4)] } else { vec![pf(6)] },
        "C13" => if q { vec![pf(4), pe(1, true, 2)] } else { vec![pf(5), pe(2, true, 2)] },
        "C18" => if q { vec![pill(4), pc(7), pbs(3), pn(3)] } else { vec![pill(5), pc(9), pb(4), pn(4), pe(1, true, 2)] },
        "C20" => if q { vec![pn(4), pbs(3), pc(6), pd(4), pe(1, false, 2)] } else { vec![pn(5), pb(4), pc(8), pd(6), pe(1, true, 2)] },
        _ => vec![],
    };
    let fam_n = match prop {
        "C01" | "C02" | "C04" | "C10" | "C18" | "C20" | "C03" => fam,
        _ => 0,
    };
    (jobs, fam_n)
}

pub fn need_for(prop: &str) -> Need {
    Need {
        debug: matches!(prop, "C20" | "C18"),
        counters: prop == "C04",
        setup_dispose: prop == "C13",
        sendable: prop == "C12",
    }
}

/// Run the E1 part of a property check.
pub fn run_e1(prop: &str, tier: Tier, budget: Duration, frag: &mut Frag) {
    let (jobs, fam_n) = e1_jobs(prop, tier);
    if jobs.is_empty() && fam_n == 0 {
        return;
    }
    let props = Props::from_list(&[prop]);
    let need = need_for(prop);
    run_regressions(prop, frag);
    let start = Instant::now();
    let njobs = jobs.len() + if fam_n > 0 { 1 } else { 0 };
    for (k, job) in jobs.iter().enumerate() {
        // share the remaining budget evenly over the remaining jobs
        let remaining = budget.saturating_sub(start.elapsed());
        let share = remaining / (njobs - k) as u32;
        let t0 = Instant::now();
        let run = E1Run { profile: &job.profile, depth: job.depth, props, need, deadline: t0 + share, threads: threads() };
        let r = run_profile(&run);
        let wall = t0.elapsed().as_secs_f64();
        frag.parts.push(stats_json(&job.profile.label(), job.depth, &r, wall));
        frag.states += r.stats.states;
        frag.transitions += r.stats.transitions;
        frag.traces_validated += r.stats.states;
        frag.exhaustive &= !r.stats.capped;
        if frag.samples.len() < 6 {
            frag.samples.extend(r.samples.into_iter().take(2));
        }
        frag.col.merge(r.col);
    }
    if fam_n > 0 {
        let t0 = Instant::now();
        let remaining = budget.saturating_sub(start.elapsed()).max(Duration::from_secs(5));
        let r = run_families(fam_n, props, need, t0 + remaining, threads());
        let wall = t0.elapsed().as_secs_f64();
        frag.parts.push(stats_json(&format!("G(parametric families, every n in 1..{})", fam_n), fam_n, &r, wall));
        frag.states += r.stats.states;
        frag.transitions += r.stats.transitions;
        frag.traces_validated += r.stats.states;
        frag.exhaustive &= !r.stats.capped;
        frag.samples.extend(r.samples.into_iter().take(1));
        frag.col.merge(r.col);
    }
}

pub fn finish(prop: &str, tier: Tier, frag: Frag, wall: f64, frag_path: Option<&str>) -> i32 {
    let verdict = conclude(prop, "mc", &frag.col);
    for l in &verdict.lines {
        println!("{}", l);
    }
    let mut cov = serde_json::Map::new();
    cov.insert("states".into(), json!(frag.states));
    cov.insert("transitions".into(), json!(frag.transitions));
    cov.insert("traces_validated_against_impl".into(), json!(frag.traces_validated));
    cov.insert("samples".into(), json!(frag.samples));
    cov.insert("exhaustive".into(), json!(frag.exhaustive));
    cov.insert("parts".into(), json!(frag.parts));
    cov.insert("findings".into(), json!(verdict.details));
    for (k, v) in frag.extra {
        cov.insert(k, v);
    }
    let ev = json!({
        "property_id": prop,
        "tier": if tier == Tier::Quick { "quick" } else { "thorough" },
        "seed": std::env::var("VERIF_SEED").ok().and_then(|s| s.parse::<i64>().ok()).unwrap_or(0),
        "level": "model_checking",
        "coverage": Value::Object(cov),
        "assumptions": frag.assumptions,
        "wall_s": wall,
        "violations": verdict.violations,
        "known_findings": verdict.known,
    });
    if let Some(p) = frag_path {
        if let Some(dir) = std::path::Path::new(p).parent() {
            let _ = std::fs::create_dir_all(dir);
        }
        std::fs::write(p, serde_json::to_string_pretty(&ev).unwrap()).expect("write fragment");
    }
    println!(
        "SUMMARY property={} tier={:?} states={} transitions={} exhaustive={} violations={} known={} machinery={} wall={:.1}s",
        prop, tier, frag.states, frag.transitions, frag.exhaustive, verdict.violations, verdict.known, verdict.machinery, wall
    );
    if verdict.machinery > 0 {
        2
    } else if verdict.violations > 0 {
        1
    } else {
        0
    }
}

/// Regression inputs of repaired defects (regress/<prop>-*.json): always run first.
pub fn run_regressions(prop: &str, frag: &mut Frag) {
    let dir = crate::report::verif_dir().join("regress");
    let mut n = 0;
    let mut names: Vec<_> = std::fs::read_dir(&dir).map(|d| d.filter_map(|e| e.ok()).map(|e| e.path()).collect()).unwrap_or_default();
    names.sort();
    for path in names {
        let fname = path.file_name().and_then(|f| f.to_str()).unwrap_or("").to_string();
        if !fname.starts_with(&format!("{}-", prop)) || !fname.ends_with(".json") {
            continue;
        }
        let v: Value = match std::fs::read_to_string(&path).ok().and_then(|t| serde_json::from_str(&t).ok()) {
            Some(v) => v,
            None => continue,
        };
        if v.get("kind").and_then(|k| k.as_str()) != Some("plan") {
            continue;
        }
        let ops = match v.get("ops").and_then(crate::spec::plan_from_json) {
            Some(o) => o,
            None => continue,
        };
        let info = crate::spec::PlanInfo::of(&ops);
        let mut need = need_for(prop);
        need.debug = true;
        let o = crate::obs::observe(&ops, &crate::hsys::Ctx::identity_map(), need);
        let mut p = Props::from_list(&[prop]);
        p.c10_all = true;
        for vi in crate::inv::check_state(&p, &ops, &info, &o, false) {
            frag.col.add(crate::report::Finding {
                prop: vi.prop.to_string(),
                sig: vi.sig,
                msg: format!("{} | regression input {}", vi.msg, fname),
                replay: json!({"kind":"plan","ops":crate::spec::plan_json(&ops)}),
                size: 0,
            });
        }
        n += 1;
        frag.states += 1;
        frag.transitions += ops.len() as u64;
    }
    if n > 0 {
        frag.parts.push(json!({"engine":"E1 planmc","profile":"regression inputs of repaired defects","inputs":n}));
    }
}
