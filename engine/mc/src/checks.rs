//! Per-property check definitions: which engines / profiles / bounds run for
//! which property and tier, and the evidence fragment they produce.

use std::time::{Duration, Instant};

use serde_json::{json, Value};

use crate::inv::Props;
use crate::obs::Need;
use crate::planmc::*;
use crate::report::{conclude, Collector};

#[derive(Clone, Copy, PartialEq, Eq, Debug)]
pub enum Tier {
    Quick,
    Thorough,
}

pub struct Frag {
    pub parts: Vec<Value>,
    pub states: u64,
    pub transitions: u64,
    pub traces_validated: u64,
    pub samples: Vec<Value>,
    pub exhaustive: bool,
    pub col: Collector,
    pub assumptions: Vec<String>,
    pub extra: serde_json::Map<String, Value>,
    pub e2_traces: Vec<Value>,
}

impl Frag {
    pub fn new() -> Frag {
        Frag { parts: vec![], states: 0, transitions: 0, traces_validated: 0, samples: vec![], exhaustive: true, col: Collector::default(), assumptions: vec![], extra: Default::default(), e2_traces: vec![] }
    }
}

pub fn threads() -> usize {
    std::env::var("VERIF_THREADS").ok().and_then(|s| s.parse().ok()).unwrap_or_else(|| std::thread::available_parallelism().map(|n| n.get()).unwrap_or(8))
}

fn acc(list: &[(&[u8], &[u8])]) -> Vec<(Vec<u8>, Vec<u8>)> {
    list.iter().map(|(r, w)| (r.to_vec(), w.to_vec())).collect()
}

pub struct E1Job {
    pub profile: Profile,
    pub depth: usize,
    /// build with the resources mapped onto the "hostile" part of the concrete universe
    /// (A -> (Cell0, 2^32+1), B -> (Cell0, 1), C -> (Cell1, 2^64-256), D -> (Cell1, 7))
    pub alt_map: bool,
}

/// E1 jobs per property and tier.
pub fn e1_jobs(prop: &str, tier: Tier) -> (Vec<E1Job>, usize) {
    let q = tier == Tier::Quick;
    let b_acc = acc(&[(&[], &[]), (&[0], &[]), (&[], &[0]), (&[], &[1]), (&[0], &[1])]);
    let b_small = acc(&[(&[], &[]), (&[0], &[]), (&[], &[0])]);
    let d_acc = acc(&[(&[], &[]), (&[0], &[]), (&[], &[0]), (&[], &[1])]);
    let pa = |d| E1Job { profile: Profile::A { times: vec![1, 3, 5] }, depth: d, alt_map: false };
    let pa1 = |d| E1Job { profile: Profile::A { times: vec![3] }, depth: d, alt_map: false };
    let pa15 = |d| E1Job { profile: Profile::A { times: vec![1, 5] }, depth: d, alt_map: false };
    let pb = |d| E1Job { profile: Profile::B { access: b_acc.clone(), times: vec![3, 5], unnamed: true, dup: true, pairs: true }, depth: d, alt_map: false };
    let pbs = |d| E1Job { profile: Profile::B { access: b_small.clone(), times: vec![3], unnamed: false, dup: true, pairs: true }, depth: d, alt_map: false };
    let pbj = |d| E1Job { profile: Profile::B { access: b_small.clone(), times: vec![1, 5], unnamed: false, dup: false, pairs: true }, depth: d, alt_map: false };
    let pc = |d| E1Job { profile: Profile::C { times: vec![1, 5] }, depth: d, alt_map: false };
    let pc3 = |d| E1Job { profile: Profile::C3 { times: vec![1, 5] }, depth: d, alt_map: false };
    let paj = |d| E1Job { profile: Profile::AJ { ballast: 3, times: vec![1] }, depth: d, alt_map: false };
    let paj5 = |d| E1Job { profile: Profile::AJ { ballast: 5, times: vec![1, 2] }, depth: d, alt_map: false };
    let pd = |d| E1Job { profile: Profile::D { access: d_acc.clone() }, depth: d, alt_map: false };
    let pe = |m, rich, d| E1Job { profile: Profile::E { inner_max: m, rich }, depth: d, alt_map: false };
    let pf = |d| E1Job { profile: Profile::F, depth: d, alt_map: false };
    let pdj = |d| E1Job { profile: Profile::DJ, depth: d, alt_map: false };
    let pz = |m, d| E1Job { profile: Profile::Z { inner_max: m }, depth: d, alt_map: false };
    let ped = |d| E1Job { profile: Profile::ED, depth: d, alt_map: false };
    let pn = |d| E1Job { profile: Profile::N, depth: d, alt_map: false };
    let pill = |d| E1Job { profile: Profile::Ill, depth: d, alt_map: false };
    let fam = if q { 64 } else { 400 };
    let jobs = match prop {
        "C01" | "C05" => if q { vec![pa(3), E1Job { profile: Profile::A { times: vec![1, 3, 5] }, depth: 3, alt_map: true }, pbs(4), pc(6), pd(4), pdj(5), pe(1, true, 2), paj(4), pa15(4), ped(3), pill(4), E1Job { profile: Profile::S, depth: 2, alt_map: false }] } else { vec![pa15(4), pb(4), pc(8), pc3(9), paj(5), paj5(4), pd(5), pe(2, true, 2), pe(1, false, 3), pa(4), E1Job { profile: Profile::S, depth: 3, alt_map: false }] },
        "C02" => if q { vec![pb(3), pbs(4), pbj(4), pd(5), pdj(4), pill(4), ped(4)] } else { vec![pb(4), pbs(5), pbj(5), pd(6), pdj(5)] },
        "C03" => if q { vec![pd(5), pdj(5), pf(4), pe(1, true, 2), pill(4)] } else { vec![pd(6), pdj(6), pf(5), pe(2, true, 2)] },
        "C04" => if q { vec![pa1(3), pbs(3), pc(6), paj(4), pd(4), pe(1, true, 2), pf(4), pill(4), E1Job { profile: Profile::S, depth: 2, alt_map: false }, pc3(8)] } else { vec![pa(3), pbs(4), pc(8), pd(5), pe(2, true, 2), pf(5)] },
        "C07" => if q { vec![pe(1, true, 2), pe(2, true, 1), pe(1, false, 3), ped(4), E1Job { profile: Profile::S, depth: 2, alt_map: false }] } else { vec![pe(2, true, 2), pe(1, true, 3), ped(5), E1Job { profile: Profile::S, depth: 3, alt_map: false }] },
        "C10" => if q { vec![pa(3), pb(3), pbs(4), pbj(4), pc(6), pd(6), pdj(5), paj(4), pa15(4), pill(4), E1Job { profile: Profile::S, depth: 2, alt_map: false }] } else { vec![pa(3), pa1(4), pb(4), pbs(5), pc(8), pd(7)] },
        "C12" => if q { vec![pf(4)] } else { vec![pf(6)] },
        "C13" => if q { vec![pf(5), pe(1, true, 2), pe(2, true, 1), paj(3), E1Job { profile: Profile::S, depth: 3, alt_map: false }] } else { vec![pf(5), pe(2, true, 2), E1Job { profile: Profile::S, depth: 3, alt_map: false }] },
        "C04x" => vec![],
        "C18" => if q { vec![pill(4), pc(7), pbs(3), pbj(4), pn(3), paj(4), pc3(9)] } else { vec![pill(5), pc(8), pc3(10), paj(5), pb(4), pbj(5), pn(4), pe(1, true, 2)] },
        "C19" => if q { vec![pa15(3), pb(3), pd(5), pe(1, true, 2), pc(5), paj(4), pill(5), ped(3), E1Job { profile: Profile::S, depth: 2, alt_map: false }] } else { vec![pa(3), pb(3), pbs(4), pd(5), pe(1, true, 2), pc(6), pf(4), paj(5), paj5(4), ped(4), E1Job { profile: Profile::S, depth: 3, alt_map: false }] },
        "C20" => if q { vec![pn(4), pill(4), pb(3), pc(7), pd(5), pe(1, true, 2), paj(4), pa15(3), pf(3)] } else { vec![pn(5), pb(4), pc(8), pd(6), pe(1, true, 2), pf(4)] },
        _ => vec![],
    };
    let mut jobs = jobs;
    if !jobs.is_empty() {
        if q {
            jobs.insert(0, pz(2, 2));
        } else {
            jobs.insert(0, pz(3, 2));
            jobs.insert(1, pz(1, 3));
        }
    }
    let fam_n = match prop {
        "C01" | "C02" | "C04" | "C05" | "C07" | "C10" | "C12" | "C13" | "C18" | "C20" | "C03" => fam,
        _ => 0,
    };
    // the thorough tier explores a superset of the quick tier: every quick job that no thorough job of the
    // same profile covers at the same or a greater depth is run first
    if !q {
        let (quick, _) = e1_jobs(prop, Tier::Quick);
        let mut extra: Vec<E1Job> = Vec::new();
        for qj in quick {
            let covered = jobs.iter().chain(extra.iter()).any(|tj| tj.profile.label() == qj.profile.label() && tj.alt_map == qj.alt_map && tj.depth >= qj.depth);
            if !covered {
                extra.push(qj);
            }
        }
        extra.extend(jobs);
        jobs = extra;
    }
    (jobs, fam_n)
}

pub fn need_for(prop: &str) -> Need {
    Need {
        debug: matches!(prop, "C20" | "C18"),
        counters: prop == "C04" || prop == "C07",
        setup_dispose: prop == "C13",
        sendable: prop == "C12",
    }
}

/// Run the E1 part of a property check.
pub fn run_e1(prop: &str, tier: Tier, budget: Duration, frag: &mut Frag) {
    let (jobs, fam_n) = e1_jobs(prop, tier);
    if jobs.is_empty() && fam_n == 0 {
        return;
    }
    // C05: the plan-level isolation invariant is the mechanism schedule independence rests on; E1 looks
    // for candidate plans (reported under a scratch id), E2 then has to exhibit a schedule (escalation)
    let props = Props::from_list(&[if prop == "C05" { "C01" } else { prop }]);
    let need = need_for(prop);
    run_regressions(prop, frag);
    // cheapest first: a job's share of the budget is what is left divided by the jobs still to run, so time
    // the small jobs do not use is passed on to the large ones
    let mut jobs = jobs;
    jobs.sort_by(|a, b| {
        // branching measured along the path of last children (canonicalising profiles open up with depth)
        let est = |j: &E1Job| {
            let mut prefix: Vec<Op> = Vec::new();
            let mut e = 1f64;
            for _ in 0..j.depth {
                let ch = j.profile.children(&prefix);
                e *= ch.len().max(1) as f64;
                match ch.into_iter().last() {
                    Some((op, false)) => prefix.push(op),
                    _ => break,
                }
            }
            e
        };
        est(a).partial_cmp(&est(b)).unwrap_or(std::cmp::Ordering::Equal)
    });
    let start = Instant::now();
    let njobs = jobs.len() + if fam_n > 0 { 1 } else { 0 };
    for (k, job) in jobs.iter().enumerate() {
        // share the remaining budget evenly over the remaining jobs
        let remaining = budget.saturating_sub(start.elapsed());
        let share = remaining / (njobs - k) as u32;
        let t0 = Instant::now();
        // sequences of the ill-formed-call profile go on after a (rightly) rejected call: it must have had no effect
        let mut props = props;
        if matches!(job.profile, Profile::Ill) {
            props.continue_after_reject = true;
        }
        let run = E1Run { resmap: if job.alt_map { vec![4, 1, 5, 3, 0, 2] } else { crate::hsys::Ctx::identity_map() }, c19_maps: if prop == "C19" { if tier == Tier::Quick { 12 } else { 360 } } else { 0 }, profile: &job.profile, depth: job.depth, props, need, deadline: t0 + share, threads: threads(), user_pool: None };
        let r = run_profile(&run);
        let wall = t0.elapsed().as_secs_f64();
        frag.parts.push(stats_json(&format!("{}{}", job.profile.label(), if job.alt_map { " [resources mapped onto large / colliding-under-truncation dynamic ids]" } else { "" }), job.depth, &r, wall));
        frag.states += r.stats.states;
        frag.transitions += r.stats.transitions;
        frag.traces_validated += r.stats.states;
        frag.exhaustive &= !r.stats.capped;
        if frag.samples.len() < 6 {
            frag.samples.extend(r.samples.into_iter().take(2));
        }
        frag.col.merge(r.col);
    }
    if prop == "C03" {
        // the same barrier profiles with a user-supplied pool of one thread attached before the registrations: what a
        // barrier orders does not depend on how much can run at once
        for (profile, depth) in [(Profile::D { access: acc(&[(&[], &[]), (&[0], &[]), (&[], &[0]), (&[], &[1])]) }, 4usize), (Profile::DJ, 4)] {
            let t0 = Instant::now();
            let run = E1Run { resmap: crate::hsys::Ctx::identity_map(), c19_maps: 0, profile: &profile, depth, props, need, deadline: t0 + Duration::from_secs(20), threads: threads(), user_pool: Some(1) };
            let r = run_profile(&run);
            frag.parts.push(stats_json(&format!("{} [a user-supplied pool of 1 thread attached first]", profile.label()), depth, &r, t0.elapsed().as_secs_f64()));
            frag.states += r.stats.states;
            frag.transitions += r.stats.transitions;
            frag.traces_validated += r.stats.states;
            frag.exhaustive &= !r.stats.capped;
            frag.col.merge(r.col);
        }
    }
    if prop == "C19" {
        // relabelling sweep first: it is cheap and must not be starved by the profile jobs
        let (len, nids) = if tier == Tier::Quick { (3, 66) } else { (4, 130) };
        let t0 = Instant::now();
        let r = crate::planmc::c19_sweep(len, nids, t0 + Duration::from_secs(if tier == Tier::Quick { 25 } else { 600 }), threads());
        frag.parts.push(json!({
            "engine": "E1 planmc", "profile": format!("relabelling sweep: every sequence of <= {} systems over {{read, write}} x {{P, Q}} x running time {{1, 5}} that names both resources, rebuilt with (P, Q) mapped onto every ordered pair of distinct ids of a {}-id universe (two types x dynamic ids 100..)", len, nids),
            "base_plans": r.stats.states, "relabelled_builds": r.stats.barrier_metamorphic, "transitions": r.stats.transitions, "cap_hit": r.stats.capped, "wall_s": t0.elapsed().as_secs_f64(),
            "argument": format!("pigeonhole: any classification of resource ids into fewer than {} classes merges two ids of the universe, and every ordered pair is visited", nids),
        }));
        frag.states += r.stats.states + r.stats.barrier_metamorphic;
        frag.transitions += r.stats.transitions;
        frag.traces_validated += r.stats.barrier_metamorphic;
        frag.exhaustive &= !r.stats.capped;
        frag.col.merge(r.col);
        // the parametric families (stages of up to n groups, chains, groups filled to capacity) under every transformation
        let nmax = if tier == Tier::Quick { 24 } else { 64 };
        let t0 = Instant::now();
        let r = crate::planmc::c19_families(nmax, 6, t0 + Duration::from_secs(if tier == Tier::Quick { 20 } else { 300 }), threads());
        frag.parts.push(json!({
            "engine": "E1 planmc", "profile": format!("G(parametric families, every n in 1..{}) under every C19 transformation (names, list order, 6 relabellings, rayon thread counts 1/2/3/64, second build)", nmax),
            "base_plans": r.stats.states, "transformed_builds": r.stats.barrier_metamorphic, "transitions": r.stats.transitions, "max_depth": r.stats.max_depth, "cap_hit": r.stats.capped, "wall_s": t0.elapsed().as_secs_f64(),
        }));
        frag.states += r.stats.states + r.stats.barrier_metamorphic;
        frag.transitions += r.stats.transitions;
        frag.traces_validated += r.stats.barrier_metamorphic;
        frag.exhaustive &= !r.stats.capped;
        frag.col.merge(r.col);
    }
    if fam_n > 0 {
        let t0 = Instant::now();
        let remaining = budget.saturating_sub(start.elapsed()).max(Duration::from_secs(5));
        let r = run_families(fam_n, props, need, t0 + remaining, threads());
        let wall = t0.elapsed().as_secs_f64();
        frag.parts.push(stats_json(&format!("G(parametric families, every n in 1..{})", fam_n), fam_n, &r, wall));
        frag.states += r.stats.states;
        frag.transitions += r.stats.transitions;
        frag.traces_validated += r.stats.states;
        frag.exhaustive &= !r.stats.capped;
        frag.samples.extend(r.samples.into_iter().take(1));
        frag.col.merge(r.col);
    }
}

/// Replay a finding from its replay description; true = the same (property, signature) shows again.
pub fn confirm(f: &crate::report::Finding) -> Option<bool> {
    let kind = f.replay.get("kind").and_then(|k| k.as_str())?;
    match kind {
        "plan" | "plan-wide" => {
            let ops = crate::spec::plan_from_json(f.replay.get("ops")?)?;
            let info = PlanInfo::of(&ops);
            let mut need = need_for(&f.prop);
            need.debug = true;
            let resmap: Vec<u8> = f.replay.get("resmap").and_then(|m| m.as_array()).map(|a| a.iter().filter_map(|x| x.as_u64().map(|y| y as u8)).collect()).unwrap_or_else(crate::hsys::Ctx::identity_map);
            if f.prop == "C19" || f.sig == "redundant-barrier-changes-plan" {
                return None;
            }
            let mut p = Props::from_list(&[f.prop.as_str()]);
            p.c10_all = true;
            // the finding may stem from a sequence that goes on after a (rightly) rejected call
            p.continue_after_reject = true;
            // ... or from a run in which a user-supplied pool was attached before the registrations
            for pool in [None, Some(1usize), Some(2)] {
                crate::obs::set_e1_user_pool(pool);
                let o = crate::obs::observe(&ops, &resmap, need);
                crate::obs::set_e1_user_pool(None);
                let vs = crate::inv::check_state(&p, &ops, &info, &o, false);
                if vs.iter().any(|v| v.prop == f.prop && v.sig == f.sig) {
                    return Some(true);
                }
            }
            Some(false)
        }
        "schedule" => {
            let sc = Scenario::from_json(f.replay.get("scenario")?)?;
            let choices: Vec<u16> = f.replay.get("choices")?.as_array()?.iter().filter_map(|x| x.as_u64().map(|y| y as u16)).collect();
            let (vs, _, abnormal) = crate::schedmc::replay(&sc, &choices, Mon::of(&f.prop), false);
            if f.msg.starts_with("deadlock") {
                return Some(abnormal.map_or(false, |a| a.contains("Deadlock")));
            }
            Some(vs.iter().any(|v| v.prop == f.prop && v.sig == f.sig))
        }
        _ => None,
    }
}

pub fn finish(prop: &str, tier: Tier, mut frag: Frag, wall: f64, frag_path: Option<&str>) -> i32 {
    // every violation is confirmed by an independent replay before it is reported
    let mut unconfirmed = Vec::new();
    let mut confirmed = 0u64;
    for ((p, sig), (f, _)) in frag.col.best.iter() {
        if p == prop {
            match confirm(f) {
                Some(true) => confirmed += 1,
                Some(false) => unconfirmed.push((p.clone(), sig.clone(), f.msg.clone())),
                None => {}
            }
        }
    }
    for (p, sig, msg) in unconfirmed {
        frag.col.best.remove(&(p.clone(), sig.clone()));
        frag.col.add(crate::report::Finding { prop: "MACHINERY".into(), sig: format!("not-reproducible-{}", sig), msg: format!("a {} violation did not reproduce on replay and is not reported: {}", p, msg), replay: json!({}), size: 0 });
    }
    frag.extra.insert("violations_confirmed_by_replay".into(), json!(confirmed));
    let verdict = conclude(prop, "mc", &frag.col);
    for l in &verdict.lines {
        println!("{}", l);
    }
    let mut cov = serde_json::Map::new();
    cov.insert("states".into(), json!(frag.states));
    cov.insert("transitions".into(), json!(frag.transitions));
    cov.insert("traces_validated_against_impl".into(), json!(frag.traces_validated));
    cov.insert("samples".into(), json!(frag.samples));
    cov.insert("exhaustive".into(), json!(frag.exhaustive));
    cov.insert("parts".into(), json!(frag.parts));
    cov.insert("findings".into(), json!(verdict.details));
    for (k, v) in frag.extra {
        cov.insert(k, v);
    }
    let ev = json!({
        "property_id": prop,
        "tier": if tier == Tier::Quick { "quick" } else { "thorough" },
        "seed": std::env::var("VERIF_SEED").ok().and_then(|s| s.parse::<i64>().ok()).unwrap_or(0),
        "level": "model_checking",
        "coverage": Value::Object(cov),
        "assumptions": frag.assumptions,
        "wall_s": wall,
        "violations": verdict.violations,
        "known_findings": verdict.known,
    });
    if let Some(p) = frag_path {
        if let Some(dir) = std::path::Path::new(p).parent() {
            let _ = std::fs::create_dir_all(dir);
            if !frag.e2_traces.is_empty() {
                let _ = std::fs::write(dir.join("traces.json"), serde_json::to_string(&frag.e2_traces).unwrap());
            }
        }
        std::fs::write(p, serde_json::to_string_pretty(&ev).unwrap()).expect("write fragment");
    }
    println!(
        "SUMMARY property={} tier={:?} states={} transitions={} exhaustive={} violations={} known={} machinery={} wall={:.1}s",
        prop, tier, frag.states, frag.transitions, frag.exhaustive, verdict.violations, verdict.known, verdict.machinery, wall
    );
    // a violation with a replay file is a verdict even if some other part of the run had a machinery
    // problem (those are printed above); a machinery problem alone is never a verdict
    if verdict.violations > 0 {
        1
    } else if verdict.machinery > 0 {
        2
    } else {
        0
    }
}

/// Regression inputs of repaired defects (regress/<prop>-*.json): always run first.
pub fn run_regressions(prop: &str, frag: &mut Frag) {
    let dir = crate::report::verif_dir().join("regress");
    let mut n = 0;
    let mut names: Vec<_> = std::fs::read_dir(&dir).map(|d| d.filter_map(|e| e.ok()).map(|e| e.path()).collect()).unwrap_or_default();
    names.sort();
    for path in names {
        let fname = path.file_name().and_then(|f| f.to_str()).unwrap_or("").to_string();
        if !fname.starts_with(&format!("{}-", prop)) || !fname.ends_with(".json") {
            continue;
        }
        let v: Value = match std::fs::read_to_string(&path).ok().and_then(|t| serde_json::from_str(&t).ok()) {
            Some(v) => v,
            None => continue,
        };
        if v.get("kind").and_then(|k| k.as_str()) != Some("plan") {
            continue;
        }
        let ops = match v.get("ops").and_then(crate::spec::plan_from_json) {
            Some(o) => o,
            None => continue,
        };
        let info = crate::spec::PlanInfo::of(&ops);
        let mut need = need_for(prop);
        need.debug = true;
        let o = crate::obs::observe(&ops, &crate::hsys::Ctx::identity_map(), need);
        let mut p = Props::from_list(&[prop]);
        p.c10_all = true;
        for vi in crate::inv::check_state(&p, &ops, &info, &o, false) {
            frag.col.add(crate::report::Finding {
                prop: vi.prop.to_string(),
                sig: vi.sig,
                msg: format!("{} | regression input {}", vi.msg, fname),
                replay: json!({"kind":"plan","ops":crate::spec::plan_json(&ops)}),
                size: 0,
            });
        }
        n += 1;
        frag.states += 1;
        frag.transitions += ops.len() as u64;
    }
    if n > 0 {
        frag.parts.push(json!({"engine":"E1 planmc","profile":"regression inputs of repaired defects","inputs":n}));
    }
}

// ---------------------------------------------------------------------------
// E2
// ---------------------------------------------------------------------------

use crate::schedmc::{explore_scenario, ExploreOpts, Mode, Mon, ScResult, Scenario};
use crate::spec::{plan_short, Op, PlanInfo};

/// All sequences of `profile` up to `depth`, de-duplicated by what an
/// execution can observe: executed layout + per-system access / deps / barriers.
pub fn distinct_plans(profile: &Profile, depth: usize, min_len: usize) -> Vec<Vec<Op>> {
    let mut out: Vec<Vec<Op>> = Vec::new();
    let mut seen = std::collections::HashSet::new();
    fn rec(profile: &Profile, depth: usize, min_len: usize, prefix: &mut Vec<Op>, out: &mut Vec<Vec<Op>>, seen: &mut std::collections::HashSet<String>) {
        if prefix.len() >= min_len {
            let info = PlanInfo::of(prefix);
            if let Ok(l) = crate::obs::layout_of(prefix, &crate::hsys::Ctx::identity_map()) {
                let key = format!(
                    "{}|{:?}",
                    l.short(),
                    info.nodes.iter().map(|n| (n.kind as u8, n.eff_reads, n.eff_writes, n.reads.clone(), n.writes.clone(), n.deps.clone(), n.name.is_empty(), n.barriers_before, n.times, n.multi)).collect::<Vec<_>>()
                );
                if seen.insert(key) {
                    out.push(prefix.clone());
                }
            }
        }
        if prefix.len() >= depth {
            return;
        }
        for (op, term) in profile.children(prefix) {
            if term {
                continue;
            }
            prefix.push(op);
            rec(profile, depth, min_len, prefix, out, seen);
            prefix.pop();
        }
    }
    let mut p = Vec::new();
    rec(profile, depth, min_len, &mut p, &mut out, &mut seen);
    out
}

pub struct E2Job {
    pub label: String,
    pub scenarios: Vec<Scenario>,
    pub bounds: Vec<u32>,
    /// delay bounding instead of preemption bounding
    pub delay: bool,
}

fn scen(plans: &[Vec<Op>], modes: &[Mode], dispatches: &[u8]) -> Vec<Scenario> {
    let mut v = Vec::new();
    for p in plans {
        for m in modes {
            for d in dispatches {
                v.push(Scenario::plain(p.clone(), *m, *d));
            }
        }
    }
    v
}

pub fn e2_jobs(prop: &str, tier: Tier) -> Vec<E2Job> {
    let q = tier == Tier::Quick;
    let all_modes = [Mode::Dispatch, Mode::Par, Mode::Seq, Mode::Async];
    let core_acc = acc(&[(&[], &[]), (&[0], &[]), (&[], &[0]), (&[1], &[]), (&[], &[1]), (&[0], &[1])]);
    let core = |times: Vec<u8>, depth| distinct_plans(&Profile::B { access: core_acc.clone(), times, unnamed: false, dup: false, pairs: false }, depth, 2);
    let nores = |depth| distinct_plans(&Profile::B { access: acc(&[(&[], &[]), (&[], &[0])]), times: vec![3], unnamed: false, dup: false, pairs: true }, depth, 2);
    let barr = |depth| distinct_plans(&Profile::D { access: acc(&[(&[], &[]), (&[], &[0])]) }, depth, 2);
    let batch = |m, rich, depth| distinct_plans(&Profile::E { inner_max: m, rich }, depth, 1);
    let tl = |depth| distinct_plans(&Profile::F, depth, 1);
    let eb = |depth| distinct_plans(&Profile::EB, depth, 1);
    let b = |hi: u32| -> Vec<u32> { (0..=hi).collect() };
    let mut jobs = Vec::new();
    match prop {
        "C01" | "C04" | "C05" => {
            jobs.push(E2Job { label: "core plans (deps off: access only), every mode".into(), scenarios: scen(&core(vec![3], if q { 3 } else { 3 }), &all_modes, &[1]), bounds: b(if q { 2 } else { 3 }), delay: false });
            jobs.push(E2Job { label: "core plans with running-time hints {1,5} (groups of 2+), 2 dispatches".into(), scenarios: scen(&core(vec![1, 5], 3), &[Mode::Dispatch], &[2]), bounds: b(if q { 1 } else { 2 }), delay: false });
            jobs.push(E2Job { label: "small batch plans".into(), scenarios: scen(&eb(2), &[Mode::Dispatch], &[1]), bounds: b(if q { 1 } else { 2 }), delay: false });
            if !q {
                jobs.push(E2Job { label: "core plans depth 4, dispatch".into(), scenarios: scen(&core(vec![3], 4), &[Mode::Dispatch], &[1]), bounds: b(2), delay: false });
                jobs.push(E2Job { label: "barrier plans of <= 3 ops".into(), scenarios: scen(&barr(3), &[Mode::Dispatch, Mode::Async], &[1, 2]), bounds: b(2), delay: false });
            }
        }
        _ => {}
    }
    if prop == "C04" {
        // a system panics in dispatch 1 (caught by the caller); dispatch 2 and 3 of the same dispatcher run everything once
        let mut scs = Vec::new();
        for p in core(vec![3], 2).into_iter().chain(eb(1)).chain(tl(2)) {
            let info = PlanInfo::of(&p);
            for n in &info.nodes {
                if n.kind == crate::spec::Kind::Batch {
                    continue;
                }
                for mode in [Mode::Dispatch, Mode::Par, Mode::Seq] {
                    let mut s = Scenario::plain(p.clone(), mode, 3);
                    s.panics = vec![(n.id, false)];
                    scs.push(s);
                }
            }
        }
        jobs.push(E2Job { label: "a system panics in the first of three dispatches (caught): the later dispatches run every system once".into(), scenarios: scs, bounds: b(if q { 0 } else { 1 }), delay: false });
        // async dispatcher x thread-local systems: whatever is called between dispatch and wait, the dispatch runs
        // its thread-local systems once (inside that wait)
        let mut scs_b2b = Vec::new();
        let mut scs_b2b3 = Vec::new();
        let mut scs = Vec::new();
        for p in tl(2) {
            let info = PlanInfo::of(&p);
            let has_tl = info.nodes.iter().any(|n| n.kind == crate::spec::Kind::Tl && n.parent.is_none());
            // back-to-back dispatch() calls (the second issued while the first may still be in flight) on every plan,
            // the polling / accessor scripts on the plans with thread-local systems
            let scripts: &[&str] = if has_tl { &["DW", "DRW", "DXW", "DOW", "DMW", "DWDW", "DDW", "DRDW"] } else { &["DRDW", "DXDD"] };
            for script in scripts.iter().copied() {
                let mut sc = Scenario::plain(p.clone(), Mode::Async, 0);
                sc.script = Some(script.to_string());
                scs.push(sc);
            }
            for script in if has_tl { &["DD", "DDD"][..] } else { &["DD", "DDD", "DDW"][..] } {
                let mut sc = Scenario::plain(p.clone(), Mode::Async, 0);
                sc.script = Some(script.to_string());
                if *script == "DD" {
                    scs_b2b.push(sc);
                } else {
                    scs_b2b3.push(sc);
                }
            }
        }
        jobs.push(E2Job { label: "async scripts over <= 2-op plans: polling / accessors between dispatch and wait (thread-local plans), a second dispatch after a poll".into(), scenarios: scs, bounds: b(if q { 0 } else { 1 }), delay: false });
        {
            // the dispatcher is dropped right after dispatch() (or after a second one): the dispatch is carried out all the same
            let mut scs_k = Vec::new();
            let sy = |n: &str, w: &[u8]| Op::Sys(crate::spec::SysSpec { name: n.into(), reads: vec![], writes: w.to_vec(), time: 3, deps: vec![] });
            let mut plans: Vec<Vec<Op>> = core(vec![3], 2);
            plans.push(vec![sy("a", &[0]), sy("b", &[0]), sy("c", &[0])]);
            plans.push(vec![sy("a", &[0]), Op::Barrier, sy("b", &[]), sy("c", &[1]), Op::Barrier, sy("d", &[0])]);
            for p in plans {
                for script in ["DK", "DDK", "DRK"] {
                    let mut sc = Scenario::plain(p.clone(), Mode::Async, 0);
                    sc.script = Some(script.to_string());
                    scs_k.push(sc);
                }
            }
            jobs.push(E2Job { label: "async scripts DK, DDK, DRK: the dispatcher is dropped while a dispatch may be in flight (plans of <= 2 ops, three stages, barriers)".into(), scenarios: scs_k, bounds: b(1), delay: false });
        }
        jobs.push(E2Job { label: "async scripts over <= 2-op plans: two back-to-back dispatch() calls (DD)".into(), scenarios: scs_b2b, bounds: b(1), delay: false });
        jobs.push(E2Job { label: "async scripts over <= 2-op plans: three back-to-back dispatch() calls, two and a wait (DDD, DDW)".into(), scenarios: scs_b2b3, bounds: b(if q { 0 } else { 1 }), delay: false });
    }
    if prop == "C05" {
        // the async front end: `dispatch ... wait` rounds with polling / other accessors in between leave the same
        // world and system states as sequential rounds (thread-local systems included)
        let mut scs = Vec::new();
        for p in tl(2).into_iter().chain(core(vec![3], 2)) {
            for script in ["DW", "DRW", "DOW", "DXW", "DMW", "DWDW", "DRWDOW", "DXWDW"] {
                let mut sc = Scenario::plain(p.clone(), Mode::Async, 0);
                sc.script = Some(script.to_string());
                scs.push(sc);
            }
        }
        jobs.push(E2Job { label: "async scripts of dispatch ... wait rounds (polling, world(), world_mut(), wait_without_tl() in between) over thread-local and core plans of <= 2 ops, against sequential rounds".into(), scenarios: scs, bounds: b(if q { 0 } else { 1 }), delay: false });
    }
    if prop == "C04" || prop == "C05" {
        // dispatch entered from a worker of a FOREIGN pool (of 1 or 2 threads): the dispatcher's own pool (user-supplied
        // or default) does the work, every system runs once; plans with single- and multi-group stages, batches
        let mut scs = Vec::new();
        let mut plans: Vec<Vec<Op>> = core(vec![3], 2);
        plans.extend(eb(1));
        plans.push(wide_stage(3));
        plans.push(vec![Op::Sys(crate::spec::SysSpec { name: "w".into(), reads: vec![], writes: vec![0], time: 3, deps: vec![] }), Op::Sys(crate::spec::SysSpec { name: "r1".into(), reads: vec![0], writes: vec![], time: 3, deps: vec![] }), Op::Sys(crate::spec::SysSpec { name: "r2".into(), reads: vec![0], writes: vec![], time: 3, deps: vec![] }), Op::Sys(crate::spec::SysSpec { name: "w2".into(), reads: vec![], writes: vec![0], time: 3, deps: vec![] })]);
        for p in &plans {
            for foreign in [1usize, 2] {
                for own_user in [Some(2usize), None] {
                    for mode in [Mode::Dispatch, Mode::Par] {
                        let mut s = Scenario::plain(p.clone(), mode, 2);
                        s.foreign_pool = Some(foreign);
                        s.user_pool = own_user;
                        scs.push(s);
                    }
                }
            }
        }
        jobs.push(E2Job { label: "dispatch entered from a worker of a foreign pool of 1 / 2 threads (own pool user-supplied or default): <= 2-op plans, single batches, 3-wide stage, writer / two readers / writer".into(), scenarios: scs, bounds: b(if q { 0 } else { 1 }), delay: false });
    }
    if prop == "C04" || prop == "C05" {
        // pool-size sweep: stages wider than / equal to / narrower than the pool
        let mut scs = Vec::new();
        for w in [2usize, 3, 5, 7] {
            for n in [1usize, 2, 3, 4] {
                for (mode, d) in [(Mode::Dispatch, 2u8), (Mode::Async, 1)] {
                    for user in [true, false] {
                        let mut s = Scenario::plain(wide_stage(w), mode, d);
                        if user {
                            s.user_pool = Some(n);
                        } else {
                            s.default_threads = Some(n);
                        }
                        scs.push(s);
                    }
                }
            }
            let inner = wide_stage(w);
            for n in [2usize, 3] {
                let mut s = Scenario::plain(vec![Op::Batch(crate::spec::BatchSpec { name: "b".into(), deps: vec![], ctrl: crate::spec::CtrlData::Unit, times: 2, multi: false, fetch_data: false, inner: inner.clone() })], Mode::Dispatch, 1);
                s.user_pool = Some(n);
                scs.push(s);
            }
        }
        jobs.push(E2Job { label: "pool-size sweep: stages of 2..7 independent systems on user-supplied / default pools of 1..4 threads, dispatch / async / batch-inner".into(), scenarios: scs, bounds: b(if q { 1 } else { 2 }), delay: true });
    }
    match prop {
        "C02" => {
            jobs.push(E2Job { label: "dependency plans (resource-less or one writer)".into(), scenarios: scen(&nores(if q { 3 } else { 4 }), &[Mode::Dispatch, Mode::Par, Mode::Async], &[1]), bounds: b(if q { 2 } else { 3 }), delay: false });
            {
                let grouped: Vec<Vec<Op>> = distinct_plans(&Profile::B { access: acc(&[(&[], &[]), (&[], &[0])]), times: vec![1, 2, 3], unnamed: true, dup: false, pairs: false }, 3, 2)
                    .into_iter()
                    .filter(|p| crate::obs::layout_of(p, &crate::hsys::Ctx::identity_map()).map_or(false, |l| l.stages.iter().flatten().any(|g| g.len() >= 2)))
                    .collect();
                jobs.push(E2Job { label: "dependency plans with groups of 2+ systems (running-time hints 1..3, unnamed systems)".into(), scenarios: scen(&grouped, &[Mode::Dispatch, Mode::Async], &[1]), bounds: b(if q { 1 } else { 2 }), delay: false });
            }
            jobs.push(E2Job { label: "dependency plans, 2 dispatches".into(), scenarios: scen(&nores(3), &[Mode::Dispatch, Mode::Async], &[2]), bounds: b(if q { 1 } else { 2 }), delay: false });
        }
        "C03" => {
            jobs.push(E2Job { label: "barrier plans of <= 3 ops (resource-less or one writer, named and unnamed systems)".into(), scenarios: scen(&barr(3), &[Mode::Dispatch, Mode::Par, Mode::Async], &[1]), bounds: b(if q { 2 } else { 3 }), delay: false });
            jobs.push(E2Job { label: "barrier plans of 4 ops".into(), scenarios: scen(&barr(4).into_iter().filter(|p| p.len() == 4).collect::<Vec<_>>(), &[Mode::Dispatch], &[1]), bounds: b(if q { 1 } else { 2 }), delay: false });
            if !q {
                jobs.push(E2Job { label: "barrier plans of 5 ops".into(), scenarios: scen(&barr(5).into_iter().filter(|p| p.len() == 5).collect::<Vec<_>>(), &[Mode::Dispatch], &[1]), bounds: b(1), delay: false });
            }
        }
        "C07" => {
            jobs.push(E2Job { label: "small batch plans, 2 outer ops".into(), scenarios: scen(&eb(2), &[Mode::Dispatch, Mode::Par], &[1]), bounds: b(if q { 1 } else { 2 }), delay: false });
            jobs.push(E2Job { label: "single batch, 2 dispatches".into(), scenarios: scen(&eb(1), &[Mode::Dispatch, Mode::Async], &[2]), bounds: b(2), delay: false });
            if !q {
                jobs.push(E2Job { label: "batch plans, inner plans of <= 1 op".into(), scenarios: scen(&batch(1, true, 2), &[Mode::Dispatch], &[1]), bounds: b(0), delay: false });
                jobs.push(E2Job { label: "small batch plans, 3 outer ops".into(), scenarios: scen(&eb(3).into_iter().filter(|p| p.len() == 3).take(1500).collect::<Vec<_>>(), &[Mode::Dispatch], &[1]), bounds: b(0), delay: false });
            }
        }
        "C14" => {
            let panic_scen = |plans: &[Vec<Op>], modes: &[Mode], pairs: bool| -> Vec<Scenario> {
                let mut v = Vec::new();
                for p in plans {
                    let info = PlanInfo::of(p);
                    let mut choices: Vec<Vec<(usize, bool)>> = Vec::new();
                    for n in &info.nodes {
                        choices.push(vec![(n.id, false)]);
                        if n.kind != crate::spec::Kind::Batch {
                            choices.push(vec![(n.id, true)]);
                        }
                    }
                    if pairs {
                        for a in &info.nodes {
                            for bn in &info.nodes {
                                if a.id < bn.id {
                                    choices.push(vec![(a.id, false), (bn.id, false)]);
                                    if bn.kind != crate::spec::Kind::Batch {
                                        choices.push(vec![(a.id, false), (bn.id, true)]);
                                    }
                                }
                            }
                        }
                    }
                    for c in choices {
                        for m in modes {
                            let mut s = Scenario::plain(p.clone(), *m, 2);
                            s.panics = c.clone();
                            v.push(s.clone());
                            // the same panic raised at the end of run, after the system has written through its guards
                            if c.len() == 1 && !c[0].1 && info.nodes[c[0].0].kind != crate::spec::Kind::Batch {
                                let mut l = s.clone();
                                l.panic_late = true;
                                v.push(l);
                            }
                            // the same panic carrying a typed payload (`panic_any` of a type that is neither &str nor String)
                            // (quick tier: for plans of <= 2 operations; thorough tier: for every plan)
                            if c.len() == 1 && (!q || p.len() <= 2) {
                                s.panic_typed = true;
                                v.push(s);
                            }
                        }
                    }
                }
                v
            };
            let dep_acc = acc(&[(&[], &[]), (&[], &[0]), (&[0], &[])]);
            let depplans = |d| distinct_plans(&Profile::B { access: dep_acc.clone(), times: vec![3], unnamed: false, dup: false, pairs: false }, d, 1);
            jobs.push(E2Job { label: "dependency/access plans x every single panicking system x {fetch, run}, then a clean dispatch".into(), scenarios: panic_scen(&depplans(if q { 2 } else { 3 }), &[Mode::Dispatch, Mode::Seq], false), bounds: b(2), delay: false });
            {
                // controllers that dispatch their inner plan 2 or 3 times (hand-written and the library's
                // MultiDispatcher): the panic hits the first inner dispatch, the planned rest is abandoned for good
                let sy = |n: &str, r: &[u8], w: &[u8], deps: &[&str]| Op::Sys(crate::spec::SysSpec { name: n.into(), reads: r.to_vec(), writes: w.to_vec(), time: 3, deps: deps.iter().map(|s| s.to_string()).collect() });
                let mut plans: Vec<Vec<Op>> = Vec::new();
                for multi in [false, true] {
                    for times in [2u8, 3] {
                        for inner in [vec![sy("i0", &[], &[0], &[])], vec![sy("i0", &[], &[0], &[]), sy("i1", &[], &[1], &["i0"])]] {
                            let batch = Op::Batch(crate::spec::BatchSpec { name: "b".into(), deps: vec![], ctrl: crate::spec::CtrlData::Unit, times, multi, fetch_data: false, inner });
                            plans.push(vec![batch.clone()]);
                            plans.push(vec![batch, sy("after", &[], &[], &["b"])]);
                        }
                    }
                }
                // a batch that depends on an outer system whose NAME is also used by a system inside the batch (the two
                // builders have separate name spaces): the dependency is the outer one
                for multi in [false, true] {
                    let batch = Op::Batch(crate::spec::BatchSpec { name: "b".into(), deps: vec!["i0".into()], ctrl: crate::spec::CtrlData::Unit, times: 1, multi, fetch_data: false, inner: vec![sy("i0", &[], &[1], &[]), sy("i1", &[], &[], &["i0"])] });
                    plans.push(vec![sy("i0", &[], &[0], &[]), batch.clone()]);
                    plans.push(vec![sy("i0", &[], &[], &[]), sy("i1", &[], &[], &[]), batch, sy("after", &[], &[], &["b"])]);
                }
                jobs.push(E2Job { label: "batches whose controller dispatches the inner plan 2-3 times (hand-written / MultiDispatcher), batches depending on an outer system whose name is re-used inside, single panicking system, then a clean dispatch".into(), scenarios: panic_scen(&plans, &[Mode::Dispatch, Mode::Seq], false), bounds: b(1), delay: false });
            }
            {
                // unnamed systems among named ones (the empty name is not a name: ids, dependency look-ups)
                let un: Vec<Vec<Op>> = distinct_plans(&Profile::B { access: acc(&[(&[], &[]), (&[], &[0])]), times: vec![3], unnamed: true, dup: false, pairs: false }, 3, 1)
                    .into_iter()
                    .filter(|p| p.len() == 3 && p.iter().any(|o| matches!(o, Op::Sys(x) if x.name.is_empty())) && p.iter().any(|o| matches!(o, Op::Sys(x) if !x.deps.is_empty())))
                    .collect();
                jobs.push(E2Job { label: "3-op dependency plans with unnamed systems among named ones, single panicking system".into(), scenarios: panic_scen(&un, &[Mode::Dispatch, Mode::Seq], false), bounds: b(if q { 0 } else { 1 }), delay: false });
            }
            {
                // four systems, the last with TWO dependencies, running-time hints {1, 3} (a dependency may sit in an earlier
                // stage than one registered before it; the dependent may be drawn into a group by the balance rule)
                let mut two: Vec<Vec<Op>> = Vec::new();
                for code in 0..64u32 {
                    // three dependency-free systems: access {none, write A} x hint {1, 3} each
                    let mk = |k: u32, name: &str| -> Op {
                        let c = (code >> (2 * k)) & 3;
                        Op::Sys(crate::spec::SysSpec { name: name.into(), reads: vec![], writes: if c & 1 == 1 { vec![0] } else { vec![] }, time: if c & 2 == 2 { 3 } else { 1 }, deps: vec![] })
                    };
                    for (d1, d2) in [("s0", "s1"), ("s0", "s2"), ("s1", "s2")] {
                        two.push(vec![mk(0, "s0"), mk(1, "s1"), mk(2, "s2"), Op::Sys(crate::spec::SysSpec { name: "s3".into(), reads: vec![], writes: vec![], time: 1, deps: vec![d1.into(), d2.into()] })]);
                    }
                }
                let mut scs = Vec::new();
                for p in &two {
                    if let Op::Sys(last) = &p[3] {
                        let info = PlanInfo::of(p);
                        // one of the two dependencies panics
                        for d in &last.deps {
                            if let Some(n) = info.nodes.iter().find(|n| &n.name == d) {
                                for m in [Mode::Dispatch, Mode::Seq] {
                                    let mut sc = Scenario::plain(p.clone(), m, 2);
                                    sc.panics = vec![(n.id, false)];
                                    scs.push(sc);
                                }
                            }
                        }
                    }
                }
                jobs.push(E2Job { label: "4-op plans whose last system has two dependencies (hints {1, 3}); one of the two dependencies panics".into(), scenarios: scs, bounds: b(if q { 0 } else { 1 }), delay: false });
            }
            jobs.push(E2Job { label: "barrier plans of <= 3 ops (leading / repeated barriers, dependencies across them), single panicking system".into(), scenarios: panic_scen(&barr(3), &[Mode::Dispatch, Mode::Seq], false), bounds: b(1), delay: false });
            jobs.push(E2Job { label: "3-op plans, single panicking system".into(), scenarios: panic_scen(&depplans(3).into_iter().filter(|p| p.len() == 3).collect::<Vec<_>>(), &[Mode::Dispatch], !q), bounds: b(if q { 1 } else { 2 }), delay: false });
            {
                // plans in which the balancing rule really forms groups of 2+ systems (running-time hints 1..3),
                // so that a panicking system has later members of its own group behind it
                let grouped: Vec<Vec<Op>> = distinct_plans(&Profile::B { access: acc(&[(&[], &[]), (&[], &[0])]), times: vec![1, 2, 3], unnamed: false, dup: false, pairs: false }, 3, 2)
                    .into_iter()
                    .filter(|p| crate::obs::layout_of(p, &crate::hsys::Ctx::identity_map()).map_or(false, |l| l.stages.iter().flatten().any(|g| g.len() >= 2)))
                    .collect();
                jobs.push(E2Job { label: "plans with groups of 2+ systems (running-time hints 1..3), every single panicking system".into(), scenarios: panic_scen(&grouped, &[Mode::Dispatch, Mode::Seq], false), bounds: b(if q { 1 } else { 2 }), delay: false });
            }
            {
                // two systems panicking in the same dispatch: side by side in one stage, in consecutive stages, inside a batch
                let sy = |n: &str, w: &[u8], deps: &[&str]| Op::Sys(crate::spec::SysSpec { name: n.into(), reads: vec![], writes: w.to_vec(), time: 3, deps: deps.iter().map(|x| x.to_string()).collect() });
                let tlop = Op::Tl(crate::spec::SysSpec { name: String::new(), reads: vec![], writes: vec![], time: 3, deps: vec![] });
                let two: Vec<Vec<Op>> = vec![
                    vec![sy("a", &[], &[]), sy("b", &[], &[])],
                    vec![sy("a", &[0], &[]), sy("b", &[1], &[]), sy("c", &[0, 1], &[]), tlop.clone()],
                    vec![sy("a", &[], &[]), sy("b", &[], &[]), sy("c", &[], &[])],
                    vec![Op::Batch(crate::spec::BatchSpec { name: "bt".into(), deps: vec![], ctrl: crate::spec::CtrlData::Unit, times: 1, multi: false, fetch_data: false, inner: vec![sy("a", &[0], &[]), sy("b", &[1], &[]), sy("c", &[0], &["a"])] }), sy("z", &[], &[])],
                ];
                jobs.push(E2Job { label: "two systems panicking in one dispatch (same stage / consecutive stages / inside a batch), then a clean dispatch".into(), scenarios: panic_scen(&two, &[Mode::Dispatch, Mode::Seq], true), bounds: b(if q { 1 } else { 2 }), delay: false });
            }
            jobs.push(E2Job { label: "thread-local and batch plans, single panicking system (incl. inside batches, thread-local)".into(), scenarios: panic_scen(&[tl(2), eb(1)].concat(), &[Mode::Dispatch, Mode::Seq], !q), bounds: b(if q { 1 } else { 2 }), delay: false });
            if !q {
                jobs.push(E2Job { label: "small batch plans with an outer system".into(), scenarios: panic_scen(&eb(2), &[Mode::Dispatch], false), bounds: b(0), delay: false });
            }
        }
        "C13" => {
            // AsyncDispatcher::setup, also while a dispatch is in flight and repeatedly
            let sy = |n: &str, w: &[u8]| Op::Sys(crate::spec::SysSpec { name: n.into(), reads: vec![], writes: w.to_vec(), time: 3, deps: vec![] });
            let tlop = || Op::Tl(crate::spec::SysSpec { name: String::new(), reads: vec![], writes: vec![1], time: 3, deps: vec![] });
            let plans: Vec<Vec<Op>> = vec![
                vec![sy("a", &[0])],
                vec![sy("a", &[0]), tlop()],
                vec![sy("a", &[0]), Op::Batch(crate::spec::BatchSpec { name: "b".into(), deps: vec![], ctrl: crate::spec::CtrlData::Unit, times: 1, multi: false, fetch_data: false, inner: vec![sy("i", &[1]), tlop()] })],
            ];
            let mut scs = Vec::new();
            for p in &plans {
                for script in ["S", "SS", "DS", "DSW", "SDS", "DSS", "DWS", "DSDW"] {
                    let mut sc = Scenario::plain(p.clone(), Mode::Async, 0);
                    sc.script = Some(script.to_string());
                    scs.push(sc);
                }
            }
            jobs.push(E2Job { label: "async dispatcher: setup before / during / after a dispatch, repeated".into(), scenarios: scs, bounds: b(if q { 1 } else { 2 }), delay: false });
        }
        "C12" => {
            jobs.push(E2Job { label: "thread-local plans, <= 2 ops".into(), scenarios: scen(&tl(2), &[Mode::Dispatch, Mode::Par, Mode::Seq, Mode::Async], &[1]), bounds: b(if q { 2 } else { 3 }), delay: false });
            jobs.push(E2Job { label: "thread-local plans, <= 2 ops, 2 dispatches".into(), scenarios: scen(&tl(2), &[Mode::Dispatch, Mode::Async], &[2]), bounds: b(if q { 1 } else { 2 }), delay: false });
            {
                // the dispatcher lives on a worker of a FOREIGN pool (of 1 / 2 threads) and is dispatched from there: its
                // thread-local systems run on that worker, after everything its own pool (user-supplied / default) ran
                let mut scs = Vec::new();
                for p in tl(2) {
                    let info = PlanInfo::of(&p);
                    if !info.nodes.iter().any(|n| n.kind == crate::spec::Kind::Tl && n.parent.is_none()) || info.nodes.iter().any(|n| n.parent.is_some()) {
                        continue;
                    }
                    for foreign in [1usize, 2] {
                        for own_user in [Some(2usize), None] {
                            let mut s = Scenario::plain(p.clone(), Mode::Dispatch, 2);
                            s.foreign_pool = Some(foreign);
                            s.user_pool = own_user;
                            scs.push(s);
                        }
                    }
                }
                jobs.push(E2Job { label: "thread-local plans (<= 2 ops, no batch) registered, built and dispatched on a worker of a foreign pool of 1 / 2 threads".into(), scenarios: scs, bounds: b(if q { 0 } else { 1 }), delay: false });
            }
            {
                // more thread-local systems than the inline capacity of the list, next to two ordinary systems
                let tlop = || Op::Tl(crate::spec::SysSpec { name: String::new(), reads: vec![], writes: vec![0], time: 3, deps: vec![] });
                let mut plans = Vec::new();
                for n in [5usize, 6] {
                    let mut p: Vec<Op> = vec![Op::Sys(crate::spec::SysSpec { name: "a".into(), reads: vec![], writes: vec![1], time: 3, deps: vec![] })];
                    for _ in 0..n {
                        p.push(tlop());
                    }
                    p.push(Op::Sys(crate::spec::SysSpec { name: "b".into(), reads: vec![], writes: vec![], time: 3, deps: vec![] }));
                    plans.push(p);
                }
                jobs.push(E2Job { label: "5-6 thread-local systems next to two ordinary ones".into(), scenarios: scen(&plans, &[Mode::Dispatch, Mode::Async], &[1, 2]), bounds: b(1), delay: false });
            }
            {
                // an ordinary system panics: thread-local systems of that dispatch must not start
                let mut scs = Vec::new();
                let mut scs_async = Vec::new();
                for p in tl(2).into_iter().chain(tl(3).into_iter().filter(|p| p.len() == 3).take(200)) {
                    let info = PlanInfo::of(&p);
                    let has_tl = info.nodes.iter().any(|n| n.kind == crate::spec::Kind::Tl && n.parent.is_none());
                    if !has_tl {
                        continue;
                    }
                    for n in &info.nodes {
                        if n.kind == crate::spec::Kind::Sys && n.parent.is_none() {
                            for at_fetch in [false, true] {
                                let mut s = Scenario::plain(p.clone(), Mode::Dispatch, 2);
                                s.panics = vec![(n.id, at_fetch)];
                                scs.push(s);
                                // the same through the async front end: the wait that follows must not run them either
                                if p.len() <= 2 {
                                    let mut s = Scenario::plain(p.clone(), Mode::Async, 1);
                                    s.panics = vec![(n.id, at_fetch)];
                                    scs_async.push(s);
                                }
                            }
                        }
                    }
                }
                jobs.push(E2Job { label: "thread-local plans with a panicking ordinary system".into(), scenarios: scs, bounds: b(1), delay: false });
                // (the controlled runtime's channel does not wake the receiver when an unwinding task drops the sender:
                // where the real wait() unwinds with "Sender dropped" the model blocks the caller - both mean that
                // completion is never reported, and that no thread-local system starts)
                jobs.push(E2Job { label: "thread-local plans with a panicking ordinary system, async dispatch + wait (blocked caller expected)".into(), scenarios: scs_async, bounds: b(1), delay: false });
                // a thread-local system panics (caught): the next dispatch still runs every thread-local system, in order
                let mut scs = Vec::new();
                for p in tl(2).into_iter().chain(tl(3).into_iter().filter(|p| p.len() == 3).take(200)) {
                    let info = PlanInfo::of(&p);
                    for n in &info.nodes {
                        if n.kind == crate::spec::Kind::Tl && n.parent.is_none() {
                            for at_fetch in [false, true] {
                                let mut s = Scenario::plain(p.clone(), Mode::Dispatch, 2);
                                s.panics = vec![(n.id, at_fetch)];
                                scs.push(s);
                            }
                        }
                    }
                }
                jobs.push(E2Job { label: "thread-local plans with a panicking thread-local system, then a clean dispatch".into(), scenarios: scs, bounds: b(1), delay: false });
            }
            {
                // async dispatcher: whatever is called between dispatch and wait (polling, the other accessors, a
                // second dispatch), the wait that follows a dispatch runs every thread-local system once
                let mut scs = Vec::new();
                for p in tl(2) {
                    let info = PlanInfo::of(&p);
                    if !info.nodes.iter().any(|n| n.kind == crate::spec::Kind::Tl && n.parent.is_none()) {
                        continue;
                    }
                    for script in ["DW", "DRW", "DRRW", "DXW", "DOW", "DMW", "DSW", "DWW", "DWDW", "DDW", "DXDW", "DRDRW", "DWRW"] {
                        let mut sc = Scenario::plain(p.clone(), Mode::Async, 0);
                        sc.script = Some(script.to_string());
                        scs.push(sc);
                    }
                }
                jobs.push(E2Job { label: "async scripts over thread-local plans (<= 2 ops): polling / accessors / second dispatch between dispatch and wait".into(), scenarios: scs, bounds: b(if q { 1 } else { 2 }), delay: false });
            }
            {
                // controllers that dispatch the inner plan 0, 2 or 3 times: the inner thread-local systems run in EVERY pass,
                // after that pass's ordinary systems
                let sy = |n: &str, w: &[u8]| Op::Sys(crate::spec::SysSpec { name: n.into(), reads: vec![], writes: w.to_vec(), time: 3, deps: vec![] });
                let tlop = |w: &[u8]| Op::Tl(crate::spec::SysSpec { name: String::new(), reads: vec![], writes: w.to_vec(), time: 3, deps: vec![] });
                let mut plans = Vec::new();
                for multi in [false, true] {
                    for times in [0u8, 2, 3] {
                        for inner in [vec![sy("a", &[0]), tlop(&[0])], vec![sy("a", &[0]), sy("b", &[0]), tlop(&[]), tlop(&[0])], vec![tlop(&[])]] {
                            let batch = Op::Batch(crate::spec::BatchSpec { name: "b".into(), deps: vec![], ctrl: crate::spec::CtrlData::Unit, times, multi, fetch_data: false, inner });
                            plans.push(vec![batch.clone(), tlop(&[])]);
                            plans.push(vec![batch]);
                        }
                    }
                }
                jobs.push(E2Job { label: "batches whose controller dispatches 0 / 2 / 3 times (hand-written and MultiDispatcher) with thread-local systems inside".into(), scenarios: scen(&plans, &[Mode::Dispatch], &[1, 2]), bounds: b(if q { 0 } else { 1 }), delay: false });
            }
            {
                // pool-size sweep: a user-supplied / default pool of 1, 2, 3 threads (a one-thread pool included): the
                // thread-local systems run all the same, at top level and inside a batch (which shares the pool)
                let sy = |n: &str, w: &[u8]| Op::Sys(crate::spec::SysSpec { name: n.into(), reads: vec![], writes: w.to_vec(), time: 3, deps: vec![] });
                let tlop = |w: &[u8]| Op::Tl(crate::spec::SysSpec { name: String::new(), reads: vec![], writes: w.to_vec(), time: 3, deps: vec![] });
                let mut plans: Vec<Vec<Op>> = tl(2).into_iter().filter(|p| p.iter().any(|o| matches!(o, Op::Tl(_)))).collect();
                for multi in [false, true] {
                    let batch = Op::Batch(crate::spec::BatchSpec { name: "b".into(), deps: vec![], ctrl: crate::spec::CtrlData::Unit, times: 2, multi, fetch_data: false, inner: vec![sy("a", &[0]), tlop(&[0]), tlop(&[])] });
                    plans.push(vec![batch.clone(), tlop(&[])]);
                    plans.push(vec![sy("o", &[1]), batch]);
                }
                let mut scs = Vec::new();
                for p in &plans {
                    for n in [1usize, 2, 3] {
                        for user in [true, false] {
                            for mode in [Mode::Dispatch, Mode::Async] {
                                let mut s = Scenario::plain(p.clone(), mode, 2);
                                if user {
                                    s.user_pool = Some(n);
                                } else {
                                    s.default_threads = Some(n);
                                }
                                scs.push(s);
                            }
                        }
                    }
                }
                jobs.push(E2Job { label: "pool-size sweep: thread-local plans (top level, inside hand-written / MultiDispatcher batches) on user-supplied / default pools of 1..3 threads".into(), scenarios: scs, bounds: b(if q { 0 } else { 1 }), delay: false });
            }
            {
                // the last of two dispatches is issued from a destructor while the calling thread unwinds from an unrelated
                // panic (a scope guard running a final frame): it is a dispatch like any other
                let mut scs = Vec::new();
                for p in tl(2).into_iter().filter(|p| p.iter().any(|o| matches!(o, Op::Tl(_)))) {
                    for mode in [Mode::Dispatch, Mode::Par, Mode::Seq] {
                        let mut s = Scenario::plain(p.clone(), mode, 2);
                        s.last_in_unwind = true;
                        scs.push(s);
                    }
                }
                jobs.push(E2Job { label: "thread-local plans, the second dispatch issued from a destructor during an unrelated unwind".into(), scenarios: scs, bounds: b(if q { 0 } else { 1 }), delay: false });
            }
            jobs.push(E2Job { label: "thread-local plans, 3 ops".into(), scenarios: scen(&tl(3).into_iter().filter(|p| p.len() == 3).collect::<Vec<_>>(), &[Mode::Dispatch, Mode::Async], &[1]), bounds: b(if q { 1 } else { 2 }), delay: false });
            if !q {
                jobs.push(E2Job { label: "thread-local plans, 4 ops".into(), scenarios: scen(&tl(4).into_iter().filter(|p| p.len() == 4).collect::<Vec<_>>(), &[Mode::Dispatch], &[1]), bounds: b(1), delay: false });
            }
        }
        _ => {}
    }
    jobs
}

pub fn run_e2(prop: &str, tier: Tier, budget: Duration, frag: &mut Frag) {
    let jobs = e2_jobs(prop, tier);
    if jobs.is_empty() {
        return;
    }
    let mon = Mon::of(prop);
    let start = Instant::now();
    let njobs = jobs.len();
    for (k, job) in jobs.into_iter().enumerate() {
        let remaining = budget.saturating_sub(start.elapsed());
        let share = remaining / (njobs - k) as u32;
        let t0 = Instant::now();
        let opts = ExploreOpts { bounds: job.bounds.clone(), all_points: false, deadline: t0 + share, max_execs: u64::MAX, keep_traces: 4, deadlock_prop: if job.label.contains("(blocked caller expected)") { Some("EXPECTED-BLOCKED-CALLER") } else { None }, delay_mode: job.delay };
        let r = run_scenarios(&job.scenarios, mon, &opts);
        let wall = t0.elapsed().as_secs_f64();
        frag.parts.push(json!({
            "engine": "E2 schedmc",
            "scenarios": job.label,
            "n_scenarios": job.scenarios.len(),
            "scenarios_completed": r.completed,
            "preemption_bounds": job.bounds,
            "bound_kind": if job.delay { "delay (all deviations)" } else { "preemptions" },
            "min_bound_completed": r.min_bound,
            "schedules": r.executions,
            "states": r.nodes,
            "transitions": r.transitions,
            "distinct_event_traces": r.traces,
            "max_distinct_outcomes_per_scenario": r.max_outcomes,
            "window_overlaps_witnessed": r.overlaps,
            "cap_hit": r.capped,
            "wall_s": wall,
        }));
        frag.states += r.nodes;
        frag.transitions += r.transitions;
        frag.exhaustive &= !r.capped;
        if let Some(s) = r.sample {
            if frag.samples.len() < 8 {
                frag.samples.push(s);
            }
        }
        frag.e2_traces.extend(r.kept);
        frag.col.merge(r.col);
    }
}

pub struct MultiResult {
    pub executions: u64,
    pub nodes: u64,
    pub transitions: u64,
    pub traces: u64,
    pub max_outcomes: u64,
    pub overlaps: u64,
    pub capped: bool,
    pub completed: usize,
    pub min_bound: i64,
    pub deadlocks: u64,
    pub col: Collector,
    pub sample: Option<Value>,
    pub kept: Vec<Value>,
}

pub fn run_scenarios(scs: &[Scenario], mon: Mon, opts: &ExploreOpts) -> MultiResult {
    use std::sync::atomic::{AtomicUsize, Ordering};
    let next = AtomicUsize::new(0);
    let results: std::sync::Mutex<Vec<(usize, ScResult)>> = std::sync::Mutex::new(Vec::new());
    let _ = &next;
    let scs_arc = std::sync::Arc::new(scs.to_vec());
    let next_arc = std::sync::Arc::new(AtomicUsize::new(0));
    let res_arc: std::sync::Arc<std::sync::Mutex<Vec<(usize, ScResult)>>> = std::sync::Arc::new(std::sync::Mutex::new(Vec::new()));
    std::thread::scope(|s| {
        for _ in 0..threads().min(scs.len().max(1)) {
            let (a, n, r, o) = (scs_arc.clone(), next_arc.clone(), res_arc.clone(), opts.clone());
            s.spawn(move || {
                let mut d = crate::schedmc::Driver::new(a, n, mon, o, r);
                crate::sched::run_jobs(Box::new(move || d.next_job()));
            });
        }
    });
    results.lock().unwrap().extend(std::mem::take(&mut *res_arc.lock().unwrap()));
    let mut m = MultiResult { executions: 0, nodes: 0, transitions: 0, traces: 0, max_outcomes: 0, overlaps: 0, capped: false, completed: 0, min_bound: i64::MAX, deadlocks: 0, col: Collector::default(), sample: None, kept: vec![] };
    let mut rs = results.into_inner().unwrap();
    rs.sort_by_key(|x| x.0);
    for (i, r) in rs {
        m.executions += r.stats.executions;
        m.nodes += r.stats.nodes;
        m.transitions += r.stats.transitions;
        m.traces += r.stats.distinct_traces;
        m.max_outcomes = m.max_outcomes.max(r.stats.distinct_outcomes);
        m.overlaps += r.stats.overlaps_seen;
        m.deadlocks += r.stats.deadlocks;
        m.capped |= r.stats.capped;
        if !r.stats.capped {
            m.completed += 1;
        }
        m.min_bound = m.min_bound.min(r.stats.bound_completed);
        if let Some(d) = r.divergence {
            m.col.add(crate::report::Finding { prop: "MACHINERY".into(), sig: "divergence".into(), msg: format!("{} | {}", d, plan_short(&scs[i].ops)), replay: json!({}), size: 0 });
        }
        if m.sample.is_none() && r.stats.distinct_traces > 3 {
            if let Some(t) = r.traces.last() {
                m.sample = Some(json!({"scenario": scs[i].to_json()["plan"], "mode": scs[i].mode.label(), "schedules": r.stats.executions, "distinct_traces": r.stats.distinct_traces,
                    "one_trace": t.iter().map(|(k, s)| format!("{:?}({})", k, s)).collect::<Vec<_>>().join(" ")}));
            }
        }
        for t in &r.traces {
            m.kept.push(json!({"scenario": scs[i].to_json(), "trace": t.iter().map(|(k, s)| json!([format!("{:?}", k), s])).collect::<Vec<_>>()}));
        }
        m.col.merge(r.col);
    }
    if m.min_bound == i64::MAX {
        m.min_bound = -1;
    }
    m
}

// ---------------------------------------------------------------------------
// C11: side-by-side systems really run in parallel
// ---------------------------------------------------------------------------

std::thread_local! {
    /// running-time hint of the systems of `wide_stage` (C11 sweeps it: code may treat "cheap" stages differently)
    static WIDE_HINT: std::cell::Cell<u8> = const { std::cell::Cell::new(3) };
}

fn wide_stage(w: usize) -> Vec<Op> {
    let t = WIDE_HINT.with(|h| h.get());
    (0..w).map(|i| Op::Sys(crate::spec::SysSpec { name: format!("s{}", i), reads: vec![], writes: vec![], time: t, deps: vec![] })).collect()
}

fn c11_scenarios(w: usize, n: usize) -> Vec<(String, Scenario)> {
    let mut v = Vec::new();
    let ids: Vec<usize> = (0..w).collect();
    // top level, user-supplied pool / default pool, dispatch and async
    for (label, user) in [("user-supplied pool", true), ("default pool", false)] {
        for (mode, d) in [(Mode::Dispatch, 2u8), (Mode::Par, 1), (Mode::Async, 2)] {
            let mut s = Scenario::plain(wide_stage(w), mode, d);
            if user {
                s.user_pool = Some(n);
            } else {
                s.default_threads = Some(n);
            }
            s.rendezvous = Some((ids.clone(), w as u16));
            v.push((format!("{} / {} / width {} / {} threads", label, mode.label(), w, n), s));
        }
    }
    // a first group of TWO systems (a very short writer of A, then a short reader of A that takes part in the
    // rendezvous) beside w-1 single-system groups: what the worker of the first group does between its two
    // systems must not keep a sibling group from running beside the reader
    if w <= 4 {
        let mut ops = vec![Op::Sys(crate::spec::SysSpec { name: "pre".into(), reads: vec![], writes: vec![0], time: 1, deps: vec![] })];
        for i in 1..w {
            ops.push(Op::Sys(crate::spec::SysSpec { name: format!("s{}", i), reads: vec![], writes: vec![], time: 3, deps: vec![] }));
        }
        ops.push(Op::Sys(crate::spec::SysSpec { name: "reader".into(), reads: vec![0], writes: vec![], time: 2, deps: vec![] }));
        // the layout this relies on: one stage of w groups, the reader in the writer's group
        let one_stage = crate::obs::layout_of(&ops, &crate::hsys::Ctx::identity_map()).map(|l| l.stages.len() == 1 && l.stages[0].len() == w && l.stages[0].iter().any(|g| g == &vec![0, w])).unwrap_or(false);
        if one_stage {
            for user in [true, false] {
                for (mode, d) in [(Mode::Dispatch, 2u8), (Mode::Async, 2)] {
                    let mut s = Scenario::plain(ops.clone(), mode, d);
                    if user {
                        s.user_pool = Some(n);
                    } else {
                        s.default_threads = Some(n);
                    }
                    s.rendezvous = Some(((1..=w).collect(), w as u16));
                    v.push((format!("first group of two systems / {} / width {} / {} threads", mode.label(), w, n), s));
                }
            }
        }
    }
    // async: further dispatches issued before the first wait (each blocks the caller until the one in front
    // of it has completed) must not cost the stage in flight a pool thread
    for script in if w <= 2 { &["DDW", "DDDW", "DRDW"][..] } else { &["DDW"][..] } {
        for user in [true, false] {
            let mut s = Scenario::plain(wide_stage(w), Mode::Async, 0);
            if user {
                s.user_pool = Some(n);
            } else {
                s.default_threads = Some(n);
            }
            s.script = Some(script.to_string());
            s.rendezvous = Some((ids.clone(), w as u16));
            v.push((format!("async script {} / width {} / {} threads", script, w, n), s));
        }
    }
    // dispatch called from a worker of a foreign one-thread pool: the dispatcher's own pool must be used
    for user in [true, false] {
        let mut s = Scenario::plain(wide_stage(w), Mode::Dispatch, 2);
        if user {
            s.user_pool = Some(n);
        } else {
            s.default_threads = Some(n);
        }
        s.foreign_pool = Some(1);
        s.rendezvous = Some((ids.clone(), w as u16));
        v.push((format!("dispatch from a worker of a foreign 1-thread pool / width {} / own pool of {} threads", w, n), s));
    }
    // a group of two systems beside a one-system group: the lone system meets the SECOND system of the other group
    // (the groups of a stage are independent sequences, not positions that advance in lock step)
    if w == 2 {
        let sy = |n: &str, r: &[u8], wr: &[u8], t: u8| Op::Sys(crate::spec::SysSpec { name: n.into(), reads: r.to_vec(), writes: wr.to_vec(), time: t, deps: vec![] });
        let trio = || vec![sy("lone", &[], &[], 5), sy("head", &[], &[0], 1), sy("tail", &[0], &[], 1)];
        for user in [true, false] {
            for mode in [Mode::Dispatch, Mode::Async] {
                let mut s = Scenario::plain(trio(), mode, 2);
                if user {
                    s.user_pool = Some(n);
                } else {
                    s.default_threads = Some(n);
                }
                s.rendezvous = Some((vec![0, 2], 2));
                v.push((format!("lone system meets the second system of a two-system group / {} threads", n), s));
            }
        }
        let mut s = Scenario::plain(vec![Op::Batch(crate::spec::BatchSpec { name: "b".into(), deps: vec![], ctrl: crate::spec::CtrlData::Unit, times: 1, multi: false, fetch_data: false, inner: trio() })], Mode::Dispatch, 1);
        s.user_pool = Some(n);
        s.rendezvous = Some((vec![1, 3], 2));
        v.push((format!("the same inside a batch / {} threads", n), s));
    }
    // the user-supplied pool handed over late: after the registrations (the batch's sub-dispatcher has been
    // built by then and the default pool is one thread wide), or after a one-thread decoy pool
    for placement in [1u8, 2] {
        for batch in [false, true] {
            let (ops, rv): (Vec<Op>, Vec<usize>) = if batch {
                (vec![Op::Batch(crate::spec::BatchSpec { name: "b".into(), deps: vec![], ctrl: crate::spec::CtrlData::Unit, times: 1, multi: false, fetch_data: false, inner: wide_stage(w) })], (1..=w).collect())
            } else {
                (wide_stage(w), ids.clone())
            };
            for mode in [Mode::Dispatch, Mode::Async] {
                let mut s = Scenario::plain(ops.clone(), mode, 2);
                s.user_pool = Some(n);
                s.default_threads = Some(1);
                s.pool_placement = placement;
                s.rendezvous = Some((rv.clone(), w as u16));
                v.push((format!("user pool handed over late (placement {}) / width {} / {} threads", placement, w, n), s));
            }
        }
    }
    // a narrow batch registered (and therefore built) first, then the wide stage: behind a barrier, beside the
    // batch, and as the inner stage of a second batch; the pool (default or user-supplied) is shared by all
    {
        let bs = |name: &str, inner: Vec<Op>| Op::Batch(crate::spec::BatchSpec { name: name.into(), deps: vec![], ctrl: crate::spec::CtrlData::Unit, times: 1, multi: false, fetch_data: false, inner });
        let one = || vec![Op::Sys(crate::spec::SysSpec { name: "n0".into(), reads: vec![], writes: vec![], time: 3, deps: vec![] })];
        for user in [false, true] {
            for variant in 0..3 {
                let mut ops = vec![bs("narrow", one())];
                // ids: batch 0, its inner system 1
                let rv: Vec<usize> = match variant {
                    0 => {
                        ops.push(Op::Barrier);
                        ops.extend(wide_stage(w));
                        (2..2 + w).collect()
                    }
                    1 => {
                        ops.extend(wide_stage(w));
                        (2..2 + w).collect()
                    }
                    _ => {
                        ops.push(Op::Barrier);
                        ops.push(bs("wide", wide_stage(w)));
                        (3..3 + w).collect()
                    }
                };
                // beside the batch the stage has w + 1 groups: one more thread keeps the rendezvous within the property's domain
                let threads = if variant == 1 && n >= w { n + 1 } else { n };
                let mut s = Scenario::plain(ops, Mode::Dispatch, 1);
                if user {
                    s.user_pool = Some(threads);
                } else {
                    s.default_threads = Some(threads);
                }
                s.rendezvous = Some((rv, w as u16));
                v.push((format!("narrow batch first, then width {} (variant {}) / {} threads", w, variant, threads), s));
            }
        }
    }
    // a batch whose inner stage is the wide one, sharing its outer stage with a trivial sibling registered after /
    // before it (the sibling's job may still sit in a queue when the controller starts): hand-written controller
    // and the library's MultiDispatcher, one and two inner dispatches
    for multi in [false, true] {
        for sibling_first in [false, true] {
            for times in [1u8, 2] {
                // the full cross for width 2; for wider stages the MultiDispatcher with the sibling registered after it
                let keep = if w == 2 { !(times == 2 && (sibling_first || !multi)) } else { multi && !sibling_first && times == 1 };
                if !keep {
                    continue;
                }
                let sib = Op::Sys(crate::spec::SysSpec { name: "sib".into(), reads: vec![], writes: vec![], time: 3, deps: vec![] });
                let b = Op::Batch(crate::spec::BatchSpec { name: "b".into(), deps: vec![], ctrl: crate::spec::CtrlData::Unit, times, multi, fetch_data: false, inner: wide_stage(w) });
                let (ops, first) = if sibling_first { (vec![sib, b], 2usize) } else { (vec![b, sib], 1usize) };
                // the sibling may occupy a thread: one more keeps the rendezvous within the property's domain
                let threads = if n >= w { n + 1 } else { n };
                for user in [true, false] {
                    let mut s = Scenario::plain(ops.clone(), Mode::Dispatch, 1);
                    if user {
                        s.user_pool = Some(threads);
                    } else {
                        s.default_threads = Some(threads);
                    }
                    s.rendezvous = Some(((first..first + w).collect(), w as u16));
                    v.push((format!("batch ({} controller, x{}) beside a sibling registered {} it / inner width {} / {} threads", if multi { "MultiDispatcher" } else { "hand-written" }, times, if sibling_first { "before" } else { "after" }, w, threads), s));
                }
            }
        }
    }
    // a history on one thread: a `dispatch_seq` in which a system panics (caught by the caller), then an ordinary
    // dispatch - the stage behind the barrier still runs side by side
    if w <= 4 {
        let mut ops = vec![Op::Sys(crate::spec::SysSpec { name: "p".into(), reads: vec![], writes: vec![], time: 3, deps: vec![] }), Op::Barrier];
        ops.extend(wide_stage(w));
        for user in [true, false] {
            let mut s = Scenario::plain(ops.clone(), Mode::Dispatch, 2);
            if user {
                s.user_pool = Some(n);
            } else {
                s.default_threads = Some(n);
            }
            s.first_seq = true;
            s.panics = vec![(0, false)];
            s.rendezvous = Some(((1..=w).collect(), w as u16));
            v.push((format!("dispatch_seq with a panicking system (caught), then dispatch / width {} / {} threads", w, n), s));
        }
    }
    // the wide stage inside a batch inside a batch: the innermost dispatcher runs on the pool its own builder made
    // (finding KF3), which here is as wide as the shared one - it must still run the stage in parallel
    if w <= 4 {
        let mid = vec![Op::Batch(crate::spec::BatchSpec { name: "n".into(), deps: vec![], ctrl: crate::spec::CtrlData::Unit, times: 1, multi: false, fetch_data: false, inner: wide_stage(w) })];
        let top = vec![Op::Batch(crate::spec::BatchSpec { name: "b".into(), deps: vec![], ctrl: crate::spec::CtrlData::Unit, times: 1, multi: false, fetch_data: false, inner: mid })];
        for user in [false, true] {
            for mode in [Mode::Dispatch, Mode::Async] {
                let mut s = Scenario::plain(top.clone(), mode, if user { 1 } else { 2 });
                s.default_threads = Some(n);
                if user {
                    s.user_pool = Some(n);
                }
                s.rendezvous = Some(((2..2 + w).collect(), w as u16));
                v.push((format!("stage inside a batch inside a batch / default pool of {} threads{} / width {}", n, if user { " and a user-supplied pool of the same size" } else { "" }, w), s));
            }
        }
    }
    // batch-inner stage
    let inner = wide_stage(w);
    let batch = vec![Op::Batch(crate::spec::BatchSpec { name: "b".into(), deps: vec![], ctrl: crate::spec::CtrlData::Unit, times: 1, multi: false, fetch_data: false, inner })];
    let mut s = Scenario::plain(batch, Mode::Dispatch, 1);
    s.user_pool = Some(n);
    s.rendezvous = Some(((1..=w).collect(), w as u16));
    v.push((format!("batch-inner stage / dispatch / width {} / {} threads", w, n), s));
    v
}

pub fn run_c11(tier: Tier, budget: Duration, frag: &mut Frag) {
    let q = tier == Tier::Quick;
    let start = Instant::now();
    let mon = Mon::of("C04");
    // (width, preemption bound or delay bound, delay mode)
    let mut cfgs: Vec<(usize, u32, bool)> = vec![(2, 2, false), (3, 1, false)];
    if q {
        cfgs.extend([(4, 2, true), (6, 1, true), (8, 1, true)]);
    } else {
        cfgs.extend([(3, 2, false), (4, 1, false), (4, 3, true), (5, 2, true), (6, 2, true), (8, 2, true), (12, 1, true), (16, 1, true)]);
    }
    // cheap configurations first (delay-bounded ones, then by width): what they do not use is passed on
    cfgs.sort_by_key(|(w, b, delay)| (!*delay, *w as u32 * (*b + 1)));
    let mut neg_deadlocks = 0u64;
    let mut neg_runs = 0u64;
    let ncfg = cfgs.len() as u32;
    for (ci, (w, bound, delay)) in cfgs.into_iter().enumerate() {
        // every configuration gets its share of the budget; unused time is passed on
        let deadline = Instant::now() + (budget.saturating_sub(start.elapsed())) / (ncfg - ci as u32);
        // positive: pool size >= width must never deadlock
        for (ni, n) in [w, w + 1].into_iter().enumerate() {
            // the second pool size gets at least the second half of the configuration's share
            let deadline = if ni == 0 { Instant::now() + deadline.saturating_duration_since(Instant::now()) / 2 } else { deadline };
            let mut scs: Vec<Scenario> = c11_scenarios(w, n).into_iter().map(|x| x.1).collect();
            if w <= 4 && ni == 0 {
                // the same stages made of systems that call themselves very cheap / very expensive
                for hint in [1u8, 5] {
                    WIDE_HINT.with(|h| h.set(hint));
                    scs.extend(c11_scenarios(w, n).into_iter().map(|x| x.1).filter(|s| s.script.is_none()));
                    WIDE_HINT.with(|h| h.set(3));
                }
            }
            let opts = ExploreOpts { bounds: (0..=bound).collect(), all_points: false, deadline, max_execs: u64::MAX, keep_traces: 1, deadlock_prop: Some("C11"), delay_mode: delay };
            let t0 = Instant::now();
            let r = run_scenarios(&scs, mon, &opts);
            frag.parts.push(json!({
                "engine": "E2 schedmc", "scenarios": format!("rendezvous of {} side-by-side systems, pool of {} threads (user pool, default pool, async, batch-inner)", w, n),
                "n_scenarios": scs.len(), "scenarios_completed": r.completed, "bound": bound, "bound_kind": if delay { "delay (all deviations)" } else { "preemptions" },
                "schedules": r.executions, "states": r.nodes, "transitions": r.transitions, "deadlocks": r.deadlocks, "cap_hit": r.capped, "wall_s": t0.elapsed().as_secs_f64(),
            }));
            frag.states += r.nodes;
            frag.transitions += r.transitions;
            frag.exhaustive &= !r.capped;
            if frag.samples.len() < 3 {
                if let Some(s) = r.sample {
                    frag.samples.push(s);
                }
            }
            frag.e2_traces.extend(r.kept);
            // C04 findings of the monitor are not C11's business, deadlocks are
            let mut col = Collector::default();
            for ((p, sg), (f, _)) in r.col.best {
                if p == "C11" || p == "MACHINERY" {
                    let _ = sg;
                    col.add(f);
                }
            }
            frag.col.merge(col);
        }
        // negative control: one thread too few must deadlock
        if w >= 2 {
            let scs: Vec<Scenario> = c11_scenarios(w, w - 1).into_iter().map(|x| x.1).collect();
            // the control has its own (short) deadline: it must not be starved by the positive runs
            let opts = ExploreOpts { bounds: vec![0], all_points: false, deadline: Instant::now() + Duration::from_secs(60), max_execs: 64, keep_traces: 0, deadlock_prop: Some("NEG"), delay_mode: true };
            let r = run_scenarios(&scs, mon, &opts);
            neg_runs += scs.len() as u64;
            let dl = r.col.best.iter().filter(|((p, _), _)| p == "NEG").count() as u64;
            // every scenario must have deadlocked
            let per_scenario_deadlocks = r.deadlocks;
            neg_deadlocks += per_scenario_deadlocks;
            if per_scenario_deadlocks < scs.len() as u64 || dl == 0 {
                frag.col.add(crate::report::Finding {
                    prop: "MACHINERY".into(),
                    sig: "c11-negative-control-did-not-deadlock".into(),
                    msg: format!("width {} with a pool of {} threads deadlocked in only {} of {} scenarios: the check is vacuous", w, w - 1, per_scenario_deadlocks, scs.len()),
                    replay: json!({}),
                    size: 0,
                });
            }
        }
    }
    // a stage inside a batch that is itself inside a batch: the user-supplied pool has enough threads,
    // the default pool (which such a batch silently creates for itself, finding KF3) has one too few
    let deadline = Instant::now() + Duration::from_secs(60);
    for w in [2usize, 3] {
        let inner = wide_stage(w);
        let mid = vec![Op::Batch(crate::spec::BatchSpec { name: "n".into(), deps: vec![], ctrl: crate::spec::CtrlData::Unit, times: 1, multi: false, fetch_data: false, inner })];
        let top = vec![Op::Batch(crate::spec::BatchSpec { name: "b".into(), deps: vec![], ctrl: crate::spec::CtrlData::Unit, times: 1, multi: false, fetch_data: false, inner: mid })];
        let mut s = Scenario::plain(top, Mode::Dispatch, 1);
        s.user_pool = Some(w + 1);
        s.default_threads = Some(w - 1);
        s.rendezvous = Some(((2..2 + w).collect(), w as u16));
        let opts = ExploreOpts { bounds: vec![0, 1], all_points: false, deadline, max_execs: u64::MAX, keep_traces: 0, deadlock_prop: Some("C11"), delay_mode: false };
        let r = run_scenarios(&[s], mon, &opts);
        frag.states += r.nodes;
        frag.transitions += r.transitions;
        frag.parts.push(json!({"engine":"E2 schedmc","scenarios": format!("stage of width {} inside a batch inside a batch; user-supplied pool of {} threads, default pool of {}", w, w + 1, w - 1), "schedules": r.executions, "deadlocks": r.deadlocks}));
        for ((p, _), (mut f, _)) in r.col.best {
            if p == "C11" {
                f.sig = "nested-batch-ignores-shared-pool".into();
                frag.col.add(f);
            } else if p == "MACHINERY" {
                frag.col.add(f);
            }
        }
    }
    frag.extra.insert("negative_control".into(), json!({"scenarios_with_one_thread_too_few": neg_runs, "deadlocks_observed": neg_deadlocks}));
    frag.assumptions.push("finite-capacity pool model: a closure holds a slot while it runs and gives it up while blocked in a nested for_each/join/install (rayon's steal-while-waiting)".into());
}

// ---------------------------------------------------------------------------
// C15: async dispatcher scripts
// ---------------------------------------------------------------------------

fn scripts(alpha: &[char], max_len: usize) -> Vec<String> {
    let mut out: Vec<String> = vec![];
    let mut frontier: Vec<String> = vec![String::new()];
    for _ in 0..max_len {
        let mut next = vec![];
        for f in &frontier {
            for a in alpha {
                let mut s = f.clone();
                s.push(*a);
                next.push(s);
            }
        }
        out.extend(next.iter().cloned());
        frontier = next;
    }
    out
}

pub fn run_c15(tier: Tier, budget: Duration, frag: &mut Frag) {
    let q = tier == Tier::Quick;
    let sy = |n: &str, r: &[u8], w: &[u8], deps: &[&str]| Op::Sys(crate::spec::SysSpec { name: n.into(), reads: r.to_vec(), writes: w.to_vec(), time: 3, deps: deps.iter().map(|s| s.to_string()).collect() });
    let tl = || Op::Tl(crate::spec::SysSpec { name: String::new(), reads: vec![], writes: vec![0], time: 3, deps: vec![] });
    let plans: Vec<(&str, Vec<Op>)> = vec![
        ("one system", vec![sy("a", &[], &[0], &[])]),
        ("two side by side", vec![sy("a", &[], &[0], &[]), sy("b", &[], &[1], &[])]),
        ("two stages", vec![sy("a", &[], &[0], &[]), sy("b", &[0], &[], &["a"])]),
        ("one system + thread-local", vec![sy("a", &[], &[0], &[]), tl()]),
        ("two stages + thread-local", vec![sy("a", &[], &[1], &[]), tl(), sy("b", &[], &[1], &[])]),
        ("three systems in two stages", vec![sy("a", &[], &[0], &[]), sy("b", &[], &[1], &[]), sy("c", &[0, 1], &[], &[])]),
    ];
    let alpha = ['D', 'R', 'W', 'X', 'O', 'M', 'S'];
    let start = Instant::now();
    let jobs: Vec<(usize, Vec<u32>, usize)> = if q {
        // (script length, bounds, number of plans used)
        vec![(3, vec![0, 1, 2, 3], 2), (3, vec![0, 1, 2], 6), (4, vec![0, 1], 4), (5, vec![0], 2)]
    } else {
        vec![(3, vec![0, 1, 2, 3], 6), (4, vec![0, 1, 2], 6), (5, vec![0, 1], 3), (5, vec![0, 1, 2], 1)]
    };
    // a background system panics (the pool has a panic handler: the stand-in swallows the payload): no
    // accessor may then return normally as if the dispatch had completed
    {
        let mut scs = Vec::new();
        for (_, p) in plans.iter().take(6) {
            let info = PlanInfo::of(p);
            for n in &info.nodes {
                if n.kind != crate::spec::Kind::Sys {
                    continue;
                }
                for s in ["DW", "DX", "DO", "DM", "DR", "DRW", "DD", "DWD", "DS"] {
                    let mut sc = Scenario::plain(p.clone(), Mode::Async, 0);
                    sc.script = Some(s.to_string());
                    sc.panics = vec![(n.id, false)];
                    scs.push(sc);
                }
            }
        }
        let t0 = Instant::now();
        // the controlled runtime's channel does not wake the receiver when the sender is dropped by an unwinding
        // task, so where the real channel makes the caller unwind with "Sender dropped" the model blocks the
        // caller forever; both mean "completion is never reported", so a blocked caller is not a finding here
        let opts = ExploreOpts { bounds: vec![0, 1], all_points: false, deadline: t0 + budget / 4, max_execs: u64::MAX, keep_traces: 0, deadlock_prop: Some("EXPECTED-BLOCKED-CALLER"), delay_mode: false };
        let r = run_scenarios(&scs, Mon::default(), &opts);
        frag.parts.push(json!({"engine":"E2 schedmc","scenarios":"a background system panics whenever it runs: 9 scripts x every system of 6 plans; a call may unwind or block, it must not return as if the dispatch had completed","n_scenarios":scs.len(),"scenarios_completed":r.completed,"schedules":r.executions,"states":r.nodes,"transitions":r.transitions,"deadlocks":r.deadlocks,"cap_hit":r.capped,"wall_s":t0.elapsed().as_secs_f64()}));
        frag.states += r.nodes;
        frag.transitions += r.transitions;
        frag.exhaustive &= !r.capped;
        frag.col.merge(r.col);
    }
    // a system's setup hook panics the first time (the caller catches it, sets up again - successfully - and goes
    // on): every later dispatch runs every system once
    {
        let mut scs = Vec::new();
        for (_, p) in plans.iter().take(6) {
            let info = PlanInfo::of(p);
            for n in &info.nodes {
                for s in ["SSDW", "SSDWDW", "SDW", "SSDDW"] {
                    let mut sc = Scenario::plain(p.clone(), Mode::Async, 0);
                    sc.script = Some(s.to_string());
                    sc.setup_panics = vec![n.id];
                    scs.push(sc);
                }
            }
        }
        let t0 = Instant::now();
        let opts = ExploreOpts { bounds: vec![0, 1], all_points: false, deadline: t0 + budget / 6, max_execs: u64::MAX, keep_traces: 0, deadlock_prop: Some("C15"), delay_mode: false };
        let r = run_scenarios(&scs, Mon::default(), &opts);
        frag.parts.push(json!({"engine":"E2 schedmc","scenarios":"the first setup call of one system panics (caught by the caller, who sets up again and dispatches): scripts SSDW, SSDWDW, SDW, SSDDW x every system of 6 plans","n_scenarios":scs.len(),"scenarios_completed":r.completed,"schedules":r.executions,"states":r.nodes,"transitions":r.transitions,"deadlocks":r.deadlocks,"cap_hit":r.capped,"wall_s":t0.elapsed().as_secs_f64()}));
        frag.states += r.nodes;
        frag.transitions += r.transitions;
        frag.exhaustive &= !r.capped;
        frag.col.merge(r.col);
    }
    // feature interactions: every zoo sequence of <= 2 registrations that has a batch and a thread-local system
    // (top-level or inside a batch): thread-local systems of the top level run only inside wait, on the caller
    {
        let zoo = distinct_plans(&Profile::Z { inner_max: 1 }, 2, 1);
        fn has_tl(ops: &[Op]) -> bool {
            ops.iter().any(|o| matches!(o, Op::Tl(_)) || matches!(o, Op::Batch(b) if has_tl(&b.inner)))
        }
        let mut scs = Vec::new();
        for p in zoo.iter().filter(|p| p.iter().any(|o| matches!(o, Op::Batch(_))) && has_tl(p)) {
            for script in ["DW", "DRW", "DXW", "DWDW"] {
                let mut sc = Scenario::plain(p.clone(), Mode::Async, 0);
                sc.script = Some(script.to_string());
                scs.push(sc);
            }
        }
        let t0 = Instant::now();
        let opts = ExploreOpts { bounds: vec![0, 1], all_points: false, deadline: t0 + budget / 5, max_execs: u64::MAX, keep_traces: 0, deadlock_prop: Some("C15"), delay_mode: true };
        let r = run_scenarios(&scs, Mon::default(), &opts);
        frag.parts.push(json!({"engine":"E2 schedmc","scenarios":"feature zoo: every sequence of <= 2 registrations with a batch and a thread-local system (top-level or inner); scripts DW, DRW, DXW, DWDW","n_scenarios":scs.len(),"scenarios_completed":r.completed,"bound_kind":"delay (all deviations)","bounds":[0,1],"schedules":r.executions,"states":r.nodes,"transitions":r.transitions,"deadlocks":r.deadlocks,"cap_hit":r.capped,"wall_s":t0.elapsed().as_secs_f64()}));
        frag.states += r.nodes;
        frag.transitions += r.transitions;
        frag.exhaustive &= !r.capped;
        // KF1 / KF2 (thread-local systems inside batches) are C12's / C01's business
        let mut col = Collector::default();
        for ((p, _), (f, _)) in r.col.best {
            if p == "C15" || p == "MACHINERY" {
                col.add(f);
            }
        }
        frag.col.merge(col);
    }
    // the dispatcher is built and driven from a worker of its own (user-supplied) pool
    {
        let mut scs = Vec::new();
        for (_, p) in plans.iter().take(4) {
            for script in ["DW", "DWDW", "DRW", "DXW", "DDW", "DOW"] {
                for n in [2usize, 3] {
                    let mut sc = Scenario::plain(p.clone(), Mode::Async, 0);
                    sc.script = Some(script.to_string());
                    sc.user_pool = Some(n);
                    sc.script_in_pool = true;
                    scs.push(sc);
                }
            }
        }
        let t0 = Instant::now();
        let opts = ExploreOpts { bounds: vec![0, 1], all_points: false, deadline: t0 + budget / 5, max_execs: u64::MAX, keep_traces: 0, deadlock_prop: Some("C15"), delay_mode: false };
        let r = run_scenarios(&scs, Mon::default(), &opts);
        frag.parts.push(json!({"engine":"E2 schedmc","scenarios":"the async dispatcher built and driven from inside install() of its own user-supplied pool (2 / 3 threads); 6 scripts x 4 plans","n_scenarios":scs.len(),"scenarios_completed":r.completed,"preemption_bounds":[0,1],"schedules":r.executions,"states":r.nodes,"transitions":r.transitions,"deadlocks":r.deadlocks,"cap_hit":r.capped,"wall_s":t0.elapsed().as_secs_f64()}));
        frag.states += r.nodes;
        frag.transitions += r.transitions;
        frag.exhaustive &= !r.capped;
        frag.col.merge(r.col);
    }
    // plan shapes: every sequence of 2..4|5 stages, each single-group or two groups wide (code that treats runs of
    // single-group stages, or the stage behind them, differently)
    {
        let mut scs = Vec::new();
        let max_stages = if q { 4 } else { 5 };
        for nst in 2..=max_stages {
            for mask in 0..(1u32 << nst) {
                // stage k is wide iff bit k of mask; consecutive stages are separated by a writer/reader alternation on A
                let mut ops: Vec<Op> = Vec::new();
                for k in 0..nst {
                    let wide = mask & (1 << k) != 0;
                    if wide {
                        // two readers of A side by side; forced behind the previous stage by a barrier
                        ops.push(sy(&format!("r{}a", k), &[0], &[], &[]));
                        ops.push(sy(&format!("r{}b", k), &[0], &[], &[]));
                    } else {
                        ops.push(sy(&format!("w{}", k), &[], &[0], &[]));
                    }
                    if k + 1 < nst {
                        ops.push(Op::Barrier);
                    }
                }
                for script in ["DW", "DWDW", "DX", "DDW"] {
                    let mut sc = Scenario::plain(ops.clone(), Mode::Async, 0);
                    sc.script = Some(script.to_string());
                    scs.push(sc);
                }
            }
        }
        // long pipelines: 5..17 single-system stages (and one with a two-wide stage in the middle), dispatched up to
        // three times on the same dispatcher (state that survives from one dispatch to the next)
        for nst in [5usize, 6, 8, 9, 12, 13, 16, 17] {
            for wide_mid in [false, true] {
                if wide_mid && nst > 9 {
                    continue;
                }
                let mut ops: Vec<Op> = Vec::new();
                for k in 0..nst {
                    if wide_mid && k == nst / 2 {
                        ops.push(Op::Barrier);
                        ops.push(sy(&format!("r{}a", k), &[0], &[], &[]));
                        ops.push(sy(&format!("r{}b", k), &[0], &[], &[]));
                        ops.push(Op::Barrier);
                    } else {
                        ops.push(sy(&format!("w{}", k), &[], &[0], &[]));
                    }
                }
                for script in ["DW", "DWDW", "DWDWDW", "DDW", "DXDRW"] {
                    let mut sc = Scenario::plain(ops.clone(), Mode::Async, 0);
                    sc.script = Some(script.to_string());
                    scs.push(sc);
                }
            }
        }
        let t0 = Instant::now();
        let opts = ExploreOpts { bounds: vec![0, 1], all_points: false, deadline: t0 + budget / 5, max_execs: u64::MAX, keep_traces: 0, deadlock_prop: Some("C15"), delay_mode: true };
        let r = run_scenarios(&scs, Mon::default(), &opts);
        frag.parts.push(json!({"engine":"E2 schedmc","scenarios":format!("plan shapes: every sequence of 2..{} stages, each one group or two groups wide; scripts DW, DWDW, DX, DDW; pipelines of 5..17 stages dispatched up to three times", max_stages),"n_scenarios":scs.len(),"scenarios_completed":r.completed,"bound_kind":"delay (all deviations)","bounds":[0,1],"schedules":r.executions,"states":r.nodes,"transitions":r.transitions,"deadlocks":r.deadlocks,"cap_hit":r.capped,"wall_s":t0.elapsed().as_secs_f64()}));
        frag.states += r.nodes;
        frag.transitions += r.transitions;
        frag.exhaustive &= !r.capped;
        frag.col.merge(r.col);
    }
    // stages wider, as wide as and narrower than the pool (code that looks at the pool size)
    {
        let mut scs = Vec::new();
        let wmax = if q { 5 } else { 7 };
        for w in 1..=wmax {
            for n in 1..=wmax.min(w + 1) {
                for user in [true, false] {
                    for script in ["DW", "DWDW", "DDW"] {
                        let mut sc = Scenario::plain(wide_stage(w), Mode::Async, 0);
                        if user {
                            sc.user_pool = Some(n);
                        } else {
                            sc.default_threads = Some(n);
                        }
                        sc.script = Some(script.to_string());
                        scs.push(sc);
                    }
                }
            }
        }
        // very wide stages (around the range of an 8-bit counter), followed by a stage of one; no deviations
        let mut wide_scs = Vec::new();
        for w in [255usize, 256, 257] {
            let mut ops = wide_stage(w);
            ops.push(Op::Barrier);
            ops.push(sy("last", &[], &[0], &[]));
            let mut sc = Scenario::plain(ops, Mode::Async, 0);
            sc.script = Some("DWDW".to_string());
            wide_scs.push(sc);
        }
        {
            let t0 = Instant::now();
            let opts = ExploreOpts { bounds: vec![0], all_points: false, deadline: t0 + budget / 6, max_execs: u64::MAX, keep_traces: 0, deadlock_prop: Some("C15"), delay_mode: true };
            let r = run_scenarios(&wide_scs, Mon::default(), &opts);
            frag.parts.push(json!({"engine":"E2 schedmc","scenarios":"one stage of 255 / 256 / 257 side-by-side systems, then a stage of one; script DWDW; default schedule only (bound 0)","n_scenarios":wide_scs.len(),"scenarios_completed":r.completed,"schedules":r.executions,"states":r.nodes,"transitions":r.transitions,"deadlocks":r.deadlocks,"cap_hit":r.capped,"wall_s":t0.elapsed().as_secs_f64()}));
            frag.states += r.nodes;
            frag.transitions += r.transitions;
            frag.exhaustive &= !r.capped;
            frag.col.merge(r.col);
        }
        let t0 = Instant::now();
        let opts = ExploreOpts { bounds: vec![0, 1], all_points: false, deadline: t0 + budget / 5, max_execs: u64::MAX, keep_traces: 0, deadlock_prop: Some("C15"), delay_mode: true };
        let r = run_scenarios(&scs, Mon::default(), &opts);
        frag.parts.push(json!({"engine":"E2 schedmc","scenarios":format!("one stage of 1..{} side-by-side systems on user-supplied and default pools of 1..width+1 threads; scripts DW, DWDW, DDW", wmax),"n_scenarios":scs.len(),"scenarios_completed":r.completed,"bound_kind":"delay (all deviations)","bounds":[0,1],"schedules":r.executions,"states":r.nodes,"transitions":r.transitions,"deadlocks":r.deadlocks,"cap_hit":r.capped,"wall_s":t0.elapsed().as_secs_f64()}));
        frag.states += r.nodes;
        frag.transitions += r.transitions;
        frag.exhaustive &= !r.capped;
        frag.col.merge(r.col);
    }
    let njobs = jobs.len();
    for (k, (len, bounds, nplans)) in jobs.into_iter().enumerate() {
        let mut scs = Vec::new();
        for (_, p) in plans.iter().take(nplans) {
            for s in scripts(&alpha, len) {
                // scripts without any dispatch are covered once (length <= 2)
                if !s.contains('D') && s.len() > 2 {
                    continue;
                }
                let mut sc = Scenario::plain(p.clone(), Mode::Async, 0);
                sc.script = Some(s);
                scs.push(sc);
            }
        }
        let remaining = budget.saturating_sub(start.elapsed());
        let share = remaining / (njobs - k) as u32;
        let t0 = Instant::now();
        let opts = ExploreOpts { bounds: bounds.clone(), all_points: false, deadline: t0 + share, max_execs: u64::MAX, keep_traces: 2, deadlock_prop: Some("C15"), delay_mode: false };
        let r = run_scenarios(&scs, Mon::default(), &opts);
        frag.parts.push(json!({
            "engine": "E2 schedmc",
            "scenarios": format!("every script of length <= {} over {{dispatch, running, wait, wait_without_tl, world, world_mut, setup}} (+ final world()) x {} background plans", len, nplans),
            "n_scenarios": scs.len(), "scenarios_completed": r.completed, "preemption_bounds": bounds, "min_bound_completed": r.min_bound,
            "schedules": r.executions, "states": r.nodes, "transitions": r.transitions, "distinct_event_traces": r.traces, "deadlocks": r.deadlocks, "cap_hit": r.capped, "wall_s": t0.elapsed().as_secs_f64(),
        }));
        frag.states += r.nodes;
        frag.transitions += r.transitions;
        frag.exhaustive &= !r.capped;
        if let Some(s) = r.sample {
            if frag.samples.len() < 4 {
                frag.samples.push(s);
            }
        }
        frag.e2_traces.extend(r.kept);
        frag.col.merge(r.col);
    }
}

// ---------------------------------------------------------------------------
// C16: Par/Seq trees
// ---------------------------------------------------------------------------

pub fn run_c16(tier: Tier, budget: Duration, frag: &mut Frag) {
    use crate::parseq::*;
    let q = tier == Tier::Quick;
    let alpha: Vec<(Vec<u8>, Vec<u8>)> = acc(&[(&[], &[]), (&[0], &[]), (&[], &[0]), (&[1], &[]), (&[], &[1])]);
    let alpha9: Vec<(Vec<u8>, Vec<u8>)> = acc(&[(&[], &[]), (&[0], &[]), (&[], &[0]), (&[1], &[]), (&[], &[1]), (&[0, 1], &[]), (&[0], &[1]), (&[1], &[0]), (&[], &[0, 1])]);
    // static part
    let t0 = Instant::now();
    let (cases, panics) = check_par_with(&alpha9, &mut frag.col);
    frag.parts.push(json!({"engine":"E1-style enumeration","what":"Par::with (debug assertions on): every pair / triple of children over the 9-element two-resource alphabet incl. nested seq/par children",
        "cases": cases, "cases_that_panicked": panics, "wall_s": t0.elapsed().as_secs_f64()}));
    frag.states += cases;
    frag.transitions += cases;
    // the par! / seq! macros against new / with
    {
        let t0 = Instant::now();
        let ts = trees(if q { 3 } else { 4 }, 3, if q { 3 } else { 4 }, &alpha, false);
        let n = macro_differential(&ts, &mut frag.col);
        frag.parts.push(json!({"engine":"E1-style enumeration","what":format!("every par/seq tree with <= {} leaves (depth <= 3, 5-element leaf alphabet, conflicting par children included) built with the par! / seq! macros and with new / with, set up twice and dispatched twice inline: build panics, reported access, counters, final world and event order agree", if q { 3 } else { 4 }),
            "cases": n, "wall_s": t0.elapsed().as_secs_f64()}));
        frag.states += n;
        frag.transitions += n;
    }
    // run-time part
    let start = Instant::now();
    let alpha3: Vec<(Vec<u8>, Vec<u8>)> = acc(&[(&[0], &[]), (&[], &[0]), (&[], &[1])]);
    let jobs: Vec<(usize, usize, usize, Vec<u32>, bool, bool)> = if q {
        // (max leaves, depth, fan-out, bounds, both dispatch sites, small alphabet)
        vec![(2, 2, 2, vec![0, 1, 2], true, false), (3, 2, 3, vec![0, 1], true, true), (4, 2, 4, vec![0], false, true)]
    } else {
        vec![(2, 3, 2, vec![0, 1, 2, 3], true, false), (3, 3, 3, vec![0, 1, 2], true, true), (4, 3, 4, vec![0, 1], true, true), (5, 3, 5, vec![0], false, true), (3, 5, 3, vec![0, 1], false, false)]
    };
    let njobs = jobs.len();
    for (k, (leaves, depth, fan, bounds, both, small)) in jobs.into_iter().enumerate() {
        let ts = trees(leaves, depth, fan, if small { &alpha3 } else { &alpha }, true);
        let mut items = Vec::new();
        for t in &ts {
            items.push((t.clone(), 0u8, 1u8));
            if both {
                items.push((t.clone(), 1, if t.leaves() <= 2 { 2 } else { 1 }));
                if t.leaves() <= 3 {
                    // dispatch called on the only worker of a foreign pool
                    items.push((t.clone(), 2, 1));
                }
            }
        }
        let remaining = budget.saturating_sub(start.elapsed());
        let share = remaining / (njobs - k) as u32;
        let t0 = Instant::now();
        let (st, col, samples, kept) = explore_trees(items, bounds.clone(), t0 + share, threads());
        frag.parts.push(json!({
            "engine": "E2 schedmc",
            "scenarios": format!("every par/seq tree with <= {} leaves, depth <= {}, fan-out <= {}, par-compatible leaf access over a {}-element alphabet; dispatched from outside{} the pool", leaves, depth, fan, if small { 3 } else { 5 }, if both { ", inside, and (<= 3 leaves) from a worker of a foreign one-thread pool, not" } else { "" }),
            "n_scenarios": st.trees, "scenarios_completed": st.completed, "preemption_bounds": bounds, "min_bound_completed": st.min_bound,
            "schedules": st.executions, "states": st.nodes, "transitions": st.transitions, "distinct_event_traces": st.traces,
            "trees_with_a_par_node_of_2+_children": st.par_trees, "of_which_showed_overlapping_children": st.overlapping_par_trees,
            "cap_hit": st.capped, "wall_s": t0.elapsed().as_secs_f64(),
        }));
        frag.states += st.nodes;
        frag.transitions += st.transitions;
        frag.exhaustive &= !st.capped;
        if frag.samples.len() < 4 {
            frag.samples.extend(samples.into_iter().take(2));
        }
        frag.e2_traces.extend(kept);
        frag.col.merge(col);
    }
}

// ---------------------------------------------------------------------------
// C09
// ---------------------------------------------------------------------------

pub fn run_c09(tier: Tier, budget: Duration, frag: &mut Frag) {
    let q = tier == Tier::Quick;
    let t0 = Instant::now();
    // (depth, full alphabet, concrete dynamic ids behind the key indices; index 0 is the slot of the typed calls)
    const MAX: u64 = u64::MAX;
    let boundary: Vec<Vec<u64>> = vec![vec![0, MAX - 1, MAX], vec![0, 1 << 32, 1], vec![0, (1 << 32) + 1, 1], vec![0, 1 << 63, (1 << 63) - 1], vec![0, 0xFFFF_FFFF, 0xFFFF_FFFE]];
    let mut jobs: Vec<(usize, bool, Vec<u64>)> = if q { vec![(3, true, vec![0, 1])] } else { vec![(3, true, vec![0, 1]), (4, false, vec![0, 1])] };
    for b in &boundary {
        // id-space boundaries: neighbours at the top of the range, ids that collide when truncated to 32 bits or
        // when the top bit is lost, ids around the 32-bit boundary
        jobs.push((if q { 2 } else { 3 }, q, b.clone()));
    }
    {
        // unusual but legitimate resource types
        let t1 = Instant::now();
        let depth = if q { 4 } else { 5 };
        let (types, hist) = crate::c09::zoo_sweep(depth, &mut frag.col);
        frag.parts.push(json!({
            "engine": "E3 histmc",
            "what": format!("World map histories over a zoo of {} resource types (Box<dyn Resource>, Box<u64>, Arc<u64>, u64, (), (u64, String), Option<u64>, Vec<Box<dyn Resource>>, Mutex<u64>): every history of <= {} operations over insert / insert_by_id / remove / remove_by_id / entry / typed system-data read on slots (T,0), (T,1); after every step presence, the stored value's dynamic type and the fetched value are compared with the model", types, depth),
            "histories": hist, "wall_s": t1.elapsed().as_secs_f64(),
        }));
        frag.states += hist;
        frag.transitions += hist;
        frag.traces_validated += hist;
    }
    {
        let t1 = Instant::now();
        let k = crate::c09::unwind_probe(&mut frag.col);
        frag.parts.push(json!({"engine":"child-process probe","what":"fetches of a present slot made from a destructor while the thread unwinds from a panic, with an exclusive / a shared guard of the slot alive (8 cases, one child process each): a fetch the guard rules out never answers 'absent' and never hands out a second guard","cases": k, "wall_s": t1.elapsed().as_secs_f64()}));
        frag.states += k;
        frag.transitions += k;
    }
    let n = jobs.len() as u32;
    for (depth, full, ids) in jobs {
        let t1 = Instant::now();
        let (st, samples) = crate::c09::run(depth, full, &ids, t1 + budget / n, threads(), &mut frag.col);
        frag.parts.push(json!({
            "engine": "E3 histmc",
            "what": format!("World map histories: every history of length <= {} over the {} alphabet ({} operations; 3 resource types x dynamic ids {:?}), plus breadth-first closure with de-duplication on the observed state (which of the {} keys are present)", depth, if full { "full" } else { "core" }, crate::c09::alphabet(full).len(), ids, 3 * ids.len()),
            "histories": st.histories, "operations_applied": st.transitions, "distinct_observed_states": st.states, "max_depth": st.max_depth, "cap_hit": st.capped, "wall_s": t1.elapsed().as_secs_f64(),
        }));
        frag.states += st.states + st.histories;
        frag.transitions += st.transitions;
        frag.traces_validated += st.histories;
        frag.exhaustive &= !st.capped;
        if frag.samples.is_empty() {
            frag.samples.extend(samples);
        }
    }
    let _ = t0;
    frag.assumptions.push("resource types: zero-sized, heap-owning, 512-byte; dynamic ids {0,1} at full depth and five boundary triples at reduced depth; payload identity by serial numbers in a thread-local live set".into());
}

// ---------------------------------------------------------------------------
// C08
// ---------------------------------------------------------------------------

pub fn run_c08(tier: Tier, budget: Duration, frag: &mut Frag) {
    let q = tier == Tier::Quick;
    let t0 = Instant::now();
    let depth = if q { 6 } else { 8 };
    let guards = if q { 4 } else { 5 };
    let (st, samples) = crate::c08::run_bfs(depth, guards, t0 + budget / 2, &mut frag.col);
    frag.parts.push(json!({
        "engine": "E3 histmc",
        "what": format!("borrow histories: breadth-first over {} operations (fetch / fetch_mut / try_* / by-id / 4 composite system-data types / meta-table iter and iter_mut / clone / drop / acquire-then-panic), <= {} live guards, depth <= {}, de-duplicated on the observed state (per-cell borrow state + live guard shapes)", crate::c08::alphabet(guards).len(), guards, depth),
        "histories_tried": st.histories, "enabled_transitions": st.transitions, "distinct_observed_states": st.states, "max_depth": st.max_depth, "cap_hit": st.capped, "wall_s": t0.elapsed().as_secs_f64(),
    }));
    frag.states += st.states;
    frag.transitions += st.transitions;
    frag.traces_validated += st.valid_histories;
    frag.exhaustive &= !st.capped;
    frag.samples.extend(samples);
    let jobs: Vec<(usize, u32)> = if q { vec![(2, u32::MAX), (3, 3)] } else { vec![(2, u32::MAX), (3, 5), (4, 2)] };
    for (ntasks, bound) in jobs {
        let t1 = Instant::now();
        let c = crate::c08::run_concurrent_part(ntasks, bound, t0 + budget, threads(), &mut frag.col);
        frag.parts.push(json!({
            "engine": "E2 schedmc",
            "what": format!("{} controlled tasks, each: acquire one of 6 guards (shared/exclusive on 3 cells, typed and by-id paths), hold across a scheduling point, release; every multiset of tasks; EVERY borrow / release of every cell is a scheduling point (the engine links atomic_refcell 0.1.14 with a point in front of each operation), so calls are preempted between two cell operations; oracle: the outcomes are linearizable w.r.t. the shared-xor-exclusive model (brute force over all orders of the calls' effects that respect real time)", ntasks),
            "configurations": c.configs, "preemption_bound": if bound == u32::MAX { json!("unbounded") } else { json!(bound) },
            "schedules": c.schedules, "states": c.nodes, "transitions": c.transitions, "acquisitions_that_panicked_on_conflict": c.conflicts_seen, "cap_hit": c.capped, "wall_s": t1.elapsed().as_secs_f64(),
        }));
        frag.states += c.nodes;
        frag.transitions += c.transitions;
        frag.exhaustive &= !c.capped;
    }
    frag.assumptions.push("each borrow / release is one atomic RMW inside atomic_refcell (its logic is linked unchanged, with a scheduling point in front of every operation); memory ordering of the payload (sequentially consistent execution) is outside this check".into());
}

// ---------------------------------------------------------------------------
// C17
// ---------------------------------------------------------------------------

pub fn run_c17(tier: Tier, budget: Duration, frag: &mut Frag) {
    let q = tier == Tier::Quick;
    let t0 = Instant::now();
    let depth = 12;
    let _ = q;
    let (st, samples) = crate::c17::run(depth, t0 + budget, threads(), &mut frag.col);
    frag.parts.push(json!({
        "engine": "E3 histmc",
        "what": format!("meta-table histories: breadth-first over {} operations (register x5 types incl. one with an address-changing cast, world insert/remove x6 types incl. one never registered, get / get_mut, iter / iter_mut drained, the same with a live shared or exclusive world guard), depth <= {}, de-duplicated on (first-registration order, present set)", crate::c17::alphabet().len(), depth),
        "histories": st.histories, "distinct_observed_states": st.states, "max_depth": st.max_depth, "cap_hit": st.capped, "wall_s": t0.elapsed().as_secs_f64(),
    }));
    frag.states += st.states;
    frag.transitions += st.transitions;
    frag.traces_validated += st.histories;
    frag.exhaustive &= !st.capped;
    frag.samples.extend(samples);
    // the same histories with a ZERO-SIZED type in the role of the type whose cast changes the address
    {
        let t1 = Instant::now();
        crate::c17::set_bad_is_zst(true);
        let (st, _) = crate::c17::run(depth, t0 + budget, threads(), &mut frag.col);
        crate::c17::set_bad_is_zst(false);
        frag.parts.push(json!({
            "engine": "E3 histmc",
            "what": "the same meta-table histories with a zero-sized type in the role of the type whose CastFrom changes the address (a Box of it is a dangling address, the rejection must not depend on the size)",
            "histories": st.histories, "distinct_observed_states": st.states, "max_depth": st.max_depth, "cap_hit": st.capped, "wall_s": t1.elapsed().as_secs_f64(),
        }));
        frag.states += st.states;
        frag.transitions += st.transitions;
        frag.traces_validated += st.histories;
        frag.exhaustive &= !st.capped;
    }
    {
        let t1 = Instant::now();
        let n = crate::c17::many_types_sweep(&mut frag.col);
        frag.parts.push(json!({"engine":"E3 histmc","what":"tables of 1..24 distinct registered types of different sizes, grown one registration at a time (for every size at which the first / middle / last type is registered once more): get on every type, iter and iter_mut after every step","cases": n, "wall_s": t1.elapsed().as_secs_f64()}));
        frag.states += n;
        frag.transitions += n;
        frag.traces_validated += n;
    }
    // creation-path sweep: the resources reach the world by insert, the entry API, a default provider (setup), and
    // there are decoys under a dynamic id; de-duplicated on (registration order, present set, creation path, decoys)
    let t1 = Instant::now();
    let alpha = crate::c17::alphabet_paths();
    let na = alpha.len();
    let (st, _) = crate::c17::run_with(alpha, 14, t0 + budget, threads(), &mut frag.col);
    frag.parts.push(json!({
        "engine": "E3 histmc",
        "what": format!("meta-table histories, creation paths: breadth-first over {} operations (register / insert / remove x3 types, World::entry().or_insert_with x2, World::setup::<Read/Write> x2, a decoy of a registered and of an unregistered type under dynamic id 1, get / get_mut, iter / iter_mut), depth <= 14, de-duplicated on (first-registration order, present set, how each resource was created, decoys)", na),
        "histories": st.histories, "distinct_observed_states": st.states, "max_depth": st.max_depth, "cap_hit": st.capped, "wall_s": t1.elapsed().as_secs_f64(),
    }));
    frag.states += st.states;
    frag.transitions += st.transitions;
    frag.traces_validated += st.histories;
    frag.exhaustive &= !st.capped;
}


// ---------------------------------------------------------------------------
// E1 -> E2 escalation: a plan-level isolation finding is handed to the schedule explorer, which has to
// exhibit a concrete schedule (overlapping windows / borrow panic / outcome different from sequential)
// ---------------------------------------------------------------------------

pub fn escalate(prop: &str, frag: &mut Frag) {
    if !matches!(prop, "C01" | "C05" | "C07") {
        return;
    }
    let src_prop = if prop == "C05" { "C01" } else { prop };
    let cands: Vec<crate::report::Finding> = frag.col.best.iter().filter(|((p, _), _)| p == src_prop).map(|(_, (f, _))| f.clone()).filter(|f| f.replay.get("kind").and_then(|k| k.as_str()) == Some("plan")).collect();
    if prop == "C05" {
        // candidates are not verdicts for C05
        frag.col.best.retain(|(p, _), _| p != "C01");
    }
    if cands.is_empty() {
        return;
    }
    let mut scs = Vec::new();
    for f in &cands {
        if let Some(ops) = f.replay.get("ops").and_then(crate::spec::plan_from_json) {
            scs.push(Scenario::plain(ops.clone(), Mode::Dispatch, 1));
            if prop == "C05" {
                scs.push(Scenario::plain(ops, Mode::Dispatch, 2));
            }
        }
    }
    let opts = ExploreOpts { bounds: vec![0, 1, 2], all_points: false, deadline: Instant::now() + Duration::from_secs(20), max_execs: 2_000_000, keep_traces: 0, deadlock_prop: None, delay_mode: false };
    let r = run_scenarios(&scs, Mon::of(prop), &opts);
    let confirmed = r.col.best.keys().filter(|(p, _)| p == prop).count();
    frag.parts.push(json!({"engine":"E2 schedmc","scenarios":"escalation: plans whose executed layout puts conflicting systems side by side, explored until a schedule exhibits the violation","n_scenarios":scs.len(),"schedules":r.executions,"states":r.nodes,"transitions":r.transitions,"schedule_level_findings":confirmed}));
    frag.states += r.nodes;
    frag.transitions += r.transitions;
    frag.col.merge(r.col);
}


// ---------------------------------------------------------------------------
// C14: histories in which the PROCESS may die (a panic while unwinding aborts) run in a child process first
// ---------------------------------------------------------------------------

fn abort_probe_scenarios() -> Vec<Scenario> {
    let sy = |n: &str, w: &[u8], deps: &[&str]| Op::Sys(crate::spec::SysSpec { name: n.into(), reads: vec![], writes: w.to_vec(), time: 3, deps: deps.iter().map(|x| x.to_string()).collect() });
    let tlop = Op::Tl(crate::spec::SysSpec { name: String::new(), reads: vec![], writes: vec![], time: 3, deps: vec![] });
    let plans: Vec<Vec<Op>> = vec![
        vec![sy("a", &[], &[]), sy("b", &[], &[])],
        vec![sy("a", &[0], &[]), sy("b", &[1], &[]), sy("c", &[0, 1], &["a", "b"])],
        vec![sy("a", &[0], &[]), sy("b", &[0], &[])],
        vec![sy("a", &[], &[]), tlop.clone(), tlop.clone()],
        vec![Op::Batch(crate::spec::BatchSpec { name: "bt".into(), deps: vec![], ctrl: crate::spec::CtrlData::Unit, times: 2, multi: false, fetch_data: false, inner: vec![sy("a", &[0], &[]), sy("b", &[1], &[])] }), sy("z", &[], &[])],
    ];
    let mut v = Vec::new();
    for p in &plans {
        let info = PlanInfo::of(p);
        let ids: Vec<usize> = info.nodes.iter().filter(|n| n.kind != crate::spec::Kind::Batch).map(|n| n.id).collect();
        for (i, a) in ids.iter().enumerate() {
            for b in ids.iter().skip(i + 1) {
                for mode in [Mode::Seq, Mode::Dispatch, Mode::Par] {
                    for (fa, fb) in [(false, false), (true, false), (false, true)] {
                        for typed in [false, true] {
                            let mut s = Scenario::plain(p.clone(), mode, 2);
                            s.panics = vec![(*a, fa), (*b, fb)];
                            s.panic_typed = typed;
                            v.push(s);
                        }
                    }
                }
            }
        }
    }
    v
}

/// child side: run every scenario inline (no controlled scheduler), announcing it first
pub fn abort_probe_child() -> i32 {
    use std::io::Write;
    crate::sched::install_quiet_hook();
    for (k, sc) in abort_probe_scenarios().iter().enumerate() {
        println!("SCENARIO {} {} x{} of {} with panicking systems {:?}", k, sc.mode.label(), sc.dispatches, plan_short(&sc.ops), sc.panics);
        let _ = std::io::stdout().flush();
        let _ = crate::schedmc::run_scenario(sc, false);
    }
    println!("DONE");
    0
}

/// parent side; true = the child died
pub fn run_abort_probe(frag: &mut Frag) -> bool {
    let t0 = Instant::now();
    let exe = match std::env::current_exe() {
        Ok(e) => e,
        Err(_) => return false,
    };
    let out = match std::process::Command::new(exe).arg("abort-probe").stderr(std::process::Stdio::null()).output() {
        Ok(o) => o,
        Err(_) => return false,
    };
    let text = String::from_utf8_lossy(&out.stdout).to_string();
    let n = abort_probe_scenarios().len();
    let done = text.lines().any(|l| l == "DONE");
    frag.parts.push(json!({"engine":"child-process probe","what":"two systems panicking in one dispatch (same stage / consecutive stages / same group / thread-local / inside a repeating batch) under dispatch_seq, dispatch and dispatch_par, string and typed payloads, run inline in a child process: the process must survive every one of them (a second panic raised while the first unwinds aborts the process)","scenarios": n, "child_completed": done, "wall_s": t0.elapsed().as_secs_f64()}));
    frag.states += n as u64;
    frag.transitions += n as u64;
    if done && out.status.success() {
        return false;
    }
    let last = text.lines().filter(|l| l.starts_with("SCENARIO")).last().unwrap_or("(no scenario started)").to_string();
    frag.col.add(crate::report::Finding {
        prop: "C14".into(),
        sig: "process-died-instead-of-panic-reaching-caller".into(),
        msg: format!("the child process running the two-panic histories ended with {:?} in: {}", out.status, last),
        replay: json!({"kind":"abort-probe","last": last}),
        size: 1,
    });
    true
}

// ---------------------------------------------------------------------------
// C13: a thread-local system whose setup hook CREATES a resource (a window handle, say).  The plan alphabet's
// thread-local systems create nothing, so this small enumeration is separate: {thread-local provider at top level,
// inside a batch, both} x {0, 1, 2 ordinary counting systems in front / behind} x {resource pre-existing or not};
// setup, setup again, remove the resource, setup again: every hook runs exactly once per Dispatcher::setup.
// ---------------------------------------------------------------------------

pub fn run_c13_probe(frag: &mut Frag) {
    use shred::{BatchController, Dispatcher, DispatcherBuilder, RunNow, System, World};
    use std::panic::{catch_unwind, AssertUnwindSafe};
    use std::sync::atomic::{AtomicU32, Ordering};
    use std::sync::Arc;
    struct Fresh(#[allow(dead_code)] u32);
    struct Counting(Arc<AtomicU32>);
    impl<'a> System<'a> for Counting {
        type SystemData = ();
        fn run(&mut self, _: ()) {}
        fn setup(&mut self, _w: &mut World) {
            self.0.fetch_add(1, Ordering::SeqCst);
        }
    }
    struct Provider(Arc<AtomicU32>);
    impl<'a> RunNow<'a> for Provider {
        fn run_now(&mut self, _w: &'a World) {}
        fn setup(&mut self, w: &mut World) {
            self.0.fetch_add(1, Ordering::SeqCst);
            if !w.has_value::<Fresh>() {
                w.insert(Fresh(1));
            }
        }
    }
    struct Ctrl;
    impl<'a, 'b, 'c> BatchController<'a, 'b, 'c> for Ctrl {
        type BatchSystemData = ();
        fn run(&mut self, world: &'c World, d: &mut Dispatcher<'a, 'b>) {
            d.dispatch(world);
        }
    }
    let t0 = Instant::now();
    let mut cases = 0u64;
    for place in 0..3u8 {
        for front in 0..=2usize {
            for behind in 0..=2usize {
                for pre in [false, true] {
                    cases += 1;
                    let counters: Vec<Arc<AtomicU32>> = (0..front + behind + 3).map(|_| Arc::new(AtomicU32::new(0))).collect();
                    let r = catch_unwind(AssertUnwindSafe(|| -> Option<String> {
                        let mut b = DispatcherBuilder::new();
                        let mut k = 0;
                        for i in 0..front {
                            b.add(Counting(counters[k].clone()), &format!("f{}", i), &[]);
                            k += 1;
                        }
                        if place != 1 {
                            b.add_thread_local(Provider(counters[k].clone()));
                        }
                        k += 1;
                        if place != 0 {
                            let mut inner = DispatcherBuilder::new();
                            inner.add(Counting(counters[k].clone()), "inner", &[]);
                            inner.add_thread_local(Provider(counters[k + 1].clone()));
                            b.add_batch::<Ctrl>(Ctrl, inner, "batch", &[]);
                        }
                        k += 2;
                        for i in 0..behind {
                            b.add(Counting(counters[k].clone()), &format!("b{}", i), &[]);
                            k += 1;
                        }
                        let mut d = b.build();
                        let mut w = World::empty();
                        if pre {
                            w.insert(Fresh(0));
                        }
                        let used = |i: usize| -> bool {
                            // index front = top-level provider, front + 1 / front + 2 = the batch's inner pair
                            if i == front {
                                place != 1
                            } else if i == front + 1 || i == front + 2 {
                                place != 0
                            } else {
                                true
                            }
                        };
                        let mut round = 0;
                        let mut check = |what: &str, round: u32| -> Option<String> {
                            for (i, c) in counters.iter().enumerate() {
                                let want = if used(i) { round } else { 0 };
                                let got = c.load(Ordering::SeqCst);
                                if got != want {
                                    return Some(format!("after {}: setup hook #{} has run {} times, expected {}", what, i, got, want));
                                }
                            }
                            None
                        };
                        d.setup(&mut w);
                        round += 1;
                        if let Some(e) = check("the first Dispatcher::setup", round) {
                            return Some(e);
                        }
                        d.setup(&mut w);
                        round += 1;
                        if let Some(e) = check("a second Dispatcher::setup", round) {
                            return Some(e);
                        }
                        let _ = w.remove::<Fresh>();
                        d.setup(&mut w);
                        round += 1;
                        if let Some(e) = check("removing the created resource and a third Dispatcher::setup", round) {
                            return Some(e);
                        }
                        d.dispatch(&w);
                        None
                    }));
                    let bad = match r {
                        Ok(None) => None,
                        Ok(Some(e)) => Some(e),
                        Err(p) => Some(format!("panicked: {}", crate::sched::payload_str(&*p))),
                    };
                    if let Some(e) = bad {
                        frag.col.add(crate::report::Finding {
                            prop: "C13".into(),
                            sig: "setup-count-with-providing-thread-local".into(),
                            msg: format!("{} ordinary systems, a thread-local system whose setup creates a resource {}, {} ordinary systems behind; resource {}: {}", front, ["at top level", "inside a batch", "at top level and inside a batch"][place as usize], behind, if pre { "pre-existing" } else { "absent" }, e),
                            replay: json!({"kind":"c13-provider","place":place,"front":front,"behind":behind,"pre":pre}),
                            size: front + behind + 1,
                        });
                    }
                }
            }
        }
    }
    frag.parts.push(json!({"engine":"E3 histmc","what":"thread-local systems whose setup hook creates a resource (top level / inside a batch / both) x 0..2 ordinary counting systems in front and behind x resource pre-existing or not: setup, setup, remove + setup - every hook exactly once per Dispatcher::setup","cases": cases, "wall_s": t0.elapsed().as_secs_f64()}));
    frag.states += cases;
    frag.transitions += cases * 3;
}
