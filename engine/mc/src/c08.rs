//! C08: World borrows are shared xor exclusive; violations panic; drops release.
//! Sequential histories with live guards against a borrow-state model (E3) and
//! the same operations spread over 2-3 controlled tasks (E2).

use std::collections::{HashSet, VecDeque};
use std::panic::{catch_unwind, AssertUnwindSafe};
use std::sync::{Arc, Mutex};

use serde_json::{json, Value};
use shred::cell::{AtomicRef, AtomicRefMut};
use shred::{CastFrom, Fetch, FetchMut, MetaIter, MetaIterMut, MetaTable, Read, ResourceId, World, Write};

use crate::hsys::{Cell0, Cell1};
use crate::report::{Collector, Finding};
use crate::sched::{self, sched_point, Abnormal, Cfg};

/// never inserted
#[derive(Default)]
pub struct CellX(pub u64);

pub trait Tagged {
    fn get(&self) -> u64;
    fn set(&mut self, v: u64);
}
impl Tagged for Cell0 {
    fn get(&self) -> u64 {
        self.0
    }
    fn set(&mut self, v: u64) {
        self.0 = v
    }
}
impl Tagged for Cell1 {
    fn get(&self) -> u64 {
        self.0
    }
    fn set(&mut self, v: u64) {
        self.0 = v
    }
}
impl Tagged for CellX {
    fn get(&self) -> u64 {
        u64::MAX
    }
    fn set(&mut self, _: u64) {}
}
unsafe impl<T: Tagged + 'static> CastFrom<T> for dyn Tagged {
    fn cast(t: *mut T) -> *mut Self {
        t
    }
}

/// zero-sized: boxes of it never allocate, so all of its instances share one address
#[derive(Default, Clone, Copy)]
pub struct Zst;

// keys: 0 = (Cell0, 0), 1 = (Cell1, 0), 2 = (Cell0, 1) [by id only], 3 = (CellX, 0) [absent],
//       4 = (Zst, 0), 5 = (Zst, 1) [both by id only]
const NK: usize = 6;

fn key_id(k: u8) -> ResourceId {
    match k {
        0 => ResourceId::new::<Cell0>(),
        1 => ResourceId::new::<Cell1>(),
        2 => ResourceId::new_with_dynamic_id::<Cell0>(1),
        4 => ResourceId::new::<Zst>(),
        5 => ResourceId::new_with_dynamic_id::<Zst>(1),
        _ => ResourceId::new::<CellX>(),
    }
}

fn new_world() -> World {
    let mut w = World::empty();
    w.insert(Cell0(100));
    w.insert(Cell1(101));
    w.insert_by_id(ResourceId::new_with_dynamic_id::<Cell0>(1), Cell0(102));
    w.insert(Zst);
    w.insert_by_id(ResourceId::new_with_dynamic_id::<Zst>(1), Zst);
    w
}

/// derived bundles: the macro's generated `fetch` is a code path of its own
#[derive(shred::SystemData)]
pub struct Dz<'a> {
    a: Write<'a, Cell0>,
    b: Read<'a, Cell1>,
}
#[derive(shred::SystemData)]
pub struct Dt<'a>(Read<'a, Cell0>, Option<Write<'a, CellX>>, Write<'a, Cell1>);

pub enum G<'a> {
    R0(Fetch<'a, Cell0>),
    W0(FetchMut<'a, Cell0>),
    R1(Fetch<'a, Cell1>),
    W1(FetchMut<'a, Cell1>),
    Sd0((Read<'a, Cell0>, Write<'a, Cell1>)),
    Sd1((Option<Read<'a, CellX>>, Read<'a, Cell1>)),
    Sd2((Option<Write<'a, Cell0>>, Option<Read<'a, Cell1>>)),
    Rz(Fetch<'a, Zst>),
    Wz(FetchMut<'a, Zst>),
    Sd4(Dz<'a>),
    Sd5(Dt<'a>),
    Mr(AtomicRef<'a, dyn Tagged + 'static>),
    Mw(AtomicRefMut<'a, dyn Tagged + 'static>),
    /// a live meta-table iterator: holds no borrow itself, every `next` yields a guard of its own
    It(MetaIter<'a, dyn Tagged + 'static>),
    ItMut(MetaIterMut<'a, dyn Tagged + 'static>),
}

#[derive(Clone, Copy, Debug, PartialEq, Eq, Hash)]
pub enum Op8 {
    Fetch(u8),
    FetchMut(u8),
    TryFetch(u8),
    TryFetchMut(u8),
    TryFetchById(u8),
    TryFetchMutById(u8),
    SysData(u8),
    MetaIterNext,
    MetaIterMutNext,
    /// create a meta-table iterator (shared / exclusive) and keep it alive as a "guard" that holds nothing
    IterOpen(bool),
    /// call `next` on live iterator number `.0`; the yielded item becomes a guard of its own
    IterNext(u8),
    Clone(u8),
    /// `guards[.0].clone_from(&guards[.1])`: afterwards guard .0 is a clone of guard .1 (and has given up what it held)
    CloneFrom(u8, u8),
    Drop(u8),
    /// acquire (op index into `acquire_ops`) inside a closure that then panics
    AcquireThenPanic(u8),
    /// acquire from a destructor that runs while the thread is unwinding from another panic
    AcquireDuringUnwind(u8),
}

/// holdings of a guard: (key, exclusive?)
type Hold = Vec<(u8, bool)>;

#[derive(Clone, Debug, Default)]
struct Model {
    shared: [u32; NK],
    excl: [bool; NK],
    guards: Vec<Hold>,
    /// parallel to `guards`: Some((exclusive, cursor)) for a live iterator
    iters: Vec<Option<(bool, u8)>>,
    canary: [u64; NK],
    next_canary: u64,
}

#[derive(Debug, PartialEq, Eq, Clone, Copy)]
enum Cls {
    Guard,
    None,
    Panic,
    Unit,
}

const PRESENT: [bool; NK] = [true, true, true, false, true, true];

impl Model {
    fn new() -> Model {
        Model { canary: [100, 101, 102, 0, 0, 0], next_canary: 1000, ..Default::default() }
    }
    fn can(&self, k: u8, ex: bool) -> bool {
        let k = k as usize;
        if ex {
            self.shared[k] == 0 && !self.excl[k]
        } else {
            !self.excl[k]
        }
    }
    fn take(&mut self, h: &Hold) {
        for (k, ex) in h {
            if *ex {
                self.excl[*k as usize] = true;
            } else {
                self.shared[*k as usize] += 1;
            }
        }
    }
    fn give(&mut self, h: &Hold) {
        for (k, ex) in h {
            if *ex {
                self.excl[*k as usize] = false;
            } else {
                self.shared[*k as usize] -= 1;
            }
        }
    }
    /// members in acquisition order; `opt`: absent member yields None instead of a panic
    fn acquire(&mut self, members: &[(u8, bool, bool)], whole_optional: bool) -> (Cls, Hold) {
        let mut got: Hold = Vec::new();
        for (k, ex, opt) in members {
            if !PRESENT[*k as usize] {
                if *opt {
                    continue;
                }
                self.give(&got);
                return (if whole_optional { Cls::None } else { Cls::Panic }, vec![]);
            }
            if !self.can(*k, *ex) {
                self.give(&got);
                return (Cls::Panic, vec![]);
            }
            self.take(&vec![(*k, *ex)]);
            got.push((*k, *ex));
        }
        (Cls::Guard, got)
    }
}

/// members of each acquiring operation: (key, exclusive, optional member), and
/// whether absence makes the whole result `None`
fn members(op: Op8) -> Option<(Vec<(u8, bool, bool)>, bool)> {
    Some(match op {
        Op8::Fetch(k) => (vec![(type_key(k), false, false)], false),
        Op8::FetchMut(k) => (vec![(type_key(k), true, false)], false),
        Op8::TryFetch(k) => (vec![(type_key(k), false, false)], true),
        Op8::TryFetchMut(k) => (vec![(type_key(k), true, false)], true),
        Op8::TryFetchById(k) => (vec![(k, false, false)], true),
        Op8::TryFetchMutById(k) => (vec![(k, true, false)], true),
        Op8::SysData(0) => (vec![(0, false, false), (1, true, false)], false),
        Op8::SysData(1) => (vec![(3, false, true), (1, false, false)], false),
        Op8::SysData(2) => (vec![(0, true, true), (1, false, true)], false),
        Op8::SysData(4) => (vec![(0, true, false), (1, false, false)], false),
        Op8::SysData(5) => (vec![(0, false, false), (3, true, true), (1, true, false)], false),
        Op8::SysData(_) => (vec![(0, true, false), (0, false, false)], false),
        Op8::MetaIterNext => (vec![(0, false, false)], false),
        Op8::MetaIterMutNext => (vec![(0, true, false)], false),
        Op8::IterOpen(_) => (vec![], false),
        _ => return None,
    })
}

/// typed access: 0 -> Cell0 (key 0), 1 -> Cell1 (key 1), 2 -> CellX (key 3)
fn type_key(t: u8) -> u8 {
    match t {
        0 => 0,
        1 => 1,
        _ => 3,
    }
}

fn acquire_real<'a>(w: &'a World, meta: &'a MetaTable<dyn Tagged>, op: Op8) -> Result<Option<G<'a>>, String> {
    // Ok(None) = the operation returned None; Err = unexpected shape
    Ok(match op {
        Op8::Fetch(0) => Some(G::R0(w.fetch())),
        Op8::Fetch(1) => Some(G::R1(w.fetch())),
        Op8::Fetch(_) => {
            let _g: Fetch<CellX> = w.fetch();
            return Err("fetch of an absent resource returned a guard".into());
        }
        Op8::FetchMut(0) => Some(G::W0(w.fetch_mut())),
        Op8::FetchMut(1) => Some(G::W1(w.fetch_mut())),
        Op8::FetchMut(_) => {
            let _g: FetchMut<CellX> = w.fetch_mut();
            return Err("fetch_mut of an absent resource returned a guard".into());
        }
        Op8::TryFetch(0) => w.try_fetch().map(G::R0),
        Op8::TryFetch(1) => w.try_fetch().map(G::R1),
        Op8::TryFetch(_) => {
            if w.try_fetch::<CellX>().is_some() {
                return Err("try_fetch of an absent resource returned a guard".into());
            }
            None
        }
        Op8::TryFetchMut(0) => w.try_fetch_mut().map(G::W0),
        Op8::TryFetchMut(1) => w.try_fetch_mut().map(G::W1),
        Op8::TryFetchMut(_) => {
            if w.try_fetch_mut::<CellX>().is_some() {
                return Err("try_fetch_mut of an absent resource returned a guard".into());
            }
            None
        }
        Op8::TryFetchById(k @ (0 | 2)) => w.try_fetch_by_id::<Cell0>(key_id(k)).map(G::R0),
        Op8::TryFetchById(1) => w.try_fetch_by_id::<Cell1>(key_id(1)).map(G::R1),
        Op8::TryFetchById(k @ (4 | 5)) => w.try_fetch_by_id::<Zst>(key_id(k)).map(G::Rz),
        Op8::TryFetchById(_) => {
            if w.try_fetch_by_id::<CellX>(key_id(3)).is_some() {
                return Err("by-id fetch of an absent resource returned a guard".into());
            }
            None
        }
        Op8::TryFetchMutById(k @ (0 | 2)) => w.try_fetch_mut_by_id::<Cell0>(key_id(k)).map(G::W0),
        Op8::TryFetchMutById(1) => w.try_fetch_mut_by_id::<Cell1>(key_id(1)).map(G::W1),
        Op8::TryFetchMutById(k @ (4 | 5)) => w.try_fetch_mut_by_id::<Zst>(key_id(k)).map(G::Wz),
        Op8::TryFetchMutById(_) => {
            if w.try_fetch_mut_by_id::<CellX>(key_id(3)).is_some() {
                return Err("by-id fetch of an absent resource returned a guard".into());
            }
            None
        }
        Op8::SysData(0) => Some(G::Sd0(w.system_data())),
        Op8::SysData(1) => Some(G::Sd1(w.system_data())),
        Op8::SysData(2) => Some(G::Sd2(w.system_data())),
        Op8::SysData(4) => Some(G::Sd4(w.system_data())),
        Op8::SysData(5) => Some(G::Sd5(w.system_data())),
        Op8::SysData(_) => {
            let _d: (Write<Cell0>, Read<Cell0>) = w.system_data();
            return Err("self-conflicting system data was fetched".into());
        }
        Op8::MetaIterNext => meta.iter(w).next().map(G::Mr),
        Op8::MetaIterMutNext => meta.iter_mut(w).next().map(G::Mw),
        Op8::IterOpen(false) => Some(G::It(meta.iter(w))),
        Op8::IterOpen(true) => Some(G::ItMut(meta.iter_mut(w))),
        _ => return Err("not an acquiring operation".into()),
    })
}

fn cell_state(w: &World, k: u8) -> u8 {
    // 0 free, 1 shared, 2 exclusive, 3 absent
    match unsafe { w.try_fetch_internal(key_id(k)) } {
        None => 3,
        Some(c) => {
            if c.try_borrow_mut().is_ok() {
                0
            } else if c.try_borrow().is_ok() {
                1
            } else {
                2
            }
        }
    }
}

/// values visible through a guard: (key, value) pairs; exclusive guards also get a new canary
fn touch(g: &mut G, hold: &Hold, m: &mut Model) -> Result<(), String> {
    let mut vals: Vec<u64> = Vec::new();
    let mut fresh = |m: &mut Model| {
        m.next_canary += 1;
        m.next_canary
    };
    // write new canaries through exclusive members first
    for (k, ex) in hold {
        if *ex {
            let c = fresh(m);
            m.canary[*k as usize] = c;
            match (&mut *g, *k) {
                (G::W0(x), _) => x.0 = c,
                (G::W1(x), _) => x.0 = c,
                (G::Sd0(d), 1) => d.1 .0 = c,
                (G::Sd2(d), 0) => {
                    if let Some(x) = d.0.as_mut() {
                        x.0 = c
                    }
                }
                (G::Sd4(d), 0) => d.a.0 = c,
                (G::Sd5(d), 1) => d.2 .0 = c,
                (G::Mw(x), _) => x.set(c),
                (G::Wz(_), _) => {}
                _ => return Err("model says exclusive member but the guard has none".into()),
            }
        }
    }
    match &*g {
        G::R0(x) => vals.push(x.0),
        G::W0(x) => vals.push(x.0),
        G::R1(x) => vals.push(x.0),
        G::W1(x) => vals.push(x.0),
        G::Sd0(d) => {
            vals.push(d.0 .0);
            vals.push(d.1 .0);
        }
        G::Sd1(d) => {
            if d.0.is_some() {
                return Err("Option<Read<absent>> is Some".into());
            }
            vals.push(d.1 .0);
        }
        G::Sd2(d) => {
            if let Some(x) = &d.0 {
                vals.push(x.0);
            } else {
                return Err("Option<Write<present>> is None".into());
            }
            if let Some(x) = &d.1 {
                vals.push(x.0);
            } else {
                return Err("Option<Read<present>> is None".into());
            }
        }
        G::Sd4(d) => {
            vals.push(d.a.0);
            vals.push(d.b.0);
        }
        G::Sd5(d) => {
            vals.push(d.0 .0);
            if d.1.is_some() {
                return Err("Option<Write<absent>> is Some".into());
            }
            vals.push(d.2 .0);
        }
        G::Mr(x) => vals.push(x.get()),
        G::Mw(x) => vals.push(x.get()),
        G::It(_) | G::ItMut(_) => {}
        // a zero-sized value has nothing to read: skip the canary comparison for these guards
        G::Rz(_) | G::Wz(_) => return Ok(()),
    }
    if vals.len() != hold.len() {
        return Err(format!("guard exposes {} values, model holds {} members", vals.len(), hold.len()));
    }
    for ((k, _), v) in hold.iter().zip(vals) {
        if v != m.canary[*k as usize] {
            return Err(format!("guard on key {} reads {}, the last exclusive guard wrote {}", k, v, m.canary[*k as usize]));
        }
    }
    Ok(())
}

pub fn acquire_ops() -> Vec<Op8> {
    let mut v = Vec::new();
    for t in 0..3u8 {
        v.push(Op8::Fetch(t));
        v.push(Op8::FetchMut(t));
        v.push(Op8::TryFetch(t));
        v.push(Op8::TryFetchMut(t));
    }
    for k in 0..6u8 {
        v.push(Op8::TryFetchById(k));
        v.push(Op8::TryFetchMutById(k));
    }
    for i in 0..6u8 {
        v.push(Op8::SysData(i));
    }
    v.push(Op8::MetaIterNext);
    v.push(Op8::MetaIterMutNext);
    v.push(Op8::IterOpen(false));
    v.push(Op8::IterOpen(true));
    v
}

pub fn alphabet(max_guards: usize) -> Vec<Op8> {
    let mut v = acquire_ops();
    for i in 0..max_guards as u8 {
        v.push(Op8::Clone(i));
        v.push(Op8::Drop(i));
        v.push(Op8::IterNext(i));
        for j in 0..max_guards as u8 {
            if i != j {
                v.push(Op8::CloneFrom(i, j));
            }
        }
    }
    for (i, _) in acquire_ops().iter().enumerate() {
        v.push(Op8::AcquireThenPanic(i as u8));
    }
    for (i, _) in acquire_ops().iter().enumerate() {
        v.push(Op8::AcquireDuringUnwind(i as u8));
    }
    v
}

type Fail = (String, String, usize);

/// Replay a history; Ok(canonical observed state) or the failure.  Operations
/// that are not enabled in the current state (clone/drop of a missing guard,
/// a 4th live guard) make the history invalid: Ok(None).
pub fn run_history(h: &[Op8], max_guards: usize) -> Result<Option<Vec<u8>>, Fail> {
    let world = new_world();
    let mut meta: MetaTable<dyn Tagged> = MetaTable::new();
    // a registered type that is absent from the world comes first: the iterators skip it
    meta.register::<CellX>();
    meta.register::<Cell0>();
    meta.register::<Cell1>();
    let mut m = Model::new();
    let mut guards: Vec<G> = Vec::new();
    let acq = acquire_ops();
    for (i, op) in h.iter().enumerate() {
        let fail = |sig: &str, msg: String| -> Fail { (sig.to_string(), msg, i) };
        match *op {
            Op8::Drop(j) => {
                if j as usize >= guards.len() {
                    return Ok(None);
                }
                let g = guards.remove(j as usize);
                drop(g);
                let hd = m.guards.remove(j as usize);
                m.iters.remove(j as usize);
                m.give(&hd);
            }
            Op8::IterNext(j) => {
                let (ex, cur) = match m.iters.get(j as usize).copied().flatten() {
                    Some(x) => x,
                    None => return Ok(None),
                };
                if guards.len() >= max_guards {
                    return Ok(None);
                }
                // registered (and present) in this order: key 0, key 1
                let want = if cur >= 2 {
                    Cls::None
                } else if m.can(cur, ex) {
                    Cls::Guard
                } else {
                    Cls::Panic
                };
                let r = catch_unwind(AssertUnwindSafe(|| match &mut guards[j as usize] {
                    G::It(it) => it.next().map(G::Mr),
                    G::ItMut(it) => it.next().map(G::Mw),
                    _ => unreachable!(),
                }));
                let got = match &r {
                    Ok(Some(_)) => Cls::Guard,
                    Ok(None) => Cls::None,
                    Err(_) => Cls::Panic,
                };
                if got != want {
                    let sig = match (got, want) {
                        (Cls::Guard, Cls::Panic) => "aliasing-guard-returned",
                        (Cls::None, Cls::Panic) => "conflict-returns-none-instead-of-panic",
                        (Cls::Panic, _) => "unexpected-panic",
                        _ => "outcome-differs-from-borrow-model",
                    };
                    return Err(fail(sig, format!("next() on a live {} meta-table iterator at position {} gave {:?}, the borrow model says {:?} (shared {:?}, exclusive {:?})", if ex { "exclusive" } else { "shared" }, cur, got, want, m.shared, m.excl)));
                }
                match r {
                    Ok(Some(g)) => {
                        let hd = vec![(cur, ex)];
                        m.take(&hd);
                        guards.push(g);
                        m.guards.push(hd);
                        m.iters.push(None);
                        m.iters[j as usize] = Some((ex, cur + 1));
                    }
                    Ok(None) => {}
                    Err(_) => {
                        // where a rejected `next` leaves the iterator is not specified: stop using it
                        let g = guards.remove(j as usize);
                        drop(g);
                        m.guards.remove(j as usize);
                        m.iters.remove(j as usize);
                    }
                }
            }
            Op8::CloneFrom(a, b) => {
                let (a, b) = (a as usize, b as usize);
                if a >= guards.len() || b >= guards.len() {
                    return Ok(None);
                }
                // both have to be shared guards of one type
                let ok = {
                    let (ga, gb): (&mut G, &G) = if a < b {
                        let (x, y) = guards.split_at_mut(b);
                        (&mut x[a], &y[0])
                    } else {
                        let (x, y) = guards.split_at_mut(a);
                        (&mut y[0], &x[b])
                    };
                    match (ga, gb) {
                        (G::R0(x), G::R0(y)) => {
                            x.clone_from(y);
                            true
                        }
                        (G::R1(x), G::R1(y)) => {
                            x.clone_from(y);
                            true
                        }
                        (G::Rz(x), G::Rz(y)) => {
                            x.clone_from(y);
                            true
                        }
                        _ => false,
                    }
                };
                if !ok {
                    return Ok(None);
                }
                let old = m.guards[a].clone();
                m.give(&old);
                let new = m.guards[b].clone();
                m.take(&new);
                m.guards[a] = new;
            }
            Op8::Clone(j) => {
                if j as usize >= guards.len() || guards.len() >= max_guards {
                    return Ok(None);
                }
                let c = match &guards[j as usize] {
                    G::R0(x) => G::R0(x.clone()),
                    G::R1(x) => G::R1(x.clone()),
                    G::Rz(x) => G::Rz(x.clone()),
                    _ => return Ok(None),
                };
                guards.push(c);
                let hd = m.guards[j as usize].clone();
                m.take(&hd);
                m.guards.push(hd);
                m.iters.push(None);
            }
            Op8::AcquireThenPanic(a) => {
                let aop = acq[a as usize];
                let (mem, whole_opt) = members(aop).unwrap();
                let (cls, hd) = m.acquire(&mem, whole_opt);
                m.give(&hd); // released by the unwinding
                let r = catch_unwind(AssertUnwindSafe(|| {
                    let g = acquire_real(&world, &meta, aop);
                    let got = matches!(g, Ok(Some(_)));
                    let _keep = g;
                    if got {
                        panic!("C08-INNER-GOT");
                    } else {
                        panic!("C08-INNER-NONE");
                    }
                }));
                let msg = crate::sched::payload_str(&*r.err().unwrap());
                let got = if msg == "C08-INNER-GOT" { Cls::Guard } else if msg == "C08-INNER-NONE" { Cls::None } else { Cls::Panic };
                if got != cls {
                    return Err(fail("outcome-differs-from-borrow-model", format!("{:?} (then panic) gave {:?}, the borrow model says {:?}", aop, got, cls)));
                }
            }
            Op8::AcquireDuringUnwind(a) => {
                let aop = acq[a as usize];
                let (mem, whole_opt) = members(aop).unwrap();
                let (cls, hd) = m.acquire(&mem, whole_opt);
                m.give(&hd); // the guard is dropped inside the destructor
                struct OnDrop<F: FnMut()>(F);
                impl<F: FnMut()> Drop for OnDrop<F> {
                    fn drop(&mut self) {
                        (self.0)()
                    }
                }
                let mut got: Option<Result<Cls, String>> = None;
                let _ = catch_unwind(AssertUnwindSafe(|| {
                    let _g = OnDrop(|| {
                        debug_assert!(std::thread::panicking());
                        got = Some(match catch_unwind(AssertUnwindSafe(|| acquire_real(&world, &meta, aop))) {
                            Ok(Ok(Some(g))) => {
                                drop(g);
                                Ok(Cls::Guard)
                            }
                            Ok(Ok(None)) => Ok(Cls::None),
                            Ok(Err(e)) => Err(e),
                            Err(_) => Ok(Cls::Panic),
                        });
                    });
                    panic!("C08-OUTER");
                }));
                match got {
                    Some(Ok(g)) if g == cls => {}
                    Some(Ok(g)) => {
                        let sig = match (g, cls) {
                            (Cls::Guard, Cls::Panic) => "aliasing-guard-returned",
                            (Cls::None, Cls::Panic) => "conflict-returns-none-instead-of-panic",
                            (Cls::Panic, _) => "unexpected-panic",
                            _ => "outcome-differs-from-borrow-model",
                        };
                        return Err(fail(sig, format!("{:?} issued from a destructor while the thread was unwinding gave {:?}, the borrow model says {:?}", aop, g, cls)));
                    }
                    Some(Err(e)) => return Err(fail("absent-resource-yields-guard", e)),
                    None => return Err(fail("harness", "destructor did not run".into())),
                }
            }
            aop => {
                if guards.len() >= max_guards {
                    return Ok(None);
                }
                let (mem, whole_opt) = members(aop).unwrap();
                let (cls, hd) = m.acquire(&mem, whole_opt);
                let r = catch_unwind(AssertUnwindSafe(|| acquire_real(&world, &meta, aop)));
                let got = match &r {
                    Ok(Ok(Some(_))) => Cls::Guard,
                    Ok(Ok(None)) => Cls::None,
                    Ok(Err(e)) => return Err(fail("absent-resource-yields-guard", e.clone())),
                    Err(_) => Cls::Panic,
                };
                if got != cls {
                    let sig = match (got, cls) {
                        (Cls::Guard, Cls::Panic) => "aliasing-guard-returned",
                        (Cls::None, Cls::Panic) => "conflict-returns-none-instead-of-panic",
                        (Cls::Panic, _) => "unexpected-panic",
                        _ => "outcome-differs-from-borrow-model",
                    };
                    return Err(fail(sig, format!("{:?} gave {:?}, the borrow model says {:?} (shared {:?}, exclusive {:?})", aop, got, cls, m.shared, m.excl)));
                }
                if let Ok(Ok(Some(g))) = r {
                    guards.push(g);
                    m.guards.push(hd);
                    m.iters.push(match aop {
                        Op8::IterOpen(ex) => Some((ex, 0)),
                        _ => None,
                    });
                }
            }
        }
        // probes: cell states and canaries through every live guard
        for k in 0..NK as u8 {
            let want = if !PRESENT[k as usize] {
                3
            } else if m.excl[k as usize] {
                2
            } else if m.shared[k as usize] > 0 {
                1
            } else {
                0
            };
            let got = cell_state(&world, k);
            if got != want {
                return Err(fail("cell-state-differs", format!("after {:?}: cell {} probes as {} but the model says {} (0 free, 1 shared, 2 exclusive, 3 absent)", op, k, got, want)));
            }
        }
        for (g, hd) in guards.iter_mut().zip(m.guards.clone().iter()) {
            touch(g, hd, &mut m).map_err(|e| fail("existing-guard-unusable-or-stale", e))?;
        }
    }
    // canonical observed state: per-cell state + counts, and the multiset of guard shapes
    let mut key: Vec<u8> = Vec::new();
    for k in 0..NK {
        key.push(if m.excl[k] { 200 } else { m.shared[k] as u8 });
    }
    let mut shapes: Vec<Vec<(u8, bool)>> = m.guards.clone();
    // order matters for Drop(i)/Clone(i): keep positional
    for (s, it) in shapes.drain(..).zip(m.iters.iter()) {
        key.push(250);
        for (k, ex) in s {
            key.push(k * 2 + ex as u8);
        }
        if let Some((ex, cur)) = it {
            key.push(240 + *ex as u8 * 4 + *cur);
        }
    }
    // a second, independent world on the same thread: whatever this world's guards hold, every acquisition on the
    // other world behaves as on a fresh world (borrows belong to a cell of ONE world, not to a resource id)
    if !guards.is_empty() {
        let other = new_world();
        for aop in [Op8::FetchMut(0), Op8::Fetch(1), Op8::TryFetchMutById(2), Op8::TryFetchById(4), Op8::SysData(0), Op8::MetaIterMutNext] {
            let (mem, whole_opt) = members(aop).unwrap();
            let (cls, _) = Model::new().acquire(&mem, whole_opt);
            let got = match catch_unwind(AssertUnwindSafe(|| acquire_real(&other, &meta, aop).map(|g| g.is_some()))) {
                Ok(Ok(true)) => Cls::Guard,
                Ok(Ok(false)) => Cls::None,
                Ok(Err(e)) => return Err(("absent-resource-yields-guard".into(), e, h.len())),
                Err(_) => Cls::Panic,
            };
            if got != cls {
                return Err(("borrow-leaks-into-another-world".into(), format!("{:?} on a second, untouched world gave {:?} (a fresh world gives {:?}) while this world's guards hold shared {:?} / exclusive {:?}", aop, got, cls, m.shared, m.excl), h.len()));
            }
        }
        for k in 0..NK as u8 {
            let st = cell_state(&other, k);
            if PRESENT[k as usize] && st != 0 {
                return Err(("borrow-leaks-into-another-world".into(), format!("cell {} of the second world is left borrowed ({})", k, st), h.len()));
            }
        }
    }
    drop(guards);
    for k in 0..NK as u8 {
        let s = cell_state(&world, k);
        if PRESENT[k as usize] && s != 0 {
            return Err(("drop-did-not-release".into(), format!("cell {} still borrowed ({}) after all guards were dropped", k, s), h.len()));
        }
    }
    Ok(Some(key))
}

pub struct C8Stats {
    pub histories: u64,
    pub valid_histories: u64,
    pub states: u64,
    pub transitions: u64,
    pub max_depth: usize,
    pub capped: bool,
}

fn finding(sig: String, msg: String, h: &[Op8], at: usize) -> Finding {
    Finding {
        prop: "C08".into(),
        sig,
        msg: format!("{} | at step {} of history {:?}", msg, at, h),
        replay: json!({"kind":"c08-history","history": h.iter().map(|o| format!("{:?}", o)).collect::<Vec<_>>()}),
        size: h.len(),
    }
}

/// BFS with de-duplication on the observed state up to `depth` (every op from every state).
pub fn run_bfs(depth: usize, max_guards: usize, deadline: std::time::Instant, col: &mut Collector) -> (C8Stats, Vec<Value>) {
    let alpha = alphabet(max_guards);
    let mut st = C8Stats { histories: 0, valid_histories: 0, states: 0, transitions: 0, max_depth: 0, capped: false };
    let mut seen: HashSet<Vec<u8>> = HashSet::new();
    let mut frontier: VecDeque<Vec<Op8>> = VecDeque::new();
    seen.insert(run_history(&[], max_guards).ok().flatten().unwrap_or_default());
    frontier.push_back(vec![]);
    let mut sample = None;
    while let Some(h) = frontier.pop_front() {
        if std::time::Instant::now() > deadline {
            st.capped = true;
            break;
        }
        for op in &alpha {
            let mut h2 = h.clone();
            h2.push(*op);
            st.histories += 1;
            match run_history(&h2, max_guards) {
                Ok(None) => {}
                Ok(Some(key)) => {
                    st.valid_histories += 1;
                    st.transitions += 1;
                    if seen.insert(key) {
                        st.max_depth = st.max_depth.max(h2.len());
                        if h2.len() >= 3 && sample.is_none() {
                            sample = Some(json!({"history": h2.iter().map(|o| format!("{:?}", o)).collect::<Vec<_>>(), "note": "shortest history reaching one of the observed states"}));
                        }
                        if h2.len() < depth {
                            frontier.push_back(h2);
                        }
                    }
                }
                Err((sig, msg, at)) => col.add(finding(sig, msg, &h2, at)),
            }
        }
    }
    st.states = seen.len() as u64;
    (st, sample.into_iter().collect())
}

// ---------------------------------------------------------------------------
// concurrent part: the same acquisitions from 2-3 controlled tasks
// ---------------------------------------------------------------------------

#[derive(Clone, Copy, Debug, PartialEq, Eq, Hash)]
pub enum CAcq {
    R(u8),
    W(u8),
}

fn c_alpha() -> Vec<CAcq> {
    vec![CAcq::R(0), CAcq::W(0), CAcq::R(1), CAcq::W(1), CAcq::R(2), CAcq::W(2)]
}

/// every task: acquire, (window), release.  Log of (task, what, outcome).
fn run_concurrent(tasks: &[CAcq]) -> Vec<(usize, u8, bool)> {
    // events: kind 0 = acquired ok, 1 = acquisition panicked, 2 = released
    let world = Arc::new(new_world());
    let log: Arc<Mutex<Vec<(usize, u8, bool)>>> = Arc::new(Mutex::new(Vec::new()));
    let canary_err: Arc<Mutex<Option<String>>> = Arc::new(Mutex::new(None));
    let mut hs = Vec::new();
    for (ti, a) in tasks.iter().copied().enumerate() {
        let (w, lg, ce) = (world.clone(), log.clone(), canary_err.clone());
        hs.push(shuttle::thread::spawn(move || {
            sched_point();
            // kind 10 = the acquiring call begins (its effect lies between this and its 0 / 1 entry)
            lg.lock().unwrap().push((ti, 10, true));
            let r = catch_unwind(AssertUnwindSafe(|| -> G {
                match a {
                    CAcq::R(0) => G::R0(w.fetch()),
                    CAcq::R(1) => G::R1(w.try_fetch().unwrap()),
                    CAcq::R(_) => G::R0(w.try_fetch_by_id::<Cell0>(key_id(2)).unwrap()),
                    CAcq::W(0) => G::W0(w.try_fetch_mut().unwrap()),
                    CAcq::W(1) => G::W1(w.fetch_mut()),
                    CAcq::W(_) => G::W0(w.try_fetch_mut_by_id::<Cell0>(key_id(2)).unwrap()),
                }
            }));
            match r {
                Err(_) => {
                    lg.lock().unwrap().push((ti, 1, false));
                }
                Ok(mut g) => {
                    lg.lock().unwrap().push((ti, 0, true));
                    // exclusive: write a task-specific canary, yield, read it back
                    let mine = 7000 + ti as u64;
                    let before = match &mut g {
                        G::W0(x) => {
                            x.0 = mine;
                            mine
                        }
                        G::W1(x) => {
                            x.0 = mine;
                            mine
                        }
                        G::R0(x) => x.0,
                        G::R1(x) => x.0,
                        _ => 0,
                    };
                    sched_point();
                    let after = match &g {
                        G::W0(x) => x.0,
                        G::W1(x) => x.0,
                        G::R0(x) => x.0,
                        G::R1(x) => x.0,
                        _ => 0,
                    };
                    if before != after {
                        *ce.lock().unwrap() = Some(format!("task {} saw its resource change from {} to {} while holding a guard", ti, before, after));
                    }
                    // kind 12 = the release begins
                    lg.lock().unwrap().push((ti, 12, true));
                    drop(g);
                    lg.lock().unwrap().push((ti, 2, true));
                }
            }
            sched_point();
        }));
    }
    for h in hs {
        let _ = h.join();
    }
    let mut l = log.lock().unwrap().clone();
    if let Some(e) = canary_err.lock().unwrap().clone() {
        l.push((usize::MAX, 9, false));
        let _ = e;
    }
    l
}

fn c_key(a: CAcq) -> (usize, bool) {
    match a {
        CAcq::R(k) => (k as usize, false),
        CAcq::W(k) => (k as usize, true),
    }
}

/// The cell operations inside the calls are scheduling points, so a call is an interval [begin, end] of the log
/// and takes effect somewhere inside it.  The log is accepted iff SOME order of the effects that respects the
/// real-time order of the intervals explains every outcome by the shared-xor-exclusive model (brute force: there
/// are at most 6 operations).
fn check_concurrent(tasks: &[CAcq], log: &[(usize, u8, bool)]) -> Option<(String, String)> {
    if log.iter().any(|e| e.0 == usize::MAX) {
        return Some(("guarded-value-changed-under-guard".into(), "a task saw its resource change while it held a guard".into()));
    }
    // operations: (task, is_release, begin index, end index, acquired?)
    let mut ops: Vec<(usize, bool, usize, usize, bool)> = Vec::new();
    for (i, (ti, kind, _)) in log.iter().enumerate() {
        match kind {
            10 | 12 => ops.push((*ti, *kind == 12, i, usize::MAX, false)),
            0 | 1 | 2 => {
                if let Some(o) = ops.iter_mut().rev().find(|o| o.0 == *ti && o.3 == usize::MAX) {
                    o.3 = i;
                    o.4 = *kind == 0;
                }
            }
            _ => {}
        }
    }
    ops.retain(|o| o.3 != usize::MAX);
    fn search(ops: &[(usize, bool, usize, usize, bool)], tasks: &[CAcq], done: &mut Vec<bool>, shared: &mut [u32; 3], excl: &mut [bool; 3]) -> bool {
        if done.iter().all(|d| *d) {
            return true;
        }
        for i in 0..ops.len() {
            if done[i] {
                continue;
            }
            // every operation that ended before this one began must already have taken effect
            if (0..ops.len()).any(|j| !done[j] && j != i && ops[j].3 < ops[i].2) {
                continue;
            }
            let (ti, is_release, _, _, acquired) = ops[i];
            let (k, ex) = c_key(tasks[ti]);
            let can = if ex { shared[k] == 0 && !excl[k] } else { !excl[k] };
            let (s0, e0) = (*shared, *excl);
            let ok = if is_release {
                if ex {
                    excl[k] = false
                } else {
                    shared[k] -= 1
                }
                true
            } else if acquired {
                if can {
                    if ex {
                        excl[k] = true
                    } else {
                        shared[k] += 1
                    }
                }
                can
            } else {
                !can
            };
            if ok {
                done[i] = true;
                if search(ops, tasks, done, shared, excl) {
                    return true;
                }
                done[i] = false;
            }
            *shared = s0;
            *excl = e0;
        }
        false
    }
    let mut done = vec![false; ops.len()];
    if search(&ops, tasks, &mut done, &mut [0; 3], &mut [false; 3]) {
        None
    } else {
        let any_fail = ops.iter().any(|o| !o.1 && !o.4);
        Some((
            if any_fail { "outcomes-not-linearizable".into() } else { "aliasing-guard-returned".into() },
            "no order of the calls' effects that respects their real-time order explains the outcomes by the shared-xor-exclusive model (a guard was handed out although the cell was taken, or a call failed although nothing conflicting was held)".into(),
        ))
    }
}

pub struct C8Conc {
    pub configs: u64,
    pub schedules: u64,
    pub nodes: u64,
    pub transitions: u64,
    pub conflicts_seen: u64,
    pub capped: bool,
}

pub fn run_concurrent_part(ntasks: usize, bound: u32, deadline: std::time::Instant, threads: usize, col: &mut Collector) -> C8Conc {
    let alpha = c_alpha();
    let mut configs: Vec<Vec<CAcq>> = vec![vec![]];
    for _ in 0..ntasks {
        let mut nx = Vec::new();
        for c in &configs {
            for a in &alpha {
                let mut d = c.clone();
                d.push(*a);
                nx.push(d);
            }
        }
        configs = nx;
    }
    // tasks are symmetric: keep sorted configurations only
    configs.retain(|c| c.windows(2).all(|w| format!("{:?}", w[0]) <= format!("{:?}", w[1])));
    let configs = Arc::new(configs);
    // every borrow / release of every cell is a scheduling point while this part runs
    shred::cell::verif::set_points(true);
    let next = Arc::new(std::sync::atomic::AtomicUsize::new(0));
    let total: Arc<Mutex<(u64, u64, u64, u64, Collector, bool)>> = Arc::new(Mutex::new((0, 0, 0, 0, Collector::default(), false)));
    std::thread::scope(|s| {
        for _ in 0..threads.min(configs.len()) {
            let (configs, next, total) = (configs.clone(), next.clone(), total.clone());
            s.spawn(move || {
                let source = move || -> Option<sched::Job> {
                    let i = next.fetch_add(1, std::sync::atomic::Ordering::Relaxed);
                    if i >= configs.len() {
                        return None;
                    }
                    let cfg = configs[i].clone();
                    let acc: Arc<Mutex<(Collector, u64)>> = Arc::new(Mutex::new((Collector::default(), 0)));
                    let (a2, a3, t2, cfg2) = (acc.clone(), acc.clone(), total.clone(), cfg.clone());
                    let body = move || {
                        let log = run_concurrent(&cfg);
                        let mut a = a2.lock().unwrap();
                        a.1 += log.iter().filter(|e| e.1 == 1).count() as u64;
                        if let Some((sig, msg)) = check_concurrent(&cfg, &log) {
                            let choices = sched::current_choices();
                            a.0.add_lazy("C08", &sig, choices.len(), || Finding {
                                prop: "C08".into(),
                                sig: sig.clone(),
                                msg: format!("{} | tasks {:?} | log {:?}", msg, cfg, log),
                                replay: json!({"kind":"c08-concurrent","tasks": cfg.iter().map(|x| format!("{:?}", x)).collect::<Vec<_>>(),"choices":choices}),
                                size: choices.len(),
                            });
                        }
                    };
                    Some(sched::Job {
                        cfg: Cfg { bound, deadline: Some(deadline), all_points: true, ..Default::default() },
                        body: Arc::new(body),
                        on_abnormal: Box::new(move |ab: Abnormal, ch: Vec<u16>| {
                            a3.lock().unwrap().0.add(Finding { prop: "MACHINERY".into(), sig: "c08-concurrent-abnormal".into(), msg: format!("{:?} tasks {:?}", ab, cfg2), replay: json!({"choices": ch}), size: 0 });
                            true
                        }),
                        on_done: Box::new(move |o| {
                            let mut t = t2.lock().unwrap();
                            let mut a = acc.lock().unwrap();
                            t.0 += o.stats.executions;
                            t.1 += o.stats.nodes + o.stats.executions;
                            t.2 += o.stats.transitions;
                            t.3 += a.1;
                            t.4.merge(std::mem::take(&mut a.0));
                            t.5 |= o.stats.capped;
                            if let Some(d) = o.divergence {
                                t.4.add(Finding { prop: "MACHINERY".into(), sig: "divergence".into(), msg: d, replay: json!({}), size: 0 });
                            }
                        }),
                    })
                };
                sched::run_jobs(Box::new(source));
            });
        }
    });
    shred::cell::verif::set_points(false);
    let mut t = total.lock().unwrap();
    col.merge(std::mem::take(&mut t.4));
    C8Conc { configs: configs.len() as u64, schedules: t.0, nodes: t.1, transitions: t.2, conflicts_seen: t.3, capped: t.5 }
}
