//! Turning a registration sequence (spec::Op) into a real `DispatcherBuilder`
//! / `Dispatcher`, with `catch_unwind` around every builder call.

use std::marker::PhantomData;
use std::panic::{catch_unwind, AssertUnwindSafe};
use std::sync::Arc;

use shred::{Dispatcher, DispatcherBuilder, MultiDispatcher};

use crate::hsys::*;
use crate::sched::payload_str;
use crate::spec::*;

pub type Builder = DispatcherBuilder<'static, 'static>;

#[derive(Clone, Debug, PartialEq, Eq)]
pub struct Call {
    /// path of op indices from the top-level sequence down to this op
    pub path: Vec<usize>,
    pub panic: Option<String>,
}

pub struct Registered {
    pub builder: Builder,
    pub calls: Vec<Call>,
    /// Debug text of the top-level builder after each top-level call (if requested)
    pub debug_after: Vec<Result<String, String>>,
}

fn deps_ref(d: &[String]) -> Vec<&str> {
    d.iter().map(|s| s.as_str()).collect()
}

fn add_batch_k<K: CtrlKind>(
    b: &mut Builder,
    spec: &BatchSpec,
    id: usize,
    inner: Builder,
    ctx: &Arc<Ctx>,
) {
    let deps = deps_ref(&spec.deps);
    if spec.multi {
        let c = HMulti::<K> { id, times: spec.times, ctx: ctx.clone(), _k: PhantomData };
        b.add_batch::<MultiDispatcher<HMulti<K>>>(MultiDispatcher::new(c), inner, &spec.name, &deps);
    } else {
        let c = HCtrl::<K> { id, times: spec.times, fetch_data: spec.fetch_data, ctx: ctx.clone(), _k: PhantomData };
        b.add_batch::<HCtrl<K>>(c, inner, &spec.name, &deps);
    }
}

fn register_into(
    b: &mut Builder,
    ops: &[Op],
    next_id: &mut usize,
    path: &mut Vec<usize>,
    ctx: &Arc<Ctx>,
    calls: &mut Vec<Call>,
    pool: &Option<Arc<rayon::ThreadPool>>,
    mut debug_after: Option<&mut Vec<Result<String, String>>>,
) {
    for (i, op) in ops.iter().enumerate() {
        path.push(i);
        let r = match op {
            Op::Barrier => catch_unwind(AssertUnwindSafe(|| b.add_barrier())),
            Op::Sys(s) => {
                let id = *next_id;
                *next_id += 1;
                let sys = HSys::new(id, &s.reads, &s.writes, s.time, ctx);
                let deps = deps_ref(&s.deps);
                catch_unwind(AssertUnwindSafe(|| b.add(sys, &s.name, &deps)))
            }
            Op::Tl(s) => {
                let id = *next_id;
                *next_id += 1;
                let sys = HSys::new(id, &s.reads, &s.writes, s.time, ctx);
                catch_unwind(AssertUnwindSafe(|| b.add_thread_local(sys)))
            }
            Op::Static(st) => {
                let id = *next_id;
                *next_id += 1;
                let deps = deps_ref(&st.deps);
                macro_rules! add_static {
                    ($k:ty) => {
                        catch_unwind(AssertUnwindSafe(|| b.add(SSys::<$k> { id, time: st.time, ctx: ctx.clone(), _k: PhantomData }, &st.name, &deps)))
                    };
                }
                match st.data {
                    StaticData::Unit => add_static!(SUnit),
                    StaticData::ReadA => add_static!(SReadA),
                    StaticData::WriteC => add_static!(SWriteC),
                    StaticData::OptReadA => add_static!(SOptReadA),
                    StaticData::OptWriteC => add_static!(SOptWriteC),
                    StaticData::ReadExpectA => add_static!(SReadExpectA),
                    StaticData::ReadAWriteC => add_static!(SReadAWriteC),
                    StaticData::OptReadAThenReadA => add_static!(SOptReadAThenReadA),
                    StaticData::NamingThenProviding => add_static!(SNamingThenProviding),
                    StaticData::GenReadA => add_static!(SGenReadA),
                    StaticData::GenReadC => add_static!(SGenReadC),
                    StaticData::GenOverWriteC => add_static!(SGenOverWriteC),
                    StaticData::DerTupleAC => add_static!(SDerTupleAC),
                    StaticData::DerMacWriteC => add_static!(SDerMacWriteC),
                    StaticData::TwinW1 | StaticData::TwinW2 | StaticData::TwinR2 => {
                        let k = &twin_kinds()[match st.data {
                            StaticData::TwinW1 => 0,
                            StaticData::TwinW2 => 1,
                            _ => 2,
                        }];
                        catch_unwind(AssertUnwindSafe(|| (k.add)(b, id, st.time, ctx, &st.name, &deps)))
                    }
                }
            }
            Op::Batch(bs) => {
                let id = *next_id;
                *next_id += 1;
                let mut inner = DispatcherBuilder::new();
                register_into(&mut inner, &bs.inner, next_id, path, ctx, calls, pool, None);
                catch_unwind(AssertUnwindSafe(|| match bs.ctrl {
                    CtrlData::Unit => add_batch_k::<KUnit>(b, bs, id, inner, ctx),
                    CtrlData::ReadA => add_batch_k::<KReadA>(b, bs, id, inner, ctx),
                    CtrlData::WriteA => add_batch_k::<KWriteA>(b, bs, id, inner, ctx),
                    CtrlData::ReadC => add_batch_k::<KReadC>(b, bs, id, inner, ctx),
                    CtrlData::WriteC => add_batch_k::<KWriteC>(b, bs, id, inner, ctx),
                    CtrlData::ReadAWriteC => add_batch_k::<KReadAWriteC>(b, bs, id, inner, ctx),
                    CtrlData::OptReadA => add_batch_k::<KOptReadA>(b, bs, id, inner, ctx),
                    CtrlData::DerOptReadAWriteC => add_batch_k::<KDerOptReadAWriteC>(b, bs, id, inner, ctx),
                }))
            }
        };
        calls.push(Call {
            path: path.clone(),
            panic: r.err().map(|p| payload_str(&*p)),
        });
        if let Some(d) = debug_after.as_deref_mut() {
            d.push(debug_text(b));
        }
        path.pop();
    }
}

/// Register `ops` (one step of a longer sequence) on an existing builder; ids continue from `next_id`.
pub fn register_ops_step(b: &mut Builder, ops: &[Op], next_id: &mut usize, path: &mut Vec<usize>, ctx: &Arc<Ctx>, calls: &mut Vec<Call>) {
    // `register_into` pushes the op's index within `ops`; the caller has already pushed the real index
    let real = path.pop();
    let before = calls.len();
    register_into(b, ops, next_id, path, ctx, calls, &None, None);
    if let Some(r) = real {
        for c in &mut calls[before..] {
            if let Some(first) = c.path.get_mut(path.len()) {
                *first = r;
            }
        }
        path.push(r);
    }
}

pub fn debug_text(b: &Builder) -> Result<String, String> {
    catch_unwind(AssertUnwindSafe(|| format!("{:?}", b))).map_err(|p| payload_str(&*p))
}

/// Register `ops` on a fresh builder.  `pool`: user-supplied pool (None =
/// the builder creates the default pool in `build`).
pub fn register(ops: &[Op], ctx: &Arc<Ctx>, pool: Option<Arc<rayon::ThreadPool>>, want_debug: bool) -> Registered {
    let mut b = DispatcherBuilder::new();
    if let Some(p) = &pool {
        b.add_pool(p.clone());
    }
    let mut calls = Vec::new();
    let mut dbg = Vec::new();
    let mut next_id = 0;
    let mut path = Vec::new();
    register_into(
        &mut b,
        ops,
        &mut next_id,
        &mut path,
        ctx,
        &mut calls,
        &pool,
        if want_debug { Some(&mut dbg) } else { None },
    );
    Registered { builder: b, calls, debug_after: dbg }
}

/// `register` with a choice of where the user-supplied pool is handed over (see `Scenario::pool_placement`).
pub fn register_placed(ops: &[Op], ctx: &Arc<Ctx>, pool: Option<Arc<rayon::ThreadPool>>, placement: u8) -> Registered {
    if placement == 0 || pool.is_none() {
        return register(ops, ctx, pool, false);
    }
    let mut b = DispatcherBuilder::new();
    if placement == 2 {
        b.add_pool(Arc::new(rayon::ThreadPoolBuilder::new().num_threads(1).build().unwrap()));
        b.add_pool(pool.clone().unwrap());
    }
    let mut calls = Vec::new();
    let mut next_id = 0;
    let mut path = Vec::new();
    register_into(&mut b, ops, &mut next_id, &mut path, ctx, &mut calls, &pool, None);
    if placement == 1 {
        b.add_pool(pool.clone().unwrap());
    }
    Registered { builder: b, calls, debug_after: Vec::new() }
}

pub fn build(b: Builder) -> Result<Dispatcher<'static, 'static>, String> {
    catch_unwind(AssertUnwindSafe(|| b.build())).map_err(|p| payload_str(&*p))
}

/// Convenience: register + build (any panic is returned as Err).
pub fn build_plan(ops: &[Op], ctx: &Arc<Ctx>, pool: Option<Arc<rayon::ThreadPool>>) -> Result<Dispatcher<'static, 'static>, String> {
    let r = register(ops, ctx, pool, false);
    if let Some(c) = r.calls.iter().find(|c| c.panic.is_some()) {
        return Err(format!("builder call {:?} panicked: {}", c.path, c.panic.clone().unwrap()));
    }
    build(r.builder)
}
