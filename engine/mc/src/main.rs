pub mod c08;
pub mod c09;
pub mod c17;
pub mod checks;
pub mod hsys;
pub mod inv;
pub mod obs;
pub mod parseq;
pub mod plan;
pub mod planmc;
pub mod report;
pub mod sched;
pub mod schedmc;
pub mod spec;

use std::sync::{Arc, Mutex};

use spec::*;

fn sys(name: &str, r: &[u8], w: &[u8], deps: &[&str]) -> Op {
    Op::Sys(SysSpec { name: name.into(), reads: r.to_vec(), writes: w.to_vec(), time: 3, deps: deps.iter().map(|s| s.to_string()).collect() })
}

fn smoke() {
    let ops = vec![sys("a", &[0], &[], &[]), sys("b", &[0], &[], &[]), sys("c", &[], &[1], &[]), sys("d", &[], &[0], &[])];
    for all in [true, false] {
        for bound in [0u32, 1, 2, 3] {
            let traces = Arc::new(Mutex::new(std::collections::HashSet::new()));
            let finals = Arc::new(Mutex::new(std::collections::HashSet::new()));
            let t0 = std::time::Instant::now();
            let (tr, fi, ops2) = (traces.clone(), finals.clone(), ops.clone());
            let out = sched::explore(
                &sched::Cfg { bound, all_points: all, ..Default::default() },
                move || {
                    let info = PlanInfo::of(&ops2);
                    let ctx = hsys::Ctx::new(info.n(), hsys::Ctx::identity_map());
                    let mut d = plan::build_plan(&ops2, &ctx, None).unwrap();
                    let w = hsys::new_world();
                    d.dispatch(&w);
                    let log = ctx.take_log();
                    let key: Vec<(hsys::Ev, u16)> = log.iter().map(|e| (e.kind, e.sys)).collect();
                    tr.lock().unwrap().insert(key);
                    fi.lock().unwrap().insert((hsys::world_values(&w), ctx.obs.lock().unwrap().clone()));
                },
                |ab, ch| {
                    println!("abnormal: {:?} {:?}", ab, ch);
                    false
                },
            );
            println!(
                "all_points={} bound={} execs={} nodes={} trans={} depth={} traces={} finals={} div={:?} {:?}",
                all, bound, out.stats.executions, out.stats.nodes, out.stats.transitions, out.stats.max_depth,
                traces.lock().unwrap().len(), finals.lock().unwrap().len(), out.divergence, t0.elapsed()
            );
        }
    }
}

fn arg_val(args: &[String], key: &str) -> Option<String> {
    args.iter().position(|a| a == key).and_then(|i| args.get(i + 1).cloned())
}

fn cmd_check(args: &[String]) -> i32 {
    let prop = args.get(2).cloned().unwrap_or_default();
    let tier = match arg_val(args, "--tier").as_deref() {
        Some("thorough") => checks::Tier::Thorough,
        _ => checks::Tier::Quick,
    };
    let budget_s: u64 = arg_val(args, "--budget").and_then(|s| s.parse().ok()).unwrap_or(if tier == checks::Tier::Quick { 45 } else { 900 });
    let frag_path = arg_val(args, "--frag");
    let t0 = std::time::Instant::now();
    sched::install_quiet_hook();
    let mut frag = checks::Frag::new();
    let budget = std::time::Duration::from_secs(budget_s);
    let e2_first = !checks::e2_jobs(&prop, tier).is_empty();
    if prop == "C14" && checks::run_abort_probe(&mut frag) {
        // the process dies in one of the histories the exploration would run as well: report that and stop
        return checks::finish(&prop, tier, frag, t0.elapsed().as_secs_f64(), frag_path.as_deref());
    }
    checks::run_e1(&prop, tier, if e2_first { budget / 2 } else { budget }, &mut frag);
    checks::escalate(&prop, &mut frag);
    checks::run_e2(&prop, tier, budget.saturating_sub(t0.elapsed()), &mut frag);
    if prop == "C11" {
        checks::run_c11(tier, budget, &mut frag);
    }
    if prop == "C13" {
        checks::run_c13_probe(&mut frag);
    }
    if prop == "C15" {
        checks::run_c15(tier, budget, &mut frag);
    }
    if prop == "C16" {
        checks::run_c16(tier, budget, &mut frag);
    }
    if prop == "C08" {
        checks::run_c08(tier, budget, &mut frag);
    }
    if prop == "C17" {
        checks::run_c17(tier, budget, &mut frag);
    }
    if prop == "C09" {
        checks::run_c09(tier, budget, &mut frag);
    }
    checks::finish(&prop, tier, frag, t0.elapsed().as_secs_f64(), frag_path.as_deref())
}

/// Export registration sequences with the executed layout and the outcome of two dispatches of the
/// sequential twin (for the `parallel`-off build and for the cross-process comparison).
fn cmd_export(args: &[String]) -> i32 {
    let path = args.get(2).cloned().unwrap_or_default();
    let thorough = args.iter().any(|a| a == "thorough");
    sched::install_quiet_hook();
    let acc = |l: &[(&[u8], &[u8])]| -> Vec<(Vec<u8>, Vec<u8>)> { l.iter().map(|(r, w)| (r.to_vec(), w.to_vec())).collect() };
    let mut plans: Vec<Vec<spec::Op>> = Vec::new();
    let core = acc(&[(&[], &[]), (&[0], &[]), (&[], &[0]), (&[1], &[]), (&[], &[1]), (&[0], &[1])]);
    plans.extend(checks::distinct_plans(&planmc::Profile::B { access: core.clone(), times: vec![3], unnamed: false, dup: false, pairs: false }, 3, 1));
    plans.extend(checks::distinct_plans(&planmc::Profile::B { access: core, times: vec![1, 5], unnamed: true, dup: true, pairs: true }, if thorough { 3 } else { 2 }, 2));
    plans.extend(checks::distinct_plans(&planmc::Profile::D { access: acc(&[(&[], &[]), (&[], &[0])]) }, 4, 2));
    plans.extend(checks::distinct_plans(&planmc::Profile::EB, 2, 1));
    plans.extend(checks::distinct_plans(&planmc::Profile::F, 3, 1));
    plans.extend(checks::distinct_plans(&planmc::Profile::C { times: vec![1, 5] }, if thorough { 7 } else { 6 }, 5));
    // parametric families: stages of up to 24 groups, chains, groups filled to capacity
    plans.extend(planmc::families(if thorough { 40 } else { 24 }).into_iter().map(|(_, ops)| ops));
    let mut out = Vec::new();
    for p in &plans {
        let l = match obs::layout_of(p, &hsys::Ctx::identity_map()) {
            Ok(l) => l,
            Err(_) => continue,
        };
        let sc = schedmc::Scenario::plain(p.clone(), schedmc::Mode::Dispatch, 2);
        let t = schedmc::run_scenario(&sc, true);
        out.push(serde_json::json!({"ops": spec::plan_json(p), "layout": l.short(), "values": t.values, "obs": t.obs}));
    }
    std::fs::write(&path, serde_json::to_string(&out).unwrap()).expect("write export");
    println!("exported {} sequences", out.len());
    0
}

fn cmd_replay(args: &[String]) -> i32 {
    let path = args.get(2).cloned().unwrap_or_default();
    let txt = std::fs::read_to_string(&path).expect("read replay file");
    let v: serde_json::Value = serde_json::from_str(&txt).expect("parse replay file");
    sched::install_quiet_hook();
    match v.get("kind").and_then(|k| k.as_str()) {
        Some("plan") | Some("plan-wide") => {
            let ops = spec::plan_from_json(v.get("ops").unwrap()).expect("ops");
            let prop = v.get("property").and_then(|p| p.as_str()).unwrap_or("");
            let info = spec::PlanInfo::of(&ops);
            let need = obs::Need { debug: true, counters: true, setup_dispose: prop == "C13", sendable: true };
            let resmap0: Vec<u8> = if v.get("kind").and_then(|k| k.as_str()) == Some("plan-wide") { v.get("resmap").and_then(|m| m.as_array()).map(|a| a.iter().filter_map(|x| x.as_u64().map(|y| y as u8)).collect()).unwrap_or_else(hsys::Ctx::identity_map) } else { hsys::Ctx::identity_map() };
            let o = obs::observe(&ops, &resmap0, need);
            println!("plan: {}", spec::plan_short(&ops));
            println!("calls: {:?}", o.calls);
            println!("layout: {}", o.layout.as_ref().map(|l| l.short()).unwrap_or_else(|| "<none>".into()));
            println!("debug: {:?}", o.debug);
            let mut p = inv::Props::from_list(&[prop]);
            p.c10_all = true;
            p.continue_after_reject = true;
            let mut viols = inv::check_state(&p, &ops, &info, &o, false);
            if viols.is_empty() {
                // the finding may stem from a run in which a user-supplied pool was attached before the registrations
                for n in [1usize, 2] {
                    obs::set_e1_user_pool(Some(n));
                    let o2 = obs::observe(&ops, &resmap0, need);
                    obs::set_e1_user_pool(None);
                    viols = inv::check_state(&p, &ops, &info, &o2, false);
                    if !viols.is_empty() {
                        println!("(with a user-supplied pool of {} thread(s) attached before the registrations; layout {})", n, o2.layout.as_ref().map(|l| l.short()).unwrap_or_default());
                        break;
                    }
                }
            }
            for vi in &viols {
                println!("REPRODUCED {} {}: {}", vi.prop, vi.sig, vi.msg);
            }
            let mut c19 = 0;
            if prop == "C19" {
                if let Some(l) = &o.layout {
                    let (_, vs) = planmc::c19_check(&ops, l, 360);
                    for (sig, msg) in &vs {
                        println!("REPRODUCED C19 {}: {}", sig, msg);
                    }
                    c19 += vs.len();
                    if let Some(map) = v.get("resmap").and_then(|m| m.as_array()) {
                        let map: Vec<u8> = map.iter().filter_map(|x| x.as_u64().map(|y| y as u8)).collect();
                        match obs::layout_of(&ops, &map) {
                            Ok(l2) if l2 == *l => {}
                            Ok(l2) => {
                                println!("REPRODUCED C19 plan-depends-on-resource-identity: relabelled by {:?} the layout becomes {}", map, l2.short());
                                c19 += 1;
                            }
                            Err(e) => {
                                println!("REPRODUCED C19 transformed-plan-rejected: {}", e);
                                c19 += 1;
                            }
                        }
                    }
                }
            }
            if viols.is_empty() && c19 == 0 {
                println!("not reproduced");
                0
            } else {
                1
            }
        }
        Some("schedule") => {
            let sc = schedmc::Scenario::from_json(v.get("scenario").unwrap()).expect("scenario");
            let choices: Vec<u16> = v.get("choices").and_then(|c| c.as_array()).map(|a| a.iter().filter_map(|x| x.as_u64().map(|y| y as u16)).collect()).unwrap_or_default();
            let prop = v.get("property").and_then(|p| p.as_str()).unwrap_or("");
            let mut mon = schedmc::Mon::of(prop);
            if prop == "C11" || prop == "C15" {
                mon = schedmc::Mon::default();
            }
            println!("scenario: {} x{} of plan {}", sc.mode.label(), sc.dispatches, spec::plan_short(&sc.ops));
            let (vs, trace, abnormal) = schedmc::replay(&sc, &choices, mon, v.get("all_points").and_then(|a| a.as_bool()).unwrap_or(false));
            println!("trace: {}", trace.join(" "));
            if let Some(a) = &abnormal {
                println!("REPRODUCED abnormal end: {}", a);
            }
            for vi in &vs {
                println!("REPRODUCED {} {}: {}", vi.prop, vi.sig, vi.msg);
            }
            if vs.is_empty() && abnormal.is_none() {
                println!("not reproduced");
                0
            } else {
                1
            }
        }
        k => {
            eprintln!("replay kind {:?}: re-run the check itself to reproduce (the finding is deterministic)", k);
            2
        }
    }
}

fn main() {
    let args: Vec<String> = std::env::args().collect();
    match args.get(1).map(|s| s.as_str()) {
        Some("smoke") => smoke(),
        Some("check") => std::process::exit(cmd_check(&args)),
        Some("replay") => std::process::exit(cmd_replay(&args)),
        Some("export-plans") => std::process::exit(cmd_export(&args)),
        Some("abort-probe") => std::process::exit(checks::abort_probe_child()),
        Some("unwind-probe") => std::process::exit(c09::unwind_probe_child(args.get(2).and_then(|s| s.parse().ok()).unwrap_or(0))),
        _ => {
            eprintln!("usage: mc <cmd>");
            std::process::exit(2);
        }
    }
}
