pub mod hsys;
pub mod plan;
pub mod sched;
pub mod spec;

use std::sync::{Arc, Mutex};

use spec::*;

fn sys(name: &str, r: &[u8], w: &[u8], deps: &[&str]) -> Op {
    Op::Sys(SysSpec { name: name.into(), reads: r.to_vec(), writes: w.to_vec(), time: 3, deps: deps.iter().map(|s| s.to_string()).collect() })
}

fn smoke() {
    let ops = vec![sys("a", &[0], &[], &[]), sys("b", &[0], &[], &[]), sys("c", &[], &[1], &[]), sys("d", &[], &[0], &[])];
    for all in [true, false] {
        for bound in [0u32, 1, 2, 3] {
            let traces = Arc::new(Mutex::new(std::collections::HashSet::new()));
            let finals = Arc::new(Mutex::new(std::collections::HashSet::new()));
            let t0 = std::time::Instant::now();
            let (tr, fi, ops2) = (traces.clone(), finals.clone(), ops.clone());
            let out = sched::explore(
                &sched::Cfg { bound, all_points: all, ..Default::default() },
                move || {
                    let info = PlanInfo::of(&ops2);
                    let ctx = hsys::Ctx::new(info.n(), hsys::Ctx::identity_map());
                    let mut d = plan::build_plan(&ops2, &ctx, None).unwrap();
                    let w = hsys::new_world();
                    d.dispatch(&w);
                    let log = ctx.take_log();
                    let key: Vec<(hsys::Ev, u16)> = log.iter().map(|e| (e.kind, e.sys)).collect();
                    tr.lock().unwrap().insert(key);
                    fi.lock().unwrap().insert((hsys::world_values(&w), ctx.obs.lock().unwrap().clone()));
                },
                |ab, ch| {
                    println!("abnormal: {:?} {:?}", ab, ch);
                    false
                },
            );
            println!(
                "all_points={} bound={} execs={} nodes={} trans={} depth={} traces={} finals={} div={:?} {:?}",
                all, bound, out.stats.executions, out.stats.nodes, out.stats.transitions, out.stats.max_depth,
                traces.lock().unwrap().len(), finals.lock().unwrap().len(), out.divergence, t0.elapsed()
            );
        }
    }
}

fn main() {
    let args: Vec<String> = std::env::args().collect();
    match args.get(1).map(|s| s.as_str()) {
        Some("smoke") => smoke(),
        _ => {
            eprintln!("usage: mc <cmd>");
            std::process::exit(2);
        }
    }
}
