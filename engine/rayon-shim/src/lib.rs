//! Stand-in for the `rayon` crate, used only by the /verif model-checking
//! harness (injected with `[patch.crates-io]`, shred's sources are untouched).
//!
//! It is a *model of the environment*: every closure rayon would hand to a
//! pool thread becomes a task of the controlled runtime (shuttle), so that the
//! scheduler of the model checker owns every interleaving the pool could
//! produce.  Semantics (see /verif/DESIGN.md §5.2):
//!
//! * `for_each` over `n` items: one task per item, the caller blocks until all
//!   have ended; a panicking item's payload is carried out of its task as a
//!   value and re-raised in the caller once all items ended; after a panic each
//!   item that has not started yet is either run or skipped (environment
//!   choice).
//! * `install`: from outside the pool the closure runs in a fresh pool task and
//!   the caller blocks; from inside the same pool it runs inline.
//! * `join(a, b)`: `b` in a new task, `a` inline, both end before the return.
//! * `spawn`: detached task.
//! * capacity: a pool with `n` threads has `n` slots; a closure holds a slot
//!   while it runs and gives it up while it is blocked in a nested
//!   `for_each`/`join`/`install` (rayon's steal-while-waiting).  `None` = no
//!   limit (over-approximates every pool size for safety properties).
//!
//! Outside a controlled execution (`verif::set_controlled(false)`, the
//! default) every operation degrades to inline sequential execution.

use std::any::Any;
use std::cell::{Cell, RefCell};
use std::panic::{catch_unwind, resume_unwind, AssertUnwindSafe};
use std::sync::atomic::{AtomicBool, Ordering};
use std::sync::Arc;

type Payload = Box<dyn Any + Send + 'static>;

/// Control surface for the harness (not part of rayon's API).
pub mod verif {
    use super::*;

    std::thread_local! {
        pub(crate) static CONTROLLED: Cell<bool> = const { Cell::new(false) };
        pub(crate) static DEFAULT_THREADS: Cell<Option<usize>> = const { Cell::new(None) };
        pub(crate) static SPAWN_PANICS: Cell<usize> = const { Cell::new(0) };
        pub(crate) static NEXT_POOL_ID: Cell<usize> = const { Cell::new(1) };
        pub(crate) static TASKS_SPAWNED: Cell<usize> = const { Cell::new(0) };
        pub(crate) static SKIP_CHOICES: Cell<usize> = const { Cell::new(0) };
        pub(crate) static POOLS_BUILT: Cell<usize> = const { Cell::new(0) };
        /// jobs handed to the global pool that have not begun to run yet
        pub(crate) static GLOBAL_PENDING: Cell<usize> = const { Cell::new(0) };
    }

    /// Switch this OS thread between controlled (inside a shuttle execution)
    /// and inline sequential behaviour.
    pub fn set_controlled(on: bool) {
        CONTROLLED.with(|c| c.set(on));
    }

    pub fn controlled() -> bool {
        CONTROLLED.with(|c| c.get())
    }

    /// Number of threads of a pool built without `num_threads` (the "default
    /// pool"); `None` = unbounded.
    pub fn set_default_threads(n: Option<usize>) {
        DEFAULT_THREADS.with(|c| c.set(n));
    }

    /// Reset the per-execution bookkeeping (must be called at the start of
    /// every controlled execution so that executions are deterministic).
    pub fn reset_execution() {
        SPAWN_PANICS.with(|c| c.set(0));
        NEXT_POOL_ID.with(|c| c.set(1));
        TASKS_SPAWNED.with(|c| c.set(0));
        SKIP_CHOICES.with(|c| c.set(0));
        POOLS_BUILT.with(|c| c.set(0));
        GLOBAL_PENDING.with(|c| c.set(0));
    }

    /// Panics swallowed in detached `spawn` jobs (real rayon would abort).
    pub fn spawn_panics() -> usize {
        SPAWN_PANICS.with(|c| c.get())
    }

    pub fn tasks_spawned() -> usize {
        TASKS_SPAWNED.with(|c| c.get())
    }

    pub fn skip_choices() -> usize {
        SKIP_CHOICES.with(|c| c.get())
    }

    pub fn pools_built() -> usize {
        POOLS_BUILT.with(|c| c.get())
    }

    /// Id of the pool the current task belongs to (0 = the global pool), or
    /// `None` if the current task is not a pool task.
    pub fn current_pool() -> Option<usize> {
        if !controlled() {
            return None;
        }
        super::cur_ctx().map(|c| c.pool_id())
    }

    /// Id of a pool (unique per execution, in creation order, starting at 1).
    pub fn pool_id(p: &super::ThreadPool) -> usize {
        p.inner.id
    }

    /// Configured capacity of a pool.
    pub fn pool_threads(p: &super::ThreadPool) -> Option<usize> {
        p.inner.cap
    }
}

// ---------------------------------------------------------------------------
// pool state
// ---------------------------------------------------------------------------

struct Slots {
    /// (slots in use by tasks other than the owner, owner is waiting inside a pool operation)
    used: shuttle::sync::Mutex<(usize, bool)>,
    cv: shuttle::sync::Condvar,
    /// open offers of tasks that sit inside `yield_local` / `yield_now`: a job that has not begun takes an offer
    /// in preference to a free worker and then runs *on the yielding task's worker* (no slot of its own) while the
    /// yielding task stays suspended until that job has ended - rayon's nested execution.  Protected by `used`.
    offers: std::sync::Mutex<Vec<Arc<std::sync::atomic::AtomicU8>>>,
}

const OFFER_OPEN: u8 = 0;
const OFFER_TAKEN: u8 = 1;
const OFFER_DONE: u8 = 2;

shuttle::thread_local! {
    /// the offer this job runs under, if it runs nested inside another task's yield
    static NESTED: RefCell<Option<Arc<std::sync::atomic::AtomicU8>>> = RefCell::new(None);
}

struct PoolInner {
    id: usize,
    cap: Option<usize>,
    slots: Option<Slots>,
    /// `use_current_thread`: the task that built the pool is one of its `cap` threads, but it only runs pool
    /// work while it is inside `install` (in place) or waiting in a join there (when it would steal)
    owner: Option<usize>,
    /// jobs handed to this pool that have not begun to run yet (no thread has picked them up)
    pending: std::sync::atomic::AtomicUsize,
}

fn current_task_id() -> Option<usize> {
    if verif::controlled() {
        shuttle::current::get_current_task().map(usize::from)
    } else {
        None
    }
}

impl PoolInner {
    fn is_owner(&self) -> bool {
        self.owner.is_some() && self.owner == current_task_id()
    }

    fn acquire(&self) {
        if let (Some(cap), Some(s)) = (self.cap, self.slots.as_ref()) {
            let mut g = s.used.lock().unwrap();
            if self.is_owner() {
                // the owner resumes its own thread: it stops lending it
                g.1 = false;
                return;
            }
            loop {
                let limit = if self.owner.is_some() { cap - 1 + g.1 as usize } else { cap };
                if g.0 < limit {
                    break;
                }
                g = s.cv.wait(g).unwrap();
            }
            g.0 += 1;
        }
    }

    /// a queued job begins: it takes an open yield offer if there is one, a free worker otherwise; the job stops
    /// counting as pending in the same step
    fn acquire_job(&self) {
        if let (Some(cap), Some(s)) = (self.cap, self.slots.as_ref()) {
            let mut g = s.used.lock().unwrap();
            loop {
                if let Some(o) = s.offers.lock().unwrap().pop() {
                    o.store(OFFER_TAKEN, Ordering::SeqCst);
                    NESTED.with(|n| *n.borrow_mut() = Some(o));
                    break;
                }
                let limit = if self.owner.is_some() { cap - 1 + g.1 as usize } else { cap };
                if g.0 < limit {
                    g.0 += 1;
                    break;
                }
                g = s.cv.wait(g).unwrap();
            }
            let _ = self.pending.fetch_update(Ordering::SeqCst, Ordering::SeqCst, |v| Some(v.saturating_sub(1)));
        } else {
            let _ = self.pending.fetch_update(Ordering::SeqCst, Ordering::SeqCst, |v| Some(v.saturating_sub(1)));
        }
    }

    /// a job ends
    fn release_job(&self) {
        let nested = NESTED.with(|n| n.borrow_mut().take());
        match (nested, self.slots.as_ref()) {
            (Some(o), Some(s)) => {
                let g = s.used.lock().unwrap();
                o.store(OFFER_DONE, Ordering::SeqCst);
                drop(g);
                s.cv.notify_all();
            }
            _ => self.release(),
        }
    }

    /// `yield_local` / `yield_now` of a task that runs on this pool: true = a queued job ran nested
    fn yield_nested(&self) -> bool {
        let s = match self.slots.as_ref() {
            Some(s) => s,
            // no limit on workers: every queued job has a worker of its own, nothing is left to run nested
            None => return false,
        };
        let mut g = s.used.lock().unwrap();
        if self.pending.load(Ordering::SeqCst) == 0 {
            return false;
        }
        let o = Arc::new(std::sync::atomic::AtomicU8::new(OFFER_OPEN));
        s.offers.lock().unwrap().push(o.clone());
        s.cv.notify_all();
        while o.load(Ordering::SeqCst) != OFFER_DONE {
            g = s.cv.wait(g).unwrap();
        }
        drop(g);
        true
    }

    fn release(&self) {
        if let Some(s) = self.slots.as_ref() {
            let mut g = s.used.lock().unwrap();
            if self.is_owner() {
                // the owner blocks inside a pool operation: its thread would steal, i.e. one more task may run
                g.1 = true;
            } else {
                g.0 -= 1;
            }
            drop(g);
            s.cv.notify_all();
        }
    }
}

#[derive(Clone)]
enum Ctx {
    Global,
    Pool(Arc<PoolInner>, usize),
}

impl Ctx {
    fn pool_id(&self) -> usize {
        match self {
            Ctx::Global => 0,
            Ctx::Pool(p, _) => p.id,
        }
    }
    fn acquire(&self) {
        if let Ctx::Pool(p, _) = self {
            p.acquire()
        }
    }
    fn release(&self) {
        if let Ctx::Pool(p, _) = self {
            p.release()
        }
    }
    fn acquire_job(&self) {
        match self {
            Ctx::Pool(p, _) => p.acquire_job(),
            Ctx::Global => self.queued(-1),
        }
    }
    fn release_job(&self) {
        if let Ctx::Pool(p, _) = self {
            p.release_job()
        }
    }
    /// a job was queued for this pool / a queued job has been picked up by a thread
    fn queued(&self, d: isize) {
        match self {
            Ctx::Global => verif::GLOBAL_PENDING.with(|c| c.set((c.get() as isize + d).max(0) as usize)),
            Ctx::Pool(p, _) => {
                if d > 0 {
                    p.pending.fetch_add(1, Ordering::SeqCst);
                } else {
                    let _ = p.pending.fetch_update(Ordering::SeqCst, Ordering::SeqCst, |v| Some(v.saturating_sub(1)));
                }
            }
        }
    }
    fn pending(&self) -> usize {
        match self {
            Ctx::Global => verif::GLOBAL_PENDING.with(|c| c.get()),
            Ctx::Pool(p, _) => p.pending.load(Ordering::SeqCst),
        }
    }
    fn with_index(&self, i: usize) -> Ctx {
        match self {
            Ctx::Global => Ctx::Global,
            Ctx::Pool(p, _) => Ctx::Pool(p.clone(), i),
        }
    }
}

shuttle::thread_local! {
    static CTX: RefCell<Option<Ctx>> = RefCell::new(None);
}

fn cur_ctx() -> Option<Ctx> {
    CTX.with(|c| c.borrow().clone())
}

fn set_ctx(c: Option<Ctx>) {
    CTX.with(|x| *x.borrow_mut() = c);
}

fn env_choice() -> bool {
    use shuttle::rand::RngCore;
    verif::SKIP_CHOICES.with(|c| c.set(c.get() + 1));
    shuttle::rand::thread_rng().next_u64() & 1 == 1
}

pub(crate) fn env_choice_pub() -> bool {
    if verif::controlled() {
        env_choice()
    } else {
        true
    }
}

fn count_task() {
    verif::TASKS_SPAWNED.with(|c| c.set(c.get() + 1));
}

/// Spawn a task that may borrow from the caller's stack.  shuttle's own scoped
/// threads wake the scope owner when the last scoped thread ends *whatever it
/// is blocked on*, which breaks as soon as the owner blocks inside a nested
/// scope (nested `join`); so the stand-in uses plain tasks and joins every
/// handle itself before the borrowed data goes out of scope.
///
/// SAFETY (caller): the returned handle must be joined before anything the
/// closure borrows is dropped, and the code between spawn and join must not
/// unwind.
unsafe fn spawn_borrowing<'a>(f: Box<dyn FnOnce() + Send + 'a>) -> shuttle::thread::JoinHandle<()> {
    let f: Box<dyn FnOnce() + Send + 'static> = unsafe { std::mem::transmute(f) };
    shuttle::thread::spawn(f)
}

/// Run `items` as sibling pool tasks in context `ctx`; the caller (which may
/// itself hold a slot of `caller`) blocks until all ended.
fn run_siblings<I, F>(items: Vec<I>, f: &F)
where
    I: Send,
    F: Fn(I) + Sync + Send,
{
    if !verif::controlled() {
        for it in items {
            f(it);
        }
        return;
    }
    let caller = cur_ctx();
    let ctx = caller.clone().unwrap_or(Ctx::Global);
    let panicked = AtomicBool::new(false);
    if let Some(c) = &caller {
        c.release();
    }
    let n = items.len();
    let mut slots: Vec<Option<Payload>> = (0..n).map(|_| None).collect();
    {
        let mut handles = Vec::with_capacity(n);
        for ((i, it), slot) in items.into_iter().enumerate().zip(slots.iter_mut()) {
            let ctx = ctx.with_index(i);
            let panicked = &panicked;
            count_task();
            ctx.queued(1);
            let body = move || {
                set_ctx(Some(ctx.clone()));
                ctx.acquire_job();
                if !(panicked.load(Ordering::SeqCst) && env_choice()) {
                    if let Err(p) = catch_unwind(AssertUnwindSafe(|| f(it))) {
                        panicked.store(true, Ordering::SeqCst);
                        *slot = Some(p);
                    }
                }
                ctx.release_job();
                set_ctx(None);
            };
            // SAFETY: every handle is joined below; nothing in between unwinds.
            handles.push(unsafe { spawn_borrowing(Box::new(body)) });
        }
        for h in handles {
            h.join().expect("shim task must not end by panicking");
        }
    }
    let payloads = slots;
    if let Some(c) = &caller {
        c.acquire();
    }
    if let Some(p) = payloads.into_iter().flatten().next() {
        resume_unwind(p);
    }
}

fn join_in<A, B, RA, RB>(a: A, b: B) -> (RA, RB)
where
    A: FnOnce() -> RA + Send,
    B: FnOnce() -> RB + Send,
    RA: Send,
    RB: Send,
{
    if !verif::controlled() {
        let ra = a();
        let rb = b();
        return (ra, rb);
    }
    let caller = cur_ctx();
    let ctx = caller.clone().unwrap_or(Ctx::Global);
    let ra: Option<Result<RA, Payload>>;
    let mut rb: Option<Result<RB, Payload>> = None;
    {
        let ctxb = ctx.with_index(1);
        count_task();
        let rbs = &mut rb;
        ctxb.queued(1);
        let body = move || {
            set_ctx(Some(ctxb.clone()));
            ctxb.acquire_job();
            *rbs = Some(catch_unwind(AssertUnwindSafe(b)));
            ctxb.release_job();
            set_ctx(None);
        };
        // SAFETY: joined below; `a` runs under catch_unwind, nothing else unwinds.
        let hb = unsafe { spawn_borrowing(Box::new(body)) };
        ra = Some(catch_unwind(AssertUnwindSafe(a)));
        if let Some(c) = &caller {
            c.release();
        }
        hb.join().expect("shim task must not end by panicking");
        if let Some(c) = &caller {
            c.acquire();
        }
    }
    match (ra.unwrap(), rb.unwrap()) {
        (Ok(x), Ok(y)) => (x, y),
        (Err(p), _) => resume_unwind(p),
        (_, Err(p)) => resume_unwind(p),
    }
}

// ---------------------------------------------------------------------------
// public rayon surface
// ---------------------------------------------------------------------------

pub struct ThreadPool {
    inner: Arc<PoolInner>,
}

impl std::fmt::Debug for ThreadPool {
    fn fmt(&self, f: &mut std::fmt::Formatter<'_>) -> std::fmt::Result {
        write!(f, "ThreadPool(shim #{}, threads {:?})", self.inner.id, self.inner.cap)
    }
}

impl ThreadPool {
    fn same_pool(&self, c: &Option<Ctx>) -> bool {
        matches!(c, Some(Ctx::Pool(p, _)) if Arc::ptr_eq(p, &self.inner))
    }

    pub fn install<OP, R>(&self, op: OP) -> R
    where
        OP: FnOnce() -> R + Send,
        R: Send,
    {
        if !verif::controlled() {
            return op();
        }
        let caller = cur_ctx();
        if self.same_pool(&caller) {
            return op();
        }
        if self.inner.is_owner() {
            // the building thread is worker 0 of this pool: the closure runs in place
            set_ctx(Some(Ctx::Pool(self.inner.clone(), 0)));
            let r = catch_unwind(AssertUnwindSafe(op));
            set_ctx(caller);
            match r {
                Ok(v) => return v,
                Err(p) => std::panic::resume_unwind(p),
            }
        }
        let ctx = Ctx::Pool(self.inner.clone(), 0);
        if let Some(c) = &caller {
            c.release();
        }
        let mut res: Option<Result<R, Payload>> = None;
        {
            count_task();
            let ress = &mut res;
            let body = move || {
                set_ctx(Some(ctx.clone()));
                ctx.acquire();
                *ress = Some(catch_unwind(AssertUnwindSafe(op)));
                ctx.release();
                set_ctx(None);
            };
            // SAFETY: joined immediately.
            let h = unsafe { spawn_borrowing(Box::new(body)) };
            h.join().expect("shim task must not end by panicking");
        }
        if let Some(c) = &caller {
            c.acquire();
        }
        match res.unwrap() {
            Ok(r) => r,
            Err(p) => resume_unwind(p),
        }
    }

    pub fn join<A, B, RA, RB>(&self, oper_a: A, oper_b: B) -> (RA, RB)
    where
        A: FnOnce() -> RA + Send,
        B: FnOnce() -> RB + Send,
        RA: Send,
        RB: Send,
    {
        self.install(|| join_in(oper_a, oper_b))
    }

    pub fn spawn<OP>(&self, op: OP)
    where
        OP: FnOnce() + Send + 'static,
    {
        if !verif::controlled() {
            op();
            return;
        }
        let ctx = Ctx::Pool(self.inner.clone(), 0);
        count_task();
        ctx.queued(1);
        let h = shuttle::thread::spawn(move || {
            set_ctx(Some(ctx.clone()));
            ctx.acquire_job();
            if catch_unwind(AssertUnwindSafe(op)).is_err() {
                verif::SPAWN_PANICS.with(|c| c.set(c.get() + 1));
            }
            ctx.release_job();
            set_ctx(None);
        });
        drop(h);
    }

    pub fn spawn_fifo<OP>(&self, op: OP)
    where
        OP: FnOnce() + Send + 'static,
    {
        self.spawn(op)
    }

    pub fn scope<'scope, OP, R>(&self, op: OP) -> R
    where
        OP: FnOnce(&Scope<'scope>) -> R + Send,
        R: Send,
    {
        self.install(|| scope(op))
    }

    pub fn current_thread_index(&self) -> Option<usize> {
        if !verif::controlled() {
            return None;
        }
        match cur_ctx() {
            Some(Ctx::Pool(p, i)) if Arc::ptr_eq(&p, &self.inner) => Some(i),
            _ => None,
        }
    }

    pub fn current_num_threads(&self) -> usize {
        self.inner.cap.unwrap_or(16)
    }

    /// Real rayon: whether the calling worker of THIS pool has jobs in its local queue.  The stand-in keeps one
    /// queue per pool: `Some(true)` while any job handed to the pool has not been picked up yet (which, for the
    /// calling worker's own forks, is the situation real rayon reports) - `None` outside the pool.
    pub fn yield_local(&self) -> Option<Yield> {
        if verif::controlled() && self.same_pool(&cur_ctx()) {
            Some(if self.inner.yield_nested() { Yield::Executed } else { Yield::Idle })
        } else {
            None
        }
    }

    pub fn yield_now(&self) -> Option<Yield> {
        self.yield_local()
    }

    pub fn current_thread_has_pending_tasks(&self) -> Option<bool> {
        if !verif::controlled() {
            return None;
        }
        match cur_ctx() {
            Some(c @ Ctx::Pool(..)) if self.same_pool(&Some(c.clone())) => Some(c.pending() > 0),
            _ => None,
        }
    }
}

#[derive(Debug)]
pub struct ThreadPoolBuildError;

impl std::fmt::Display for ThreadPoolBuildError {
    fn fmt(&self, f: &mut std::fmt::Formatter<'_>) -> std::fmt::Result {
        write!(f, "shim thread pool build error")
    }
}

impl std::error::Error for ThreadPoolBuildError {}

#[derive(Default)]
pub struct ThreadPoolBuilder {
    threads: usize,
    current_thread: bool,
}

impl ThreadPoolBuilder {
    pub fn new() -> Self {
        Self::default()
    }

    pub fn num_threads(mut self, n: usize) -> Self {
        self.threads = n;
        self
    }

    pub fn thread_name<F>(self, _f: F) -> Self
    where
        F: FnMut(usize) -> String + 'static,
    {
        self
    }

    pub fn stack_size(self, _s: usize) -> Self {
        self
    }

    /// The building thread becomes one of the pool's threads (rayon >= 1.8).
    pub fn use_current_thread(mut self) -> Self {
        self.current_thread = true;
        self
    }

    pub fn build(self) -> Result<ThreadPool, ThreadPoolBuildError> {
        if self.current_thread && cur_ctx_opt().is_some() {
            // the thread already belongs to a pool
            return Err(ThreadPoolBuildError);
        }
        let cap = if self.threads == 0 {
            verif::DEFAULT_THREADS.with(|c| c.get())
        } else {
            Some(self.threads)
        };
        let id = verif::NEXT_POOL_ID.with(|c| {
            let v = c.get();
            c.set(v + 1);
            v
        });
        verif::POOLS_BUILT.with(|c| c.set(c.get() + 1));
        let slots = if verif::controlled() && cap.is_some() {
            Some(Slots {
                used: shuttle::sync::Mutex::new((0, false)),
                cv: shuttle::sync::Condvar::new(),
                offers: std::sync::Mutex::new(Vec::new()),
            })
        } else {
            None
        };
        Ok(ThreadPool {
            inner: Arc::new(PoolInner { id, cap, slots, owner: if self.current_thread { current_task_id() } else { None }, pending: std::sync::atomic::AtomicUsize::new(0) }),
        })
    }

    pub fn build_global(self) -> Result<(), ThreadPoolBuildError> {
        Ok(())
    }
}

pub fn join<A, B, RA, RB>(oper_a: A, oper_b: B) -> (RA, RB)
where
    A: FnOnce() -> RA + Send,
    B: FnOnce() -> RB + Send,
    RA: Send,
    RB: Send,
{
    join_in(oper_a, oper_b)
}

pub fn spawn<OP>(op: OP)
where
    OP: FnOnce() + Send + 'static,
{
    if !verif::controlled() {
        op();
        return;
    }
    count_task();
    let h = shuttle::thread::spawn(move || {
        set_ctx(Some(Ctx::Global));
        if catch_unwind(AssertUnwindSafe(op)).is_err() {
            verif::SPAWN_PANICS.with(|c| c.set(c.get() + 1));
        }
        set_ctx(None);
    });
    drop(h);
}

pub fn current_num_threads() -> usize {
    match cur_ctx_opt() {
        Some(Ctx::Pool(p, _)) => p.cap.unwrap_or(16),
        _ => verif::DEFAULT_THREADS.with(|c| c.get()).unwrap_or(16),
    }
}

pub fn current_thread_has_pending_tasks() -> Option<bool> {
    cur_ctx_opt().map(|c| c.pending() > 0)
}

/// Result of `yield_now` / `yield_local`.
#[derive(Clone, Copy, Debug, PartialEq, Eq)]
pub enum Yield {
    Executed,
    Idle,
}

/// `rayon::yield_local` / `rayon::yield_now`: the controlled runtime has no per-worker queues - a job that has not
/// begun is a task waiting for a free worker.  A yield therefore offers the caller's worker to ANY job of its pool
/// that has not begun (an over-approximation of "this worker's own queue" that only matters to a crate that
/// yields): if there is one, it runs nested - without a worker of its own, the yielding task suspended until it
/// has ended - and the answer is `Executed`; if every queued job has already been picked up the answer is `Idle`.
/// Which of the two happens is decided by the schedule, so both are explored.  On a pool without a thread limit
/// every job has a worker at once and the answer is always `Idle`.
pub fn yield_local() -> Option<Yield> {
    match cur_ctx_opt() {
        Some(Ctx::Pool(p, _)) => Some(if p.yield_nested() { Yield::Executed } else { Yield::Idle }),
        Some(Ctx::Global) => Some(Yield::Idle),
        None => None,
    }
}

pub fn yield_now() -> Option<Yield> {
    yield_local()
}

pub fn current_thread_index() -> Option<usize> {
    match cur_ctx_opt() {
        Some(Ctx::Pool(_, i)) => Some(i),
        Some(Ctx::Global) => Some(0),
        None => None,
    }
}

fn cur_ctx_opt() -> Option<Ctx> {
    if verif::controlled() {
        cur_ctx()
    } else {
        None
    }
}

/// `rayon::scope`: jobs spawned on the scope are collected and then run as
/// sibling tasks when the scope body has returned (an order real rayon can
/// produce: nothing is stolen before the body ends), all of them end before
/// `scope` returns.
pub struct Scope<'scope> {
    #[allow(clippy::type_complexity)]
    jobs: std::sync::Mutex<Vec<Box<dyn FnOnce(&Scope<'scope>) + Send + 'scope>>>,
}

impl<'scope> Scope<'scope> {
    pub fn spawn<BODY>(&self, body: BODY)
    where
        BODY: FnOnce(&Scope<'scope>) + Send + 'scope,
    {
        self.jobs.lock().unwrap().push(Box::new(body));
    }
}

pub fn scope<'scope, OP, R>(op: OP) -> R
where
    OP: FnOnce(&Scope<'scope>) -> R + Send,
    R: Send,
{
    let sc = Scope {
        jobs: std::sync::Mutex::new(Vec::new()),
    };
    let r = op(&sc);
    loop {
        let jobs: Vec<_> = std::mem::take(&mut *sc.jobs.lock().unwrap());
        if jobs.is_empty() {
            break;
        }
        let scr = &sc;
        run_siblings(jobs, &move |j: Box<dyn FnOnce(&Scope<'scope>) + Send + 'scope>| j(scr));
    }
    r
}

pub mod iter {
    use super::run_siblings;

    /// The only parallel iterator of the stand-in: an eager list of items plus
    /// the splitting hints real rayon honours.
    pub struct ParIter<I> {
        pub(crate) items: Vec<I>,
        pub(crate) min_len: usize,
    }

    /// Sequential leaves real rayon would form for `len` items with a minimum
    /// leaf length: recursive halving while both halves stay >= min_len.
    fn leaves(len: usize, min_len: usize, out: &mut Vec<usize>) {
        let min_len = min_len.max(1);
        if len / 2 >= min_len && len >= 2 {
            let mid = len / 2;
            leaves(mid, min_len, out);
            leaves(len - mid, min_len, out);
        } else if len > 0 {
            out.push(len);
        }
    }

    impl<I: Send> ParIter<I> {
        pub(crate) fn new(items: Vec<I>) -> Self {
            ParIter { items, min_len: 1 }
        }

        pub fn for_each<F>(self, op: F)
        where
            F: Fn(I) + Sync + Send,
        {
            if self.min_len <= 1 {
                run_siblings(self.items, &op);
            } else {
                // one task per sequential leaf; a leaf runs its items in order
                let mut sizes = Vec::new();
                leaves(self.items.len(), self.min_len, &mut sizes);
                let mut it = self.items.into_iter();
                let chunks: Vec<Vec<I>> = sizes.into_iter().map(|n| it.by_ref().take(n).collect()).collect();
                run_siblings(chunks, &|chunk: Vec<I>| {
                    for x in chunk {
                        op(x);
                    }
                });
            }
        }

        /// `try_for_each`: an item that fails makes the items that have not started yet
        /// either run or be skipped (environment choice: real rayon checks its "full" flag
        /// before each item); one of the failures is returned.
        pub fn try_for_each<F, R>(self, op: F) -> R
        where
            F: Fn(I) -> R + Sync + Send,
            R: ShimTry + Send,
        {
            let failed = std::sync::atomic::AtomicBool::new(false);
            let first: std::sync::Mutex<Option<(usize, R)>> = std::sync::Mutex::new(None);
            let (f, fr) = (&failed, &first);
            self.enumerate().for_each(move |(i, x)| {
                if f.load(std::sync::atomic::Ordering::SeqCst) && super::env_choice_pub() {
                    return;
                }
                let r = op(x);
                if !r.is_continue() {
                    f.store(true, std::sync::atomic::Ordering::SeqCst);
                    let mut g = fr.lock().unwrap();
                    if g.as_ref().map_or(true, |(j, _)| i < *j) {
                        *g = Some((i, r));
                    }
                }
            });
            match first.into_inner().unwrap() {
                Some((_, r)) => r,
                None => R::continue_value(),
            }
        }

        pub fn for_each_with<T, F>(self, init: T, op: F)
        where
            T: Send + Clone + Sync,
            F: Fn(&mut T, I) + Sync + Send,
        {
            self.for_each(move |x| {
                let mut t = init.clone();
                op(&mut t, x)
            })
        }

        pub fn enumerate(self) -> ParIter<(usize, I)> {
            ParIter { items: self.items.into_iter().enumerate().collect(), min_len: self.min_len }
        }

        pub fn with_min_len(mut self, min: usize) -> Self {
            self.min_len = self.min_len.max(min);
            self
        }

        pub fn with_max_len(self, _max: usize) -> Self {
            self
        }

        pub fn map<U, F>(self, f: F) -> Map<I, F>
        where
            F: Fn(I) -> U + Sync + Send,
        {
            Map { base: self, f }
        }

        pub fn len(&self) -> usize {
            self.items.len()
        }

        pub fn is_empty(&self) -> bool {
            self.items.is_empty()
        }
    }

    /// What `try_for_each` accepts as a result (rayon's private `Try`).
    pub trait ShimTry {
        fn is_continue(&self) -> bool;
        fn continue_value() -> Self;
    }
    impl<E> ShimTry for Result<(), E> {
        fn is_continue(&self) -> bool {
            self.is_ok()
        }
        fn continue_value() -> Self {
            Ok(())
        }
    }
    impl ShimTry for Option<()> {
        fn is_continue(&self) -> bool {
            self.is_some()
        }
        fn continue_value() -> Self {
            Some(())
        }
    }

    /// `par_iter().map(f)`: `f` runs inside the item's task.
    pub struct Map<I, F> {
        base: ParIter<I>,
        f: F,
    }

    impl<I: Send, U, F: Fn(I) -> U + Sync + Send> Map<I, F> {
        pub fn for_each<G>(self, g: G)
        where
            G: Fn(U) + Sync + Send,
        {
            let f = self.f;
            self.base.for_each(move |x| g(f(x)))
        }

        pub fn collect<C: FromIterator<U>>(self) -> C
        where
            U: Send,
        {
            let n = self.base.items.len();
            let slots: Vec<std::sync::Mutex<Option<U>>> = (0..n).map(|_| std::sync::Mutex::new(None)).collect();
            let f = self.f;
            let sl = &slots;
            self.base.enumerate().for_each(move |(i, x)| {
                *sl[i].lock().unwrap() = Some(f(x));
            });
            slots.into_iter().map(|m| m.into_inner().unwrap().expect("shim: item did not run")).collect()
        }
    }

    /// Marker trait so that `use rayon::prelude::*` keeps importing a name
    /// called `ParallelIterator`.
    pub trait ParallelIterator {}
    impl<I> ParallelIterator for ParIter<I> {}
    pub trait IndexedParallelIterator {}
    impl<I> IndexedParallelIterator for ParIter<I> {}

    pub trait IntoParallelRefMutIterator<'data> {
        type Item: Send + 'data;
        fn par_iter_mut(&'data mut self) -> ParIter<Self::Item>;
    }

    impl<'data, T: Send + 'data> IntoParallelRefMutIterator<'data> for [T] {
        type Item = &'data mut T;
        fn par_iter_mut(&'data mut self) -> ParIter<&'data mut T> {
            ParIter::new(self.iter_mut().collect())
        }
    }

    impl<'data, T: Send + 'data> IntoParallelRefMutIterator<'data> for Vec<T> {
        type Item = &'data mut T;
        fn par_iter_mut(&'data mut self) -> ParIter<&'data mut T> {
            ParIter::new(self.iter_mut().collect())
        }
    }

    pub trait IntoParallelRefIterator<'data> {
        type Item: Send + 'data;
        fn par_iter(&'data self) -> ParIter<Self::Item>;
    }

    impl<'data, T: Sync + 'data> IntoParallelRefIterator<'data> for [T] {
        type Item = &'data T;
        fn par_iter(&'data self) -> ParIter<&'data T> {
            ParIter::new(self.iter().collect())
        }
    }

    impl<'data, T: Sync + 'data> IntoParallelRefIterator<'data> for Vec<T> {
        type Item = &'data T;
        fn par_iter(&'data self) -> ParIter<&'data T> {
            ParIter::new(self.iter().collect())
        }
    }

    pub trait IntoParallelIterator {
        type Item: Send;
        fn into_par_iter(self) -> ParIter<Self::Item>;
    }

    impl<T: Send> IntoParallelIterator for Vec<T> {
        type Item = T;
        fn into_par_iter(self) -> ParIter<T> {
            ParIter::new(self)
        }
    }

    impl IntoParallelIterator for std::ops::Range<usize> {
        type Item = usize;
        fn into_par_iter(self) -> ParIter<usize> {
            ParIter::new(self.collect())
        }
    }

    impl<'data, T: Send + 'data> IntoParallelIterator for &'data mut [T] {
        type Item = &'data mut T;
        fn into_par_iter(self) -> ParIter<&'data mut T> {
            ParIter::new(self.iter_mut().collect())
        }
    }

    impl<'data, T: Send + 'data> IntoParallelIterator for &'data mut Vec<T> {
        type Item = &'data mut T;
        fn into_par_iter(self) -> ParIter<&'data mut T> {
            ParIter::new(self.iter_mut().collect())
        }
    }
}

pub mod slice {
    use crate::iter::ParIter;

    pub trait ParallelSliceMut<T: Send> {
        fn as_parallel_slice_mut(&mut self) -> &mut [T];

        fn par_chunks_mut(&mut self, chunk_size: usize) -> ParIter<&mut [T]> {
            assert!(chunk_size != 0, "chunk_size must not be zero");
            ParIter::new(self.as_parallel_slice_mut().chunks_mut(chunk_size).collect())
        }

        fn par_chunks_exact_mut(&mut self, chunk_size: usize) -> ParIter<&mut [T]> {
            assert!(chunk_size != 0, "chunk_size must not be zero");
            ParIter::new(self.as_parallel_slice_mut().chunks_exact_mut(chunk_size).collect())
        }

        fn par_rchunks_mut(&mut self, chunk_size: usize) -> ParIter<&mut [T]> {
            assert!(chunk_size != 0, "chunk_size must not be zero");
            ParIter::new(self.as_parallel_slice_mut().rchunks_mut(chunk_size).collect())
        }
    }

    impl<T: Send> ParallelSliceMut<T> for [T] {
        fn as_parallel_slice_mut(&mut self) -> &mut [T] {
            self
        }
    }

    pub trait ParallelSlice<T: Sync> {
        fn as_parallel_slice(&self) -> &[T];

        fn par_chunks(&self, chunk_size: usize) -> ParIter<&[T]> {
            assert!(chunk_size != 0, "chunk_size must not be zero");
            ParIter::new(self.as_parallel_slice().chunks(chunk_size).collect())
        }

        fn par_chunks_exact(&self, chunk_size: usize) -> ParIter<&[T]> {
            assert!(chunk_size != 0, "chunk_size must not be zero");
            ParIter::new(self.as_parallel_slice().chunks_exact(chunk_size).collect())
        }
    }

    impl<T: Sync> ParallelSlice<T> for [T] {
        fn as_parallel_slice(&self) -> &[T] {
            self
        }
    }
}

pub mod prelude {
    pub use crate::iter::{
        IndexedParallelIterator, IntoParallelIterator, IntoParallelRefIterator,
        IntoParallelRefMutIterator, ParallelIterator,
    };
    pub use crate::slice::{ParallelSlice, ParallelSliceMut};
}

