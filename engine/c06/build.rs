//! Generator for the C06 program space: every composition of system-data
//! types inside the bounds of DESIGN.md §7 (C06), written out as Rust types.

use std::fmt::Write as _;

#[derive(Clone, Copy, PartialEq, Eq, Debug)]
enum K {
    Read,
    Write,
    ReadExpect,
    WriteExpect,
    OptRead,
    OptWrite,
    Unit,
    Phantom,
    /// Read / Write with a user-supplied setup handler that counts its calls
    ReadCustom,
    WriteCustom,
}

const ALL: [K; 10] = [K::Read, K::Write, K::ReadExpect, K::WriteExpect, K::OptRead, K::OptWrite, K::Unit, K::Phantom, K::ReadCustom, K::WriteCustom];

#[derive(Clone, Debug)]
enum T {
    Leaf(K, usize),
    Tup(Vec<T>),
}

#[derive(Default, Clone, Debug)]
struct Exp {
    reads: Vec<usize>,
    writes: Vec<usize>,
    opt: Vec<usize>,
    dflt: Vec<usize>,
    need: Vec<usize>,
    custom: Vec<usize>,
    /// two members name the same resource in conflicting ways: fetch must panic when it is present
    self_conflict: bool,
}

fn ty(t: &T, out: &mut String, e: &mut Exp) {
    match t {
        T::Leaf(k, n) => {
            match k {
                K::Read => {
                    write!(out, "Read<'a, R<{}>>", n).unwrap();
                    e.reads.push(*n);
                    e.dflt.push(*n);
                    e.need.push(*n);
                }
                K::Write => {
                    write!(out, "Write<'a, R<{}>>", n).unwrap();
                    e.writes.push(*n);
                    e.dflt.push(*n);
                    e.need.push(*n);
                }
                K::ReadExpect => {
                    write!(out, "ReadExpect<'a, R<{}>>", n).unwrap();
                    e.reads.push(*n);
                    e.need.push(*n);
                }
                K::WriteExpect => {
                    write!(out, "WriteExpect<'a, R<{}>>", n).unwrap();
                    e.writes.push(*n);
                    e.need.push(*n);
                }
                K::OptRead => {
                    write!(out, "Option<Read<'a, R<{}>>>", n).unwrap();
                    e.reads.push(*n);
                    e.opt.push(*n);
                }
                K::OptWrite => {
                    write!(out, "Option<Write<'a, R<{}>>>", n).unwrap();
                    e.writes.push(*n);
                    e.opt.push(*n);
                }
                K::ReadCustom => {
                    write!(out, "Read<'a, R<{}>, Counting<{}>>", n, n).unwrap();
                    e.reads.push(*n);
                    e.dflt.push(*n);
                    e.need.push(*n);
                    e.custom.push(*n);
                }
                K::WriteCustom => {
                    write!(out, "Write<'a, R<{}>, Counting<{}>>", n, n).unwrap();
                    e.writes.push(*n);
                    e.dflt.push(*n);
                    e.need.push(*n);
                    e.custom.push(*n);
                }
                K::Unit => out.push_str("()"),
                K::Phantom => write!(out, "PhantomData<R<{}>>", n).unwrap(),
            }
        }
        T::Tup(v) => {
            out.push('(');
            for x in v {
                ty(x, out, e);
                out.push_str(", ");
            }
            out.push(')');
        }
    }
}

fn arr(v: &[usize]) -> String {
    format!("&[{}]", v.iter().map(|x| x.to_string()).collect::<Vec<_>>().join(", "))
}

struct Gen {
    code: String,
    table: String,
    n: usize,
}

impl Gen {
    fn case(&mut self, group: &str, type_expr: &str, e: &Exp, nres: usize, prelude: &str) {
        let id = self.n;
        self.n += 1;
        writeln!(self.code, "{}pub struct F{};\nimpl Fam for F{} {{ type D<'a> = {}; }}", prelude, id, id, type_expr).unwrap();
        writeln!(
            self.table,
            "    Case {{ group: {:?}, name: {:?}, reads: {}, writes: {}, opt: {}, dflt: {}, need: {}, custom: {}, self_conflict: {}, nres: {}, run: run::<F{}> }},",
            group,
            type_expr,
            arr(&e.reads),
            arr(&e.writes),
            arr(&e.opt),
            arr(&e.dflt),
            arr(&e.need),
            arr(&e.custom),
            e.self_conflict,
            nres,
            id
        )
        .unwrap();
    }

    fn tuple_case(&mut self, group: &str, t: &T, nres: usize) {
        let mut s = String::new();
        let mut e = Exp::default();
        ty(t, &mut s, &mut e);
        self.case(group, &s, &e, nres, "");
    }
}

fn nestings(leaves: usize, depth: usize) -> Vec<T> {
    // all tuple nestings with exactly `leaves` leaf slots and depth <= depth (leaf kinds filled later)
    fn comps(n: usize) -> Vec<Vec<usize>> {
        fn rec(n: usize, cur: &mut Vec<usize>, out: &mut Vec<Vec<usize>>) {
            if n == 0 {
                out.push(cur.clone());
                return;
            }
            for k in 1..=n {
                cur.push(k);
                rec(n - k, cur, out);
                cur.pop();
            }
        }
        let mut o = Vec::new();
        rec(n, &mut Vec::new(), &mut o);
        o
    }
    let mut out = Vec::new();
    if leaves == 1 {
        out.push(T::Leaf(K::Unit, 0));
    }
    if depth == 0 {
        return out;
    }
    for c in comps(leaves) {
        let opts: Vec<Vec<T>> = c.iter().map(|k| nestings(*k, depth - 1)).collect();
        let mut combos: Vec<Vec<T>> = vec![vec![]];
        for o in &opts {
            let mut nx = Vec::new();
            for cb in &combos {
                for x in o {
                    let mut d = cb.clone();
                    d.push(x.clone());
                    nx.push(d);
                }
            }
            combos = nx;
        }
        for cb in combos {
            out.push(T::Tup(cb));
        }
    }
    out
}

fn fill(t: &T, kinds: &[K], next: &mut usize) -> T {
    match t {
        T::Leaf(..) => {
            let i = *next;
            *next += 1;
            T::Leaf(kinds[i], i)
        }
        T::Tup(v) => T::Tup(v.iter().map(|x| fill(x, kinds, next)).collect()),
    }
}

fn main() {
    let dir = std::env::var("OUT_DIR").unwrap();
    std::fs::write(std::path::Path::new(&dir).join("cases_full.rs"), generate(true)).unwrap();
    std::fs::write(std::path::Path::new(&dir).join("cases_quick.rs"), generate(false)).unwrap();
    println!("cargo:rerun-if-changed=build.rs");
}

fn generate(full: bool) -> String {
    let quick_kinds = [K::Write, K::OptRead, K::Unit, K::ReadCustom];
    let mut g = Gen { code: String::new(), table: String::new(), n: 0 };
    // (i) every arity 1..26 x every position x every kind; fillers alternate Read / Write on distinct resources
    for arity in 1..=26usize {
        for pos in 0..arity {
            for k in ALL {
                if !full && !quick_kinds.contains(&k) {
                    continue;
                }
                let members: Vec<T> = (0..arity)
                    .map(|i| if i == pos { T::Leaf(k, i) } else { T::Leaf(if i % 2 == 0 { K::Read } else { K::Write }, i) })
                    .collect();
                g.tuple_case("tuple-arity-position-kind", &T::Tup(members), arity);
            }
        }
    }
    // (ii) all kind combinations for arity <= 3
    for arity in 1..=(if full { 3usize } else { 2 }) {
        let mut idx = vec![0usize; arity];
        loop {
            let members: Vec<T> = (0..arity).map(|i| T::Leaf(ALL[idx[i]], i)).collect();
            g.tuple_case("tuple-all-kinds-arity<=3", &T::Tup(members), arity);
            let mut p = 0;
            while p < arity {
                idx[p] += 1;
                if idx[p] < ALL.len() {
                    break;
                }
                idx[p] = 0;
                p += 1;
            }
            if p == arity {
                break;
            }
        }
    }
    // (iii) nestings of depth <= 3 with <= 4 leaves, leaf kinds from a 4-element menu
    let menu: Vec<K> = if full { vec![K::Read, K::Write, K::OptRead, K::Unit] } else { vec![K::Write, K::OptRead] };
    for leaves in 1..=(if full { 4usize } else { 3 }) {
        for shape in nestings(leaves, 3) {
            if let T::Leaf(..) = shape {
                continue;
            }
            let mut idx = vec![0usize; leaves];
            loop {
                let kinds: Vec<K> = idx.iter().map(|i| menu[*i]).collect();
                let mut nx = 0;
                let t = fill(&shape, &kinds, &mut nx);
                // keep the space moderate: for 4 leaves only rotate the menu instead of the full product
                let keep = leaves < 4 || idx.iter().enumerate().all(|(i, v)| *v == (idx[0] + i) % menu.len());
                if keep {
                    g.tuple_case("nesting-depth<=3", &t, leaves);
                }
                let mut p = 0;
                while p < leaves {
                    idx[p] += 1;
                    if idx[p] < menu.len() {
                        break;
                    }
                    idx[p] = 0;
                    p += 1;
                }
                if p == leaves {
                    break;
                }
            }
        }
    }
    // (iv) derived structs: named and tuple form, 1..4 fields, every kind at every field,
    //      plus variants with an extra lifetime, a type parameter and a where-clause
    let mut sid = 0;
    for fields in 1..=(if full { 4usize } else { 3 }) {
        for pos in 0..fields {
            for k in ALL {
                if !full && !(quick_kinds.contains(&k) || k == K::ReadExpect) {
                    continue;
                }
                for form in 0..2 {
                    let mut e = Exp::default();
                    let mut body = String::new();
                    for i in 0..fields {
                        let leaf = if i == pos { T::Leaf(k, i) } else { T::Leaf(if i % 2 == 0 { K::Write } else { K::Read }, i) };
                        let mut s = String::new();
                        ty(&leaf, &mut s, &mut e);
                        if form == 0 {
                            write!(body, "    pub f{}: {},\n", i, s).unwrap();
                        } else {
                            write!(body, "{}, ", s).unwrap();
                        }
                    }
                    let name = format!("S{}", sid);
                    sid += 1;
                    let prelude = if form == 0 {
                        format!("#[derive(SystemData)]\n#[allow(dead_code)]\npub struct {}<'a> {{\n{}    pub lt: PhantomData<&'a ()>,\n}}\n", name, body)
                    } else {
                        format!("#[derive(SystemData)]\n#[allow(dead_code)]\npub struct {}<'a>({}PhantomData<&'a ()>);\n", name, body)
                    };
                    g.case(if form == 0 { "derive-named" } else { "derive-tuple" }, &format!("{}<'a>", name), &e, fields, &prelude);
                }
            }
        }
    }
    // (iv-c) derived structs whose members all have call-recording setup handlers: every member's setup, once per
    //        member (also for two members of the same type), in member order
    {
        let shapes: Vec<Vec<(K, usize)>> = vec![
            vec![(K::WriteCustom, 1), (K::ReadCustom, 0)],
            vec![(K::ReadCustom, 0), (K::ReadCustom, 0)],
            vec![(K::WriteCustom, 2), (K::ReadCustom, 1), (K::ReadCustom, 0)],
            vec![(K::ReadCustom, 1), (K::WriteCustom, 0), (K::ReadCustom, 1)],
            vec![(K::ReadCustom, 2), (K::Read, 1), (K::WriteCustom, 0), (K::ReadCustom, 2)],
        ];
        for sh in &shapes {
            for form in 0..2 {
                let mut e = Exp::default();
                let mut body = String::new();
                for (i, (k, n)) in sh.iter().enumerate() {
                    let mut s = String::new();
                    ty(&T::Leaf(*k, *n), &mut s, &mut e);
                    if form == 0 {
                        write!(body, "    pub f{}: {},\n", i, s).unwrap();
                    } else {
                        write!(body, "{}, ", s).unwrap();
                    }
                }
                let name = format!("S{}", sid);
                sid += 1;
                let prelude = if form == 0 {
                    format!("#[derive(SystemData)]\n#[allow(dead_code)]\npub struct {}<'a> {{\n{}    pub lt: PhantomData<&'a ()>,\n}}\n", name, body)
                } else {
                    format!("#[derive(SystemData)]\n#[allow(dead_code)]\npub struct {}<'a>({}PhantomData<&'a ()>);\n", name, body)
                };
                g.case("derive-setup-order", &format!("{}<'a>", name), &e, 3, &prelude);
                // the same members as a plain tuple
                let t = T::Tup(sh.iter().map(|(k, n)| T::Leaf(*k, *n)).collect());
                let mut sx = String::new();
                let mut e2 = Exp::default();
                ty(&t, &mut sx, &mut e2);
                if form == 0 {
                    g.case("tuple-setup-order", &sx, &e2, 3, "");
                }
            }
        }
    }
    // generic variants
    for k in [K::Read, K::Write, K::OptRead, K::OptWrite, K::ReadExpect] {
        // type parameter + where clause + second lifetime (PhantomData of a borrowed type)
        let mut e = Exp::default();
        let mut s0 = String::new();
        ty(&T::Leaf(k, 0), &mut s0, &mut e);
        let s0g = s0.replace("R<0>", "T");
        let mut s1 = String::new();
        ty(&T::Leaf(K::Write, 1), &mut s1, &mut e);
        let name = format!("S{}", sid);
        sid += 1;
        let prelude = format!(
            "#[derive(SystemData)]\n#[allow(dead_code)]\npub struct {n}<'a, 'b, T> where T: shred::Resource + Default {{\n    pub a: {a},\n    pub b: {b},\n    pub c: PhantomData<&'b T>,\n    pub d: (),\n}}\n",
            n = name,
            a = s0g,
            b = s1
        );
        g.case("derive-generic", &format!("{}<'a, 'static, R<0>>", name), &e, 2, &prelude);
        // a second instantiation of the same generic struct: what it declares follows ITS type argument
        {
            let sub = |v: &Vec<usize>| -> Vec<usize> { v.iter().map(|x| if *x == 0 { 2 } else { *x }).collect() };
            let e3 = Exp { reads: sub(&e.reads), writes: sub(&e.writes), opt: sub(&e.opt), dflt: sub(&e.dflt), need: sub(&e.need), custom: sub(&e.custom), ..e.clone() };
            g.case("derive-generic-second-instantiation", &format!("{}<'a, 'static, R<2>>", name), &e3, 3, "");
        }
        // nested: derived struct inside a tuple inside a derived tuple struct
        let mut e2 = e.clone();
        let mut s2 = String::new();
        ty(&T::Leaf(K::OptWrite, 2), &mut s2, &mut e2);
        let name2 = format!("S{}", sid);
        sid += 1;
        let prelude2 = format!("#[derive(SystemData)]\n#[allow(dead_code)]\npub struct {n2}<'a>(({n}<'a, 'static, R<0>>, {c}), ());\n", n2 = name2, n = name, c = s2);
        g.case("derive-nested", &format!("{}<'a>", name2), &e2, 3, &prelude2);
    }
    // (v) self-conflicting compositions: two members name the same resource, at least one of them for
    //     writing; whatever the forms (plain, Expect, Option) and wherever they sit, the composite cannot hold
    //     what it declares, so fetching it must panic whenever the resource is present
    {
        let acc_kinds = [K::Read, K::Write, K::ReadExpect, K::WriteExpect, K::OptRead, K::OptWrite];
        let is_w = |k: K| matches!(k, K::Write | K::WriteExpect | K::OptWrite);
        for k1 in acc_kinds {
            for k2 in acc_kinds {
                if !(is_w(k1) || is_w(k2)) {
                    continue;
                }
                if !full && !(matches!(k1, K::Read | K::Write | K::OptWrite) && matches!(k2, K::Read | K::Write | K::OptRead | K::OptWrite)) {
                    continue;
                }
                for shape in 0..4 {
                    let a = T::Leaf(k1, 0);
                    let b = T::Leaf(k2, 0);
                    let t = match shape {
                        0 => T::Tup(vec![a, b]),
                        1 => T::Tup(vec![a, T::Leaf(K::Read, 1), b]),
                        2 => T::Tup(vec![T::Tup(vec![a, T::Leaf(K::Read, 1)]), T::Tup(vec![T::Leaf(K::Unit, 0), T::Tup(vec![b])])]),
                        // the repeated member is followed by another one inside the same nested member
                        _ => T::Tup(vec![a, T::Tup(vec![b, T::Leaf(K::Write, 1)])]),
                    };
                    let mut sx = String::new();
                    let mut e = Exp::default();
                    ty(&t, &mut sx, &mut e);
                    e.self_conflict = true;
                    g.case("self-conflicting", &sx, &e, 2, "");
                }
                // wide tuples (9, 10, 16, 17 and 26 members): the member that fails comes last (or in the middle), the
                // guards of the many members in front of it have to be released by the unwinding
                for (n, at) in [(9usize, 8usize), (10, 9), (16, 15), (17, 8), (26, 25), (26, 13)] {
                    let mut v: Vec<T> = Vec::new();
                    for i in 0..n {
                        v.push(if i == 0 {
                            T::Leaf(k1, 0)
                        } else if i == at {
                            T::Leaf(k2, 0)
                        } else if i == 1 {
                            T::Leaf(K::Write, 1)
                        } else if i == 2 {
                            T::Leaf(K::Read, 2)
                        } else if i == n - 1 {
                            T::Leaf(K::OptWrite, 3)
                        } else {
                            T::Leaf(K::Unit, 0)
                        });
                    }
                    let t = T::Tup(v);
                    let mut sx = String::new();
                    let mut e = Exp::default();
                    ty(&t, &mut sx, &mut e);
                    e.self_conflict = true;
                    g.case("self-conflicting-wide", &sx, &e, 3, "");
                }
                // the same through the derive macro's generated fetch: the member that fails comes last, the
                // guards of the members in front of it have to be released by the unwinding
                for form in 0..2 {
                    let mut e = Exp::default();
                    let mut body = String::new();
                    for (i, leaf) in [T::Leaf(k1, 0), T::Leaf(K::Read, 1), T::Leaf(k2, 0)].iter().enumerate() {
                        let mut sx = String::new();
                        ty(leaf, &mut sx, &mut e);
                        if form == 0 {
                            write!(body, "    pub f{}: {},\n", i, sx).unwrap();
                        } else {
                            write!(body, "{}, ", sx).unwrap();
                        }
                    }
                    e.self_conflict = true;
                    let name = format!("S{}", sid);
                    sid += 1;
                    let prelude = if form == 0 {
                        format!("#[derive(SystemData)]\n#[allow(dead_code)]\npub struct {}<'a> {{\n{}    pub lt: PhantomData<&'a ()>,\n}}\n", name, body)
                    } else {
                        format!("#[derive(SystemData)]\n#[allow(dead_code)]\npub struct {}<'a>({}PhantomData<&'a ()>);\n", name, body)
                    };
                    g.case("self-conflicting-derived", &format!("{}<'a>", name), &e, 2, &prelude);
                }
            }
        }
    }
    // (v-b) one resource named twice in compatible (shared) ways, the repeat sitting in front of further
    //       members of the same nested member: the declaration is the union, nothing after the repeat is lost
    {
        let rk = [K::Read, K::ReadExpect, K::OptRead];
        for k1 in rk {
            for k2 in rk {
                if !full && k1 != K::Read && k2 != K::Read {
                    continue;
                }
                for shape in 0..5 {
                    let a = T::Leaf(k1, 0);
                    let b = T::Leaf(k2, 0);
                    let t = match shape {
                        0 => T::Tup(vec![a, b]),
                        1 => T::Tup(vec![a, T::Tup(vec![b, T::Leaf(K::Read, 1)])]),
                        2 => T::Tup(vec![a, T::Tup(vec![b, T::Leaf(K::Write, 1)])]),
                        3 => T::Tup(vec![a, T::Tup(vec![T::Leaf(K::Read, 1), b, T::Leaf(K::OptWrite, 2)])]),
                        _ => T::Tup(vec![T::Tup(vec![T::Leaf(K::Write, 1), a]), T::Tup(vec![b, T::Leaf(K::Read, 2)]), T::Leaf(K::Write, 3)]),
                    };
                    let mut sx = String::new();
                    let mut e = Exp::default();
                    ty(&t, &mut sx, &mut e);
                    g.case("repeated-resource", &sx, &e, 4, "");
                }
            }
        }
    }
    // (iv-b) derived structs that are generic over one of their members: the member's type is a bare
    // type parameter (it never mentions the fetch lifetime textually), bound in the generics, in a
    // where-clause, or in a tuple struct
    let member_kinds: Vec<K> = if full { ALL.to_vec() } else { vec![K::Write, K::OptRead, K::Read] };
    for (form, decl) in [
        (0, "pub struct {N}<'a, D: shred::SystemData<'a>> {{\n    pub inner: D,\n    pub own: Read<'a, R<0>>,\n}}\n"),
        (1, "pub struct {N}<'a, D> where D: shred::SystemData<'a> {{\n    pub own: Write<'a, R<0>>,\n    pub inner: D,\n}}\n"),
        (2, "pub struct {N}<'a, D: shred::SystemData<'a>>(pub D, pub Read<'a, R<0>>);\n"),
        (3, "pub struct {N}<'a, D: shred::SystemData<'a>, E: shred::SystemData<'a>> {{\n    pub first: D,\n    pub own: Read<'a, R<0>>,\n    pub second: E,\n}}\n"),
    ] {
        for k in &member_kinds {
            let name = format!("S{}", sid);
            sid += 1;
            let mut e = Exp::default();
            // the struct's own member on resource 0
            let own_kind = if form == 1 { K::Write } else { K::Read };
            let mut own = String::new();
            ty(&T::Leaf(own_kind, 0), &mut own, &mut e);
            // the generic member: a tuple (kind on resource 1, Read on resource 2)
            let mut member = String::new();
            ty(&T::Tup(vec![T::Leaf(*k, 1), T::Leaf(K::Read, 2)]), &mut member, &mut e);
            let mut second = String::new();
            if form == 3 {
                ty(&T::Leaf(K::Write, 3), &mut second, &mut e);
            }
            let prelude = format!("#[derive(SystemData)]\n#[allow(dead_code)]\n{}", decl.replace("{N}", &name).replace("{{", "{").replace("}}", "}"));
            let inst = if form == 3 { format!("{}<'a, {}, {}>", name, member, second) } else { format!("{}<'a, {}>", name, member) };
            g.case("derive-generic-member", &inst, &e, 4, &prelude);
        }
    }
    // (iv-d) derived structs whose field TYPES are not plain paths: a tuple-typed field, a parenthesised type, a
    // type that reaches the derive through a `macro_rules!` `$t:ty` fragment (a none-delimited group), an array-free
    // reference-free zoo of what the type grammar allows for a SystemData member
    for k in &member_kinds {
        for form in 0..4 {
            let name = format!("S{}", sid);
            sid += 1;
            let mut e = Exp::default();
            let mut own = String::new();
            ty(&T::Leaf(K::Write, 0), &mut own, &mut e);
            let mut member = String::new();
            ty(&T::Leaf(*k, 1), &mut member, &mut e);
            let mut third = String::new();
            ty(&T::Leaf(K::Read, 2), &mut third, &mut e);
            let prelude = match form {
                // tuple-typed field (named struct)
                0 => format!("#[derive(SystemData)]\n#[allow(dead_code)]\npub struct {n}<'a> {{\n    pub own: {own},\n    pub pair: ({member}, {third}),\n}}\n", n = name, own = own, member = member, third = third),
                // tuple-typed field (tuple struct), the tuple first
                1 => format!("#[derive(SystemData)]\n#[allow(dead_code)]\npub struct {n}<'a>(pub ({member}, {third}), pub {own});\n", n = name, own = own, member = member, third = third),
                // parenthesised types
                2 => format!("#[derive(SystemData)]\n#[allow(dead_code, unused_parens)]\npub struct {n}<'a> {{\n    pub own: ({own}),\n    pub m: ({member}),\n    pub t: {third},\n}}\n", n = name, own = own, member = member, third = third),
                // every field type passed through a `$t:ty` fragment
                _ => format!("macro_rules! mk_{n} {{\n    ($name:ident, $lt:lifetime, $t0:ty, $t1:ty, $t2:ty) => {{\n        #[derive(SystemData)]\n        #[allow(dead_code)]\n        pub struct $name<$lt> {{\n            pub own: $t0,\n            pub m: $t1,\n            pub t: $t2,\n            pub lt: PhantomData<&$lt ()>,\n        }}\n    }};\n}}\nmk_{n}!({n}, 'a, {own}, {member}, {third});\n", n = name, own = own, member = member, third = third),
            };
            g.case("derive-field-type-shapes", &format!("{}<'a>", name), &e, 3, &prelude);
        }
    }
    // (iv-e) members whose type NAME suggests an access kind it does not have: a derived bundle called
    // `WriteBundle…` that only reads, one called `ReadBundle…` that writes, type aliases called `ReadPair…` /
    // `WriteExpectBoth…` for tuples that do both - what a struct declares follows its members' declarations,
    // never their spelling
    for k in &member_kinds {
        for form in 0..3 {
            let inner = format!("S{}", sid);
            sid += 1;
            let outer = format!("S{}", sid);
            sid += 1;
            let mut e = Exp::default();
            let mut own = String::new();
            ty(&T::Leaf(K::Write, 0), &mut own, &mut e);
            let mut member = String::new();
            ty(&T::Leaf(*k, 1), &mut member, &mut e);
            let mut third = String::new();
            ty(&T::Leaf(K::Read, 2), &mut third, &mut e);
            let mut fourth = String::new();
            ty(&T::Leaf(K::Write, 3), &mut fourth, &mut e);
            let prelude = match form {
                // bundles: the one that reads is called Write…, the one that writes is called Read…
                0 => format!("#[derive(SystemData)]\n#[allow(dead_code)]\npub struct WriteBundle{i}<'a> {{\n    pub m: {member},\n    pub t: {third},\n}}\n#[derive(SystemData)]\n#[allow(dead_code)]\npub struct ReadBundle{i}<'a> {{\n    pub f: {fourth},\n}}\n#[derive(SystemData)]\n#[allow(dead_code)]\npub struct {o}<'a> {{\n    pub own: {own},\n    pub w: WriteBundle{i}<'a>,\n    pub r: ReadBundle{i}<'a>,\n}}\n", i = inner, o = outer, own = own, member = member, third = third, fourth = fourth),
                // aliases of tuples
                1 => format!("#[allow(dead_code)]\npub type ReadPair{i}<'a> = ({member}, {fourth});\n#[allow(dead_code)]\npub type WriteExpectBoth{i}<'a> = ({third}, {own});\n#[derive(SystemData)]\n#[allow(dead_code)]\npub struct {o}<'a>(pub ReadPair{i}<'a>, pub WriteExpectBoth{i}<'a>);\n", i = inner, o = outer, own = own, member = member, third = third, fourth = fourth),
                // aliases of the plain kinds under the opposite name, reached through a module path
                _ => format!("#[allow(dead_code)]\npub mod m{i} {{\n    use super::*;\n    pub type ReadOnly<'a> = {fourth};\n    pub type WriteOnly<'a> = {third};\n    pub type Reader<'a> = {own};\n}}\n#[derive(SystemData)]\n#[allow(dead_code)]\npub struct {o}<'a> {{\n    pub a: m{i}::ReadOnly<'a>,\n    pub b: m{i}::WriteOnly<'a>,\n    pub c: self::m{i}::Reader<'a>,\n    pub m: {member},\n}}\n", i = inner, o = outer, own = own, member = member, third = third, fourth = fourth),
            };
            g.case("derive-misleading-type-names", &format!("{}<'a>", outer), &e, 4, &prelude);
        }
    }
    // (iv-f) derived structs with MANY fields: around and beyond the largest tuple arity the library implements (26)
    for fields in [25usize, 26, 27, 28, 52, 53] {
        for form in 0..2 {
            for k in [K::Write, K::OptRead, K::Read] {
                if !full && (k == K::Read || (form == 1 && fields > 28)) {
                    continue;
                }
                let mut e = Exp::default();
                let mut body = String::new();
                for i in 0..fields {
                    let leaf = if i == fields - 1 { T::Leaf(k, i) } else { T::Leaf(if i % 2 == 0 { K::Write } else { K::Read }, i) };
                    let mut sx = String::new();
                    ty(&leaf, &mut sx, &mut e);
                    if form == 0 {
                        write!(body, "    pub f{}: {},\n", i, sx).unwrap();
                    } else {
                        write!(body, "{}, ", sx).unwrap();
                    }
                }
                let name = format!("S{}", sid);
                sid += 1;
                let prelude = if form == 0 {
                    format!("#[derive(SystemData)]\n#[allow(dead_code)]\npub struct {}<'a> {{\n{}}}\n", name, body)
                } else {
                    format!("#[derive(SystemData)]\n#[allow(dead_code)]\npub struct {}<'a>({});\n", name, body)
                };
                g.case("derive-many-fields", &format!("{}<'a>", name), &e, fields, &prelude);
            }
        }
    }
    // (iv-e) syntax the derive has to carry over: a default type parameter, a const generic, path-qualified field
    // types, raw identifiers, attributes and doc comments on fields, restricted visibility, lifetime bounds
    for k in &member_kinds {
        for form in 0..6 {
            let name = format!("S{}", sid);
            sid += 1;
            let mut e = Exp::default();
            let mut own = String::new();
            ty(&T::Leaf(K::Write, 0), &mut own, &mut e);
            let mut member = String::new();
            ty(&T::Leaf(*k, 1), &mut member, &mut e);
            let q = |s: &str| s.replace("Read<", "::shred::Read<").replace("Write<", "::shred::Write<").replace("ReadExpect<", "shred::ReadExpect<").replace("R<", "crate::R<");
            let (prelude, inst) = match form {
                0 => (format!("#[derive(SystemData)]\n#[allow(dead_code)]\npub struct {n}<'a, T = R<7>> where T: shred::Resource + Default {{\n    pub own: {own},\n    pub m: {member},\n    pub d: PhantomData<T>,\n}}\n", n = name, own = own, member = member), format!("{}<'a>", name)),
                1 => (format!("#[derive(SystemData)]\n#[allow(dead_code)]\npub struct {n}<'a, const N: usize> {{\n    pub own: {own},\n    pub m: {member},\n    pub d: PhantomData<[u8; N]>,\n}}\n", n = name, own = own, member = member), format!("{}<'a, 3>", name)),
                2 => (format!("#[derive(SystemData)]\n#[allow(dead_code)]\npub struct {n}<'a> {{\n    pub own: {own},\n    pub m: {member},\n}}\n", n = name, own = q(&own), member = q(&member)), format!("{}<'a>", name)),
                3 => (format!("#[derive(SystemData)]\n#[allow(dead_code)]\npub struct {n}<'a> {{\n    pub r#type: {own},\n    pub r#fn: {member},\n}}\n", n = name, own = own, member = member), format!("{}<'a>", name)),
                4 => (format!("#[derive(SystemData)]\n#[allow(dead_code)]\npub struct {n}<'a> {{\n    /// documented\n    #[allow(unused)]\n    pub(crate) own: {own},\n    #[cfg(all())]\n    #[doc = \"the member\"]\n    m: {member},\n}}\n", n = name, own = own, member = member), format!("{}<'a>", name)),
                _ => (format!("#[derive(SystemData)]\n#[allow(dead_code)]\npub struct {n}<'a, 'b: 'a> where 'a: 'a {{\n    pub own: {own},\n    pub m: {member},\n    pub p: PhantomData<&'b ()>,\n}}\n", n = name, own = own, member = member), format!("{}<'a, 'static>", name)),
            };
            g.case("derive-syntax-zoo", &inst, &e, 2, &prelude);
        }
    }
    format!("{}\npub static CASES: &[Case] = &[\n{}];\n", g.code, g.table)
}
