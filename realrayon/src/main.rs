//! E4 `realreplay`: replays event traces explored by E2 against the unmodified
//! crate (verification hooks off) on real rayon.  A turnstile forces the
//! recorded order of harness events; a trace that real rayon cannot realise
//! within the deadline, or that ends in other observations than the sequential
//! run, is a conformance failure (DESIGN.md 5.6).

#[path = "../../engine/mc/src/spec.rs"]
mod spec;
mod rsys;

use std::panic::{catch_unwind, AssertUnwindSafe};
use std::sync::atomic::{AtomicBool, AtomicU32, Ordering};
use std::sync::{Arc, Condvar, Mutex};
use std::time::{Duration, Instant};

use serde_json::{json, Value};
use shred::{Dispatcher, DispatcherBuilder, World};

use rsys::*;
use spec::*;

/// Forces the order of harness events.
pub struct Turn {
    trace: Vec<(String, u16)>,
    cursor: Mutex<usize>,
    cv: Condvar,
    free: AtomicBool,
    failed: AtomicBool,
    deadline: Duration,
    realised: Mutex<Vec<(String, u16)>>,
}

impl Hook for Turn {
    fn ev(&self, kind: &str, sys: usize) {
        if self.free.load(Ordering::Relaxed) {
            self.realised.lock().unwrap().push((kind.to_string(), sys as u16));
            return;
        }
        let start = Instant::now();
        let mut cur = self.cursor.lock().unwrap();
        loop {
            if self.failed.load(Ordering::Relaxed) {
                break;
            }
            match self.trace.get(*cur) {
                Some((k, s)) if k == kind && *s as usize == sys => {
                    *cur += 1;
                    break;
                }
                None => {
                    self.failed.store(true, Ordering::Relaxed);
                    break;
                }
                _ => {}
            }
            let left = self.deadline.checked_sub(start.elapsed());
            match left {
                None => {
                    if !self.failed.swap(true, Ordering::Relaxed) && std::env::var("RR_DEBUG").is_ok() {
                        eprintln!("timeout: {}({}) waited while the cursor stood at {} = {:?}", kind, sys, *cur, self.trace.get(*cur));
                    }
                    break;
                }
                Some(l) => {
                    if std::env::var("RR_DEBUG").is_ok() && start.elapsed() > Duration::from_millis(1000) && start.elapsed() < Duration::from_millis(1060) {
                        eprintln!("  waiting: {}({}) on {:?} / rayon worker {:?}, cursor {}", kind, sys, std::thread::current().id(), rayon::current_thread_index(), *cur);
                    }
                    let (g, _) = self.cv.wait_timeout(cur, l.min(Duration::from_millis(50))).unwrap();
                    cur = g;
                }
            }
        }
        self.realised.lock().unwrap().push((kind.to_string(), sys as u16));
        drop(cur);
        self.cv.notify_all();
    }
}

struct RunOut {
    values: Vec<u64>,
    obs: Vec<Vec<u64>>,
    runs: Vec<u32>,
    failed: bool,
    realised: Vec<(String, u16)>,
    panic: Option<String>,
}

fn payload_str(p: &(dyn std::any::Any + Send)) -> String {
    p.downcast_ref::<&str>().map(|s| s.to_string()).or_else(|| p.downcast_ref::<String>().cloned()).unwrap_or_else(|| "<payload>".into())
}

/// Run a scenario on real rayon.  `trace`: Some = forced order, None = sequential reference run.
fn run(sc: &Value, trace: Option<Vec<(String, u16)>>, pool: &Arc<rayon::ThreadPool>, deadline: Duration) -> Option<RunOut> {
    let ops = plan_from_json(sc.get("ops")?)?;
    let mode = sc.get("mode")?.as_str()?.to_string();
    let dispatches = sc.get("dispatches")?.as_u64()? as u32;
    let script: Option<String> = sc.get("script").and_then(|s| s.as_str()).map(|s| s.to_string());
    let info = PlanInfo::of(&ops);
    let free = trace.is_none();
    let turn = Arc::new(Turn { trace: trace.unwrap_or_default(), cursor: Mutex::new(0), cv: Condvar::new(), free: AtomicBool::new(free), failed: AtomicBool::new(false), deadline, realised: Mutex::new(vec![]) });
    fn no_identify(_: &mut Dispatcher<'_, '_>, _: &Arc<Ctx>, _: &World) -> String {
        String::new()
    }
    let ctx = Arc::new(Ctx {
        turn: turn.clone(),
        obs: Mutex::new(vec![vec![]; info.n()]),
        local: Mutex::new(vec![0; info.n()]),
        runs: Mutex::new(vec![0; info.n()]),
        dispatch_no: AtomicU32::new(0),
        ident: AtomicBool::new(false),
        ident_log: Mutex::new(vec![]),
        inner_layouts: Mutex::new(vec![]),
        identify: no_identify,
    });
    let mut b = DispatcherBuilder::new();
    b.add_pool(pool.clone());
    let mut next_id = 0;
    register_into(&mut b, &ops, &mut next_id, &ctx);
    let mut panic = None;
    let values;
    if mode == "async" && !free {
        let mut ad = b.build_async(new_world());
        let r = catch_unwind(AssertUnwindSafe(|| {
            if let Some(s) = &script {
                let mut sc: Vec<char> = s.chars().collect();
                sc.push('O');
                for (k, op) in sc.iter().enumerate() {
                    turn.ev("Script", k);
                    match op {
                        'D' => ad.dispatch(),
                        'R' => {
                            let _ = ad.running();
                        }
                        'W' => ad.wait(),
                        'X' => ad.wait_without_tl(),
                        'O' => {
                            let _ = ad.world();
                        }
                        'M' => {
                            let _ = ad.world_mut();
                        }
                        'S' => ad.setup(),
                        _ => {}
                    }
                    turn.ev("Script", k);
                }
            } else {
                for i in 1..=dispatches {
                    ctx.dispatch_no.store(i, Ordering::Relaxed);
                    ad.dispatch();
                    ad.wait();
                }
            }
        }));
        if let Err(p) = r {
            panic = Some(payload_str(&*p));
        }
        values = world_values(ad.world());
    } else {
        let mut d = b.build();
        let world = new_world();
        let issued = if let Some(s) = &script { s.chars().filter(|c| *c == 'D').count() as u32 } else { dispatches };
        for i in 1..=issued {
            ctx.dispatch_no.store(i, Ordering::Relaxed);
            let r = catch_unwind(AssertUnwindSafe(|| {
                if free {
                    d.dispatch_seq(&world);
                    if mode == "dispatch" || mode == "async" {
                        // an async script runs the thread-local systems once per wait(); the reference
                        // for scripts compares world values only when the script has one wait per dispatch
                        d.dispatch_thread_local(&world);
                    }
                } else {
                    match mode.as_str() {
                        "dispatch" => d.dispatch(&world),
                        "dispatch_par" => d.dispatch_par(&world),
                        _ => d.dispatch_seq(&world),
                    }
                }
            }));
            if let Err(p) = r {
                panic = Some(payload_str(&*p));
            }
        }
        values = world_values(&world);
    }
    let done = *turn.cursor.lock().unwrap() >= turn.trace.len();
    let o = RunOut {
        values,
        obs: ctx.obs.lock().unwrap().clone(),
        runs: ctx.runs.lock().unwrap().clone(),
        failed: turn.failed.load(Ordering::Relaxed) || (!free && !done),
        realised: turn.realised.lock().unwrap().clone(),
        panic,
    };
    Some(o)
}

// ---------------------------------------------------------------------------------------------------------
// C16: par/seq trees on real rayon
// ---------------------------------------------------------------------------------------------------------

pub struct BNode(pub Box<dyn for<'a> shred::RunWithPool<'a> + Send>);

impl<'a> shred::RunWithPool<'a> for BNode {
    fn setup(&mut self, world: &mut World) {
        self.0.setup(world)
    }
    fn run(&mut self, world: &'a World, pool: &rayon::ThreadPool) {
        self.0.run(world, pool)
    }
    fn reads(&self, reads: &mut Vec<shred::ResourceId>) {
        self.0.reads(reads)
    }
    fn writes(&self, writes: &mut Vec<shred::ResourceId>) {
        self.0.writes(writes)
    }
}

fn make_node(par: bool, mut c: Vec<BNode>) -> Option<BNode> {
    use shred::{Par, Seq};
    let n = c.len();
    let mut it = c.drain(..);
    let mut nx = || it.next().unwrap();
    Some(match (par, n) {
        (true, 1) => BNode(Box::new(Par::new(nx()))),
        (true, 2) => BNode(Box::new(Par::new(nx()).with(nx()))),
        (true, 3) => BNode(Box::new(Par::new(nx()).with(nx()).with(nx()))),
        (true, 4) => BNode(Box::new(Par::new(nx()).with(nx()).with(nx()).with(nx()))),
        (true, 5) => BNode(Box::new(Par::new(nx()).with(nx()).with(nx()).with(nx()).with(nx()))),
        (true, 6) => BNode(Box::new(Par::new(nx()).with(nx()).with(nx()).with(nx()).with(nx()).with(nx()))),
        (false, 1) => BNode(Box::new(Seq::new(nx()))),
        (false, 2) => BNode(Box::new(Seq::new(nx()).with(nx()))),
        (false, 3) => BNode(Box::new(Seq::new(nx()).with(nx()).with(nx()))),
        (false, 4) => BNode(Box::new(Seq::new(nx()).with(nx()).with(nx()).with(nx()))),
        (false, 5) => BNode(Box::new(Seq::new(nx()).with(nx()).with(nx()).with(nx()).with(nx()))),
        (false, 6) => BNode(Box::new(Seq::new(nx()).with(nx()).with(nx()).with(nx()).with(nx()).with(nx()))),
        _ => return None,
    })
}

fn build_tree(v: &Value, next: &mut usize, ctx: &Arc<Ctx>) -> Option<BNode> {
    if let Some(l) = v.get("leaf") {
        let f = |x: &Value| -> Vec<u8> { x.as_array().map(|a| a.iter().filter_map(|e| e.as_u64().map(|n| n as u8)).collect()).unwrap_or_default() };
        let id = *next;
        *next += 1;
        return Some(BNode(Box::new(RSys::new(id, &f(l.get(0)?), &f(l.get(1)?), 3, ctx))));
    }
    let (par, kids) = if let Some(c) = v.get("par") { (true, c) } else { (false, v.get("seq")?) };
    let mut ch = Vec::new();
    for k in kids.as_array()? {
        ch.push(build_tree(k, next, ctx)?);
    }
    make_node(par, ch)
}

fn count_leaves(v: &Value) -> usize {
    if v.get("leaf").is_some() {
        return 1;
    }
    v.get("par").or_else(|| v.get("seq")).and_then(|c| c.as_array()).map_or(0, |a| a.iter().map(count_leaves).sum())
}

/// (world values, observations, failed)
fn run_tree(it: &Value, trace: Option<Vec<(String, u16)>>, pool: &Arc<rayon::ThreadPool>) -> Option<(Vec<u64>, Vec<Vec<u64>>, bool)> {
    let tree = it.get("tree")?;
    let inside = it.get("inside")?.as_bool()?;
    let dispatches = it.get("dispatches")?.as_u64()?;
    let n = count_leaves(tree);
    let free = trace.is_none();
    let turn = Arc::new(Turn { trace: trace.unwrap_or_default(), cursor: Mutex::new(0), cv: Condvar::new(), free: AtomicBool::new(free), failed: AtomicBool::new(false), deadline: Duration::from_millis(700), realised: Mutex::new(vec![]) });
    fn no_identify(_: &mut Dispatcher<'_, '_>, _: &Arc<Ctx>, _: &World) -> String {
        String::new()
    }
    let ctx = Arc::new(Ctx { turn: turn.clone(), obs: Mutex::new(vec![vec![]; n]), local: Mutex::new(vec![0; n]), runs: Mutex::new(vec![0; n]), dispatch_no: AtomicU32::new(0), ident: AtomicBool::new(false), ident_log: Mutex::new(vec![]), inner_layouts: Mutex::new(vec![]), identify: no_identify });
    let mut next = 0;
    let root = build_tree(tree, &mut next, &ctx)?;
    let mut ps = shred::ParSeq::new(root, pool.clone());
    let mut world = new_world();
    ps.setup(&mut world);
    for _ in 0..dispatches {
        if inside {
            let (w, p) = (&world, &mut ps);
            pool.install(move || p.dispatch(w));
        } else {
            ps.dispatch(&world);
        }
    }
    let done = *turn.cursor.lock().unwrap() >= turn.trace.len();
    let failed = turn.failed.load(Ordering::Relaxed) || (!free && !done);
    let obs = ctx.obs.lock().unwrap().clone();
    Some((world_values(&world), obs, failed))
}

/// C11 witness on the real crate and real rayon: `w` resource-less systems share one stage; every one
/// waits (bounded) until all `w` are inside `run`.  With a pool of `w` idle threads this must succeed.
fn rendezvous_witness(frag: Option<String>) -> i32 {
    use shred::{BatchController, System};
    struct Meet {
        state: Arc<(Mutex<(usize, u64)>, Condvar)>,
        w: usize,
        failed: Arc<AtomicBool>,
        round: Arc<AtomicU32>,
    }
    impl<'a> System<'a> for Meet {
        type SystemData = ();
        fn run(&mut self, _: ()) {
            let (m, cv) = &*self.state;
            let round = self.round.load(Ordering::SeqCst) as u64;
            let mut g = m.lock().unwrap();
            if g.1 != round {
                *g = (0, round);
            }
            g.0 += 1;
            cv.notify_all();
            let deadline = Instant::now() + Duration::from_secs(10);
            while g.0 < self.w && g.1 == round {
                let left = deadline.saturating_duration_since(Instant::now());
                if left.is_zero() || self.failed.load(Ordering::SeqCst) {
                    self.failed.store(true, Ordering::SeqCst);
                    break;
                }
                g = cv.wait_timeout(g, left).unwrap().0;
            }
        }
    }
    struct Ctrl;
    impl<'a, 'b, 'c> BatchController<'a, 'b, 'c> for Ctrl {
        type BatchSystemData = ();
        fn run(&mut self, world: &'c World, dispatcher: &mut Dispatcher<'a, 'b>) {
            dispatcher.dispatch(world);
        }
    }
    let t0 = Instant::now();
    let mut results: Vec<Value> = Vec::new();
    let mut failures = 0;
    for w in [2usize, 3, 4, 6, 8] {
        for mode in ["dispatch", "async", "batch-inner"] {
            for attempt in 0..2 {
                let failed = Arc::new(AtomicBool::new(false));
                let round = Arc::new(AtomicU32::new(0));
                let state = Arc::new((Mutex::new((0usize, 0u64)), Condvar::new()));
                let pool = Arc::new(rayon::ThreadPoolBuilder::new().num_threads(w).build().unwrap());
                let mut b = DispatcherBuilder::new();
                b.add_pool(pool.clone());
                let mk = |i: usize| (Meet { state: state.clone(), w, failed: failed.clone(), round: round.clone() }, format!("m{}", i));
                if mode == "batch-inner" {
                    let mut inner = DispatcherBuilder::new();
                    for i in 0..w {
                        let (s, n) = mk(i);
                        inner.add(s, &n, &[]);
                    }
                    b.add_batch::<Ctrl>(Ctrl, inner, "batch", &[]);
                } else {
                    for i in 0..w {
                        let (s, n) = mk(i);
                        b.add(s, &n, &[]);
                    }
                }
                if mode == "async" {
                    let mut ad = b.build_async(World::empty());
                    for r in 1..=2 {
                        round.store(r, Ordering::SeqCst);
                        ad.dispatch();
                        ad.wait();
                    }
                } else {
                    let mut d = b.build();
                    let world = World::empty();
                    for r in 1..=2 {
                        round.store(r, Ordering::SeqCst);
                        d.dispatch(&world);
                    }
                }
                let bad = failed.load(Ordering::SeqCst);
                if !bad || attempt == 1 {
                    results.push(json!({"width": w, "pool_threads": w, "mode": mode, "all_inside_run_at_once": !bad}));
                    if bad {
                        failures += 1;
                    }
                    break;
                }
            }
        }
    }
    // groups of SEVERAL systems: group 0 is [a very short writer of a resource, a reader of it that takes part in the
    // rendezvous]; the other w-1 groups are single systems.  Between the two systems of group 0 its worker must not
    // start a sibling group on its own stack (the sibling would wait for the reader underneath it).  The pool is idle
    // (its workers asleep) when each dispatch begins, and has w .. w+2 threads.
    {
        #[derive(Default)]
        struct Rx(#[allow(dead_code)] u32);
        struct Pre;
        impl<'a> System<'a> for Pre {
            type SystemData = shred::Write<'a, Rx>;
            fn run(&mut self, _: Self::SystemData) {}
            fn running_time(&self) -> shred::RunningTime {
                shred::RunningTime::VeryShort
            }
        }
        struct MeetR(Meet);
        impl<'a> System<'a> for MeetR {
            type SystemData = shred::Read<'a, Rx>;
            fn run(&mut self, _: Self::SystemData) {
                self.0.run(())
            }
            fn running_time(&self) -> shred::RunningTime {
                shred::RunningTime::Short
            }
        }
        for w in [2usize, 3, 4] {
            for extra in [0usize, 2] {
                for mode in ["dispatch", "async"] {
                    if failures >= 3 {
                        // enough witnesses: every further failing configuration costs two bounded waits
                        continue;
                    }
                    for attempt in 0..2 {
                        let failed = Arc::new(AtomicBool::new(false));
                        let round = Arc::new(AtomicU32::new(0));
                        let state = Arc::new((Mutex::new((0usize, 0u64)), Condvar::new()));
                        let pool = Arc::new(rayon::ThreadPoolBuilder::new().num_threads(w + extra).build().unwrap());
                        let mut b = DispatcherBuilder::new();
                        b.add_pool(pool.clone());
                        let mk = || Meet { state: state.clone(), w, failed: failed.clone(), round: round.clone() };
                        b.add(Pre, "pre", &[]);
                        for i in 1..w {
                            b.add(mk(), &format!("m{}", i), &[]);
                        }
                        b.add(MeetR(mk()), "reader", &[]);
                        let plan = format!("{:?}", b);
                        let expected_layout = plan.matches("par![").count() == 1 && plan.matches("seq![").count() == w + 1;
                        if std::env::var("VERIF_DEBUG_PLAN").is_ok() {
                            eprintln!("{}", plan);
                        }
                        let mut world = World::empty();
                        world.insert(Rx(0));
                        if mode == "async" {
                            let mut ad = b.build_async(world);
                            for r in 1..=4 {
                                std::thread::sleep(Duration::from_millis(20));
                                round.store(r, Ordering::SeqCst);
                                ad.dispatch();
                                ad.wait();
                            }
                        } else {
                            let mut d = b.build();
                            for r in 1..=4 {
                                std::thread::sleep(Duration::from_millis(20));
                                round.store(r, Ordering::SeqCst);
                                d.dispatch(&world);
                            }
                        }
                        let bad = failed.load(Ordering::SeqCst) && expected_layout;
                        if !bad || attempt == 1 {
                            results.push(json!({"width": w, "pool_threads": w + extra, "mode": format!("{} / first group of two systems", mode), "layout_as_expected": expected_layout, "all_inside_run_at_once": !bad}));
                            if bad {
                                failures += 1;
                            }
                            break;
                        }
                    }
                }
            }
        }
    }
    let out = json!({"engine":"E4 real-rayon witness","what":"rendezvous of w side-by-side systems on the unmodified crate and a real rayon pool of w threads (bounded wait of 10 s, one retry), 2 dispatches; and of w groups whose first holds two systems (a very short writer, then a reader that takes part) on idle pools of w and w+2 threads, 4 dispatches","configurations": results.len(), "failures": failures, "results": results, "wall_s": t0.elapsed().as_secs_f64()});
    if let Some(p) = frag {
        std::fs::write(p, serde_json::to_string_pretty(&out).unwrap()).unwrap();
    }
    println!("E4 real-rayon rendezvous witness: configurations={} failures={} wall={:.1}s", results.len(), failures, t0.elapsed().as_secs_f64());
    if failures > 0 {
        3
    } else {
        0
    }
}

/// Thread identity is invisible to the controlled runtime (all of its tasks share one OS thread), so this small
/// exhaustive enumeration runs on real threads: every plan of a fixed set x every sequence of three dispatches,
/// each issued either from the main thread or from a freshly spawned one x {dispatch_seq, dispatch}; after every
/// dispatch every system - the thread-local ones inside batches included - has run exactly the expected number
/// of times.
fn threadhop_witness(frag: Option<String>) -> i32 {
    use shred::{BatchController, System};
    struct Count(Arc<AtomicU32>);
    impl<'a> System<'a> for Count {
        type SystemData = ();
        fn run(&mut self, _: ()) {
            self.0.fetch_add(1, Ordering::SeqCst);
        }
    }
    struct Ctrl(u32);
    impl<'a, 'b, 'c> BatchController<'a, 'b, 'c> for Ctrl {
        type BatchSystemData = ();
        fn run(&mut self, world: &'c World, dispatcher: &mut Dispatcher<'a, 'b>) {
            for _ in 0..self.0 {
                dispatcher.dispatch(world);
            }
        }
    }
    let t0 = Instant::now();
    let mut results: Vec<Value> = Vec::new();
    let mut failures = 0;
    // plan k: (description, builder of (dispatcher, counters with per-dispatch expectation))
    let plans: Vec<&str> = vec!["a", "batch[i; tl]", "a; batch x2 [tl; tl]", "batch[batch[i; tl]; tl]", "a; |; batch[tl]; b"];
    for (pk, pname) in plans.iter().enumerate() {
        for hops in 0..8u8 {
            for par in [false, true] {
                let mut counters: Vec<(Arc<AtomicU32>, u32, String)> = Vec::new();
                let mut mk = |per: u32, what: &str| -> Count {
                    let c = Arc::new(AtomicU32::new(0));
                    counters.push((c.clone(), per, what.to_string()));
                    Count(c)
                };
                let pool = Arc::new(rayon::ThreadPoolBuilder::new().num_threads(3).build().unwrap());
                let mut b = DispatcherBuilder::new();
                b.add_pool(pool);
                match pk {
                    0 => b.add(mk(1, "a"), "a", &[]),
                    1 => {
                        let mut inner = DispatcherBuilder::new();
                        inner.add(mk(1, "i"), "i", &[]);
                        inner.add_thread_local(mk(1, "tl in batch"));
                        b.add_batch::<Ctrl>(Ctrl(1), inner, "batch", &[]);
                    }
                    2 => {
                        b.add(mk(1, "a"), "a", &[]);
                        let mut inner = DispatcherBuilder::new();
                        inner.add_thread_local(mk(2, "tl0 in batch x2"));
                        inner.add_thread_local(mk(2, "tl1 in batch x2"));
                        b.add_batch::<Ctrl>(Ctrl(2), inner, "batch", &[]);
                    }
                    3 => {
                        let mut innermost = DispatcherBuilder::new();
                        innermost.add(mk(1, "i (depth 2)"), "i", &[]);
                        innermost.add_thread_local(mk(1, "tl (depth 2)"));
                        let mut mid = DispatcherBuilder::new();
                        mid.add_batch::<Ctrl>(Ctrl(1), innermost, "n", &[]);
                        mid.add_thread_local(mk(1, "tl (depth 1)"));
                        b.add_batch::<Ctrl>(Ctrl(1), mid, "batch", &[]);
                    }
                    _ => {
                        b.add(mk(1, "a"), "a", &[]);
                        b.add_barrier();
                        let mut inner = DispatcherBuilder::new();
                        inner.add_thread_local(mk(1, "tl in batch"));
                        b.add_batch::<Ctrl>(Ctrl(1), inner, "batch", &[]);
                        b.add(mk(1, "b"), "b", &["batch"]);
                    }
                }
                let mut sd = match b.build().try_into_sendable() {
                    Ok(sd) => sd,
                    Err(_) => {
                        failures += 1;
                        results.push(json!({"plan": pname, "error": "no top-level thread-local system, yet try_into_sendable failed"}));
                        continue;
                    }
                };
                let mut world = World::empty();
                sd.setup(&mut world);
                let mut bad: Vec<String> = Vec::new();
                for step in 0..3u32 {
                    let off_main = hops & (1 << step) != 0;
                    let r = {
                        let (sdr, wr) = (&mut sd, &world);
                        let mut go = move || {
                            catch_unwind(AssertUnwindSafe(|| if par { sdr.dispatch(wr) } else { sdr.dispatch_seq(wr) })).is_ok()
                        };
                        if off_main {
                            std::thread::scope(|s| s.spawn(go).join().unwrap_or(false))
                        } else {
                            go()
                        }
                    };
                    if !r {
                        bad.push(format!("dispatch {} panicked", step + 1));
                    }
                    for (c, per, what) in &counters {
                        let got = c.load(Ordering::SeqCst);
                        if got != per * (step + 1) {
                            bad.push(format!("after dispatch {} ({}) system '{}' has run {} times, expected {}", step + 1, if off_main { "from a fresh thread" } else { "from the main thread" }, what, got, per * (step + 1)));
                        }
                    }
                }
                if !bad.is_empty() {
                    failures += 1;
                }
                results.push(json!({"plan": pname, "dispatch": if par { "dispatch" } else { "dispatch_seq" }, "threads": (0..3).map(|k| if hops & (1 << k) != 0 { "fresh" } else { "main" }).collect::<Vec<_>>(), "problems": bad}));
            }
        }
    }
    let shown: Vec<Value> = results.iter().filter(|r| r.get("problems").and_then(|p| p.as_array()).map_or(true, |a| !a.is_empty())).take(5).cloned().collect();
    let out = json!({"engine":"E4 real-thread witness","what":"exactly-once counters (thread-local systems inside batches included) after each of three dispatches of a sendable dispatcher on the unmodified crate; every plan of a fixed set x every assignment of the three dispatches to {main thread, freshly spawned thread} x {dispatch_seq, dispatch}; thread identity is outside the controlled runtime's model","configurations": results.len(), "failures": failures, "failing_examples": shown, "wall_s": t0.elapsed().as_secs_f64()});
    if let Some(p) = frag {
        std::fs::write(p, serde_json::to_string_pretty(&out).unwrap()).unwrap();
    }
    println!("E4 real-thread hop witness: configurations={} failures={} wall={:.1}s", results.len(), failures, t0.elapsed().as_secs_f64());
    if failures > 0 {
        3
    } else {
        0
    }
}

/// C08 on real OS threads: a guard fetched on one thread and dropped on another releases exactly its borrow - for
/// the thread that fetched it, too.  Every guard kind x {dropped where it was fetched, moved to a fresh thread and
/// dropped there, moved to a fresh thread and held there} x every follow-up acquisition on the fetching thread.
fn sched_quiet() {
    // expected panics (conflicting acquisitions) are part of the enumeration: keep stderr quiet
    std::panic::set_hook(Box::new(|_| {}));
}

fn guardhop_witness(frag: Option<String>) -> i32 {
    use shred::{Fetch, FetchMut, Read, ResourceId, Write};
    #[derive(Default)]
    struct A(u64);
    #[derive(Default)]
    struct B(u64);
    enum G<'a> {
        R(Fetch<'a, A>),
        W(FetchMut<'a, A>),
        Wid(FetchMut<'a, A>),
        Sd((Read<'a, B>, Write<'a, A>)),
    }
    let t0 = Instant::now();
    let mut results: Vec<Value> = Vec::new();
    let mut failures = 0;
    let kinds = ["fetch", "fetch_mut", "try_fetch_mut_by_id (dynamic id 3)", "system_data (Read<B>, Write<A>)"];
    for (k, kname) in kinds.iter().enumerate() {
        // 0: dropped on the fetching thread, 1: moved to a fresh thread and dropped there, 2: moved and still held there
        for fate in 0..3u8 {
            let mut world = World::empty();
            world.insert(A(1));
            world.insert(B(2));
            let id3 = ResourceId::new_with_dynamic_id::<A>(3);
            world.insert_by_id(id3.clone(), A(3));
            let world = &world;
            let mut bad: Vec<String> = Vec::new();
            let g: G = match catch_unwind(AssertUnwindSafe(|| match k {
                0 => G::R(world.fetch()),
                1 => G::W(world.fetch_mut()),
                2 => G::Wid(world.try_fetch_mut_by_id::<A>(id3.clone()).unwrap()),
                _ => G::Sd(world.system_data()),
            })) {
                Ok(g) => g,
                Err(_) => {
                    // (state left behind by an earlier configuration: every configuration has a world of its own)
                    failures += 1;
                    results.push(json!({"guard": kname, "fate": "-", "problems": ["the first acquisition on a freshly built world panicked"]}));
                    continue;
                }
            };
            // what the guard holds: (A shared, A exclusive, A#3 exclusive, B shared)
            let holds = match k {
                0 => (true, false, false, false),
                1 => (false, true, false, false),
                2 => (false, false, true, false),
                _ => (false, true, false, true),
            };
            let (tx, rx) = std::sync::mpsc::channel::<()>();
            std::thread::scope(|s| {
                let mut parked = None;
                match fate {
                    0 => drop(g),
                    1 => {
                        s.spawn(move || drop(g)).join().unwrap();
                    }
                    _ => {
                        let (ready_tx, ready_rx) = std::sync::mpsc::channel::<()>();
                        parked = Some(s.spawn(move || {
                            let _keep = g;
                            ready_tx.send(()).unwrap();
                            let _ = rx.recv();
                        }));
                        ready_rx.recv().unwrap();
                    }
                }
                let still = fate == 2;
                // follow-up acquisitions on the fetching thread: (what, succeeds?) expected from the borrow rules alone
                let a_sh_ok = !(still && holds.1);
                let a_ex_ok = !(still && (holds.0 || holds.1));
                let a3_ex_ok = !(still && holds.2);
                let b_ex_ok = !(still && holds.3);
                let probes: Vec<(&str, bool, Box<dyn Fn() -> bool + '_>)> = vec![
                    ("fetch::<A>", a_sh_ok, Box::new(|| catch_unwind(AssertUnwindSafe(|| drop(world.fetch::<A>()))).is_ok())),
                    ("fetch_mut::<A>", a_ex_ok, Box::new(|| catch_unwind(AssertUnwindSafe(|| drop(world.fetch_mut::<A>()))).is_ok())),
                    ("try_fetch_mut_by_id::<A>(3)", a3_ex_ok, Box::new(|| catch_unwind(AssertUnwindSafe(|| drop(world.try_fetch_mut_by_id::<A>(ResourceId::new_with_dynamic_id::<A>(3))))).is_ok())),
                    ("fetch_mut::<B>", b_ex_ok, Box::new(|| catch_unwind(AssertUnwindSafe(|| drop(world.fetch_mut::<B>()))).is_ok())),
                    ("system_data::<(Write<B>, Read<A>)>", a_sh_ok && b_ex_ok, Box::new(|| catch_unwind(AssertUnwindSafe(|| drop(world.system_data::<(Write<B>, Read<A>)>()))).is_ok())),
                ];
                for (what, want, f) in &probes {
                    let got = f();
                    if got != *want {
                        bad.push(format!("{} on the fetching thread {} but the borrow rules say it {}", what, if got { "succeeded" } else { "panicked" }, if *want { "succeeds" } else { "panics" }));
                    }
                }
                drop(probes);
                let _ = tx.send(());
                if let Some(h) = parked {
                    h.join().unwrap();
                }
            });
            // everything released: exclusive access to every cell works
            if catch_unwind(AssertUnwindSafe(|| {
                drop(world.fetch_mut::<A>());
                drop(world.fetch_mut::<B>());
                drop(world.try_fetch_mut_by_id::<A>(id3.clone()));
            }))
            .is_err()
            {
                bad.push("a cell is still borrowed after every guard was dropped".to_string());
            }
            if !bad.is_empty() {
                failures += 1;
            }
            let fate_name = ["dropped on the fetching thread", "moved to a fresh thread and dropped there", "moved to a fresh thread and held there"][fate as usize];
            results.push(json!({"guard": kname, "fate": fate_name, "problems": bad}));
        }
    }
    let shown: Vec<Value> = results.iter().filter(|r| r.get("problems").and_then(|p| p.as_array()).map_or(true, |a| !a.is_empty())).take(5).cloned().collect();
    let out = json!({"engine":"E4 real-thread witness","what":"borrow rules across real OS threads on the unmodified crate: every guard kind (fetch, fetch_mut, by-id exclusive, two-member system data) x {dropped where fetched, moved to a fresh thread and dropped there, moved and held there} x five follow-up acquisitions on the fetching thread, then exclusive access to every cell; thread identity is outside the controlled runtime's model","configurations": results.len() * 5, "failures": failures, "failing_examples": shown, "wall_s": t0.elapsed().as_secs_f64()});
    if let Some(p) = frag {
        std::fs::write(p, serde_json::to_string_pretty(&out).unwrap()).unwrap();
    }
    println!("E4 real-thread guard witness: configurations={} failures={} wall={:.1}s", results.len() * 5, failures, t0.elapsed().as_secs_f64());
    if failures > 0 {
        3
    } else {
        0
    }
}

fn main() {
    let args: Vec<String> = std::env::args().collect();
    if args.get(1).map(|s| s.as_str()) == Some("--guardhop") {
        let frag = args.iter().position(|a| a == "--frag").and_then(|i| args.get(i + 1).cloned());
        sched_quiet();
        std::process::exit(guardhop_witness(frag));
    }
    if args.get(1).map(|s| s.as_str()) == Some("--threadhop") {
        let frag = args.iter().position(|a| a == "--frag").and_then(|i| args.get(i + 1).cloned());
        std::process::exit(threadhop_witness(frag));
    }
    if args.get(1).map(|s| s.as_str()) == Some("--rendezvous") {
        let frag = args.iter().position(|a| a == "--frag").and_then(|i| args.get(i + 1).cloned());
        std::process::exit(rendezvous_witness(frag));
    }
    let path = args.get(1).expect("usage: rr <traces.json> [--frag out.json] | rr --rendezvous [--frag out.json]");
    let frag = args.iter().position(|a| a == "--frag").and_then(|i| args.get(i + 1).cloned());
    let txt = std::fs::read_to_string(path).expect("read traces");
    let items: Vec<Value> = serde_json::from_str(&txt).expect("parse traces");
    std::panic::set_hook(Box::new(|_| {}));
    let t0 = Instant::now();
    let pool = Arc::new(rayon::ThreadPoolBuilder::new().num_threads(8).build().unwrap());
    let mut realised = 0u64;
    let mut skipped = 0u64;
    let mut failures: Vec<Value> = Vec::new();
    let mut samples: Vec<Value> = Vec::new();
    let mut kf2_total = 0u64;
    let mut retries = 0u64;
    let mut skipped_nested = 0u64;
    let mut kf2_diverged = 0u64;
    for it in &items {
        if it.get("tree").is_some() {
            let trace: Vec<(String, u16)> = it.get("trace").and_then(|t| t.as_array()).map(|a| a.iter().filter_map(|e| Some((e.get(0)?.as_str()?.to_string(), e.get(1)?.as_u64()? as u16))).collect()).unwrap_or_default();
            let mut forced = run_tree(it, Some(trace.clone()), &pool);
            let mut attempts = 1;
            while attempts < 4 && forced.as_ref().map_or(false, |f| f.2) {
                forced = run_tree(it, Some(trace.clone()), &pool);
                attempts += 1;
                retries += 1;
            }
            let reference = run_tree(it, None, &pool);
            match (forced, reference) {
                (Some(f), Some(r)) => {
                    if f.2 || f.0 != r.0 || f.1 != r.1 {
                        failures.push(json!({"tree": it.get("tree"), "inside": it.get("inside"), "trace_len": trace.len(), "could_not_follow_order": f.2, "same_outcome_as_reference": f.0 == r.0 && f.1 == r.1}));
                    } else {
                        realised += 1;
                        if samples.len() < 2 {
                            samples.push(json!({"tree": it.get("tree"), "forced_event_order": trace.iter().map(|(k, s)| format!("{}({})", k, s)).collect::<Vec<_>>().join(" ")}));
                        }
                    }
                }
                _ => skipped += 1,
            }
            continue;
        }
        let sc = match it.get("scenario") {
            Some(s) => s,
            None => {
                skipped += 1;
                continue;
            }
        };
        // plans of the recorded finding KF2 (a thread-local system with declared access inside a batch) race by
        // construction; their replays are reported separately, not as conformance failures
        fn kf2(ops: &[Op], in_batch: bool) -> bool {
            ops.iter().any(|o| match o {
                Op::Tl(s) => in_batch && !(s.reads.is_empty() && s.writes.is_empty()),
                Op::Batch(b) => kf2(&b.inner, true),
                _ => false,
            })
        }
        let is_kf2 = sc.get("ops").and_then(plan_from_json).map_or(false, |o| kf2(&o, false));
        // a batch nested inside a batch is built before its parent is handed the shared pool handle, so it
        // creates a private default pool; a worker blocked in that cross-pool `install` steals from its own
        // deque, and which thread runs a pending sibling is then a race the turnstile cannot steer
        fn nested(ops: &[Op], depth: usize) -> bool {
            ops.iter().any(|o| matches!(o, Op::Batch(b) if depth >= 1 || nested(&b.inner, depth + 1)))
        }
        if sc.get("ops").and_then(plan_from_json).map_or(false, |o| nested(&o, 0)) {
            skipped_nested += 1;
            continue;
        }
        let has_panics = sc.get("panics").and_then(|p| p.as_array()).map_or(false, |a| !a.is_empty());
        let has_rv = sc.get("rendezvous").map_or(false, |r| !r.is_null());
        if has_panics || has_rv {
            skipped += 1;
            continue;
        }
        let trace: Vec<(String, u16)> = it.get("trace").and_then(|t| t.as_array()).map(|a| a.iter().filter_map(|e| Some((e.get(0)?.as_str()?.to_string(), e.get(1)?.as_u64()? as u16))).collect()).unwrap_or_default();
        // which idle worker picks a job up first is real rayon's own race: one successful replay shows that
        // the order is realisable, so a failed attempt is retried a few times
        let mut forced = run(sc, Some(trace.clone()), &pool, Duration::from_millis(700));
        let mut attempts = 1;
        while !is_kf2 && attempts < 4 && forced.as_ref().map_or(false, |f| f.failed && f.panic.is_none()) {
            forced = run(sc, Some(trace.clone()), &pool, Duration::from_millis(700));
            attempts += 1;
            retries += 1;
        }
        let reference = run(sc, None, &pool, Duration::from_millis(1500));
        match (forced, reference) {
            (Some(f), Some(r)) => {
                let is_script = sc.get("script").map_or(false, |s| s.is_string());
                let same = is_script || (f.values == r.values && f.obs == r.obs && f.runs == r.runs);
                if is_kf2 {
                    kf2_total += 1;
                    if f.failed || f.panic.is_some() || !same {
                        kf2_diverged += 1;
                    }
                } else if f.failed || f.panic.is_some() || !same {
                    failures.push(json!({"scenario": sc, "trace_len": trace.len(), "realised_prefix": f.realised.len(), "realised_order": f.realised.iter().map(|(k, s)| format!("{}({})", k, s)).collect::<Vec<_>>().join(" "), "could_not_follow_order": f.failed, "panic": f.panic, "same_outcome_as_sequential": same}));
                } else {
                    realised += 1;
                    if samples.len() < 2 {
                        samples.push(json!({"plan": sc.get("plan"), "mode": sc.get("mode"), "forced_event_order": trace.iter().map(|(k, s)| format!("{}({})", k, s)).collect::<Vec<_>>().join(" ")}));
                    }
                }
            }
            _ => skipped += 1,
        }
    }
    let out = json!({
        "engine": "E4 realreplay",
        "what": "event traces explored by E2, forced with a turnstile on the unmodified crate (hooks off) and real rayon (pool of 8); outcome compared with the sequential run",
        "traces": items.len(), "realised": realised, "skipped": skipped, "skipped_nested_batch_plans": skipped_nested, "retries": retries, "conformance_failures": failures.len(),
        "known_finding_KF2_traces": kf2_total, "known_finding_KF2_traces_that_diverge_on_real_rayon": kf2_diverged,
        "failures": failures.iter().take(5).collect::<Vec<_>>(), "samples": samples, "wall_s": t0.elapsed().as_secs_f64(),
    });
    if let Some(p) = frag {
        std::fs::write(p, serde_json::to_string_pretty(&out).unwrap()).unwrap();
    }
    println!("E4 realreplay: traces={} realised={} skipped={} conformance_failures={} wall={:.1}s", items.len(), realised, skipped, failures.len(), t0.elapsed().as_secs_f64());
    std::process::exit(if failures.is_empty() { 0 } else { 3 });
}
