//! Witness for finding KF3 on the real crate and real rayon: a system inside a
//! batch that is itself inside a batch does not run on the user-supplied pool.
use std::sync::{Arc, Mutex};

use shred::{BatchController, Dispatcher, DispatcherBuilder, System, World};

struct Ctrl;
impl<'a, 'b, 'c> BatchController<'a, 'b, 'c> for Ctrl {
    type BatchSystemData = ();
    fn run(&mut self, world: &'c World, dispatcher: &mut Dispatcher<'a, 'b>) {
        dispatcher.dispatch(world);
    }
}

struct Where(&'static str, Arc<Mutex<Vec<(String, String)>>>);
impl<'a> System<'a> for Where {
    type SystemData = ();
    fn run(&mut self, _: ()) {
        let name = std::thread::current().name().unwrap_or("<unnamed>").to_string();
        self.1.lock().unwrap().push((self.0.to_string(), name));
    }
}

fn main() {
    let log = Arc::new(Mutex::new(Vec::new()));
    let pool = Arc::new(rayon::ThreadPoolBuilder::new().num_threads(3).thread_name(|i| format!("user-pool-{}", i)).build().unwrap());
    let innermost = DispatcherBuilder::new().with(Where("depth-2", log.clone()), "x", &[]);
    let middle = DispatcherBuilder::new().with(Where("depth-1", log.clone()), "y", &[]).with_batch(Ctrl, innermost, "n", &[]);
    let mut d = DispatcherBuilder::new().with_pool(pool).with(Where("depth-0", log.clone()), "z", &[]).with_batch(Ctrl, middle, "b", &[]).build();
    d.dispatch(&World::empty());
    let l = log.lock().unwrap().clone();
    for (sys, th) in &l {
        println!("{} ran on thread {}", sys, th);
    }
    let bad = l.iter().any(|(s, t)| s == "depth-2" && !t.starts_with("user-pool-"));
    println!("{}", if bad { "KF3 WITNESSED: the innermost system did not run on the user-supplied pool" } else { "innermost system ran on the user-supplied pool" });
}
