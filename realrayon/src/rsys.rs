//! Harness systems for the builds that do not use the controlled runtime
//! (E4 on real rayon, and the `parallel`-off twin): same bodies as
//! engine/mc/src/hsys.rs, events go to a `Hook`.

use std::marker::PhantomData;
use std::sync::atomic::{AtomicBool, AtomicU32, Ordering};
use std::sync::{Arc, Mutex};

use shred::{
    Accessor, AccessorCow, BatchController, Dispatcher, DispatcherBuilder, DynamicSystemData, Fetch, FetchMut, MultiDispatchController, MultiDispatcher, Read, ResourceId, RunningTime,
    System, SystemData, World, Write,
};

use crate::spec::*;

#[derive(Default, Debug, Clone, Copy, PartialEq, Eq)]
pub struct Cell0(pub u64);
#[derive(Default, Debug, Clone, Copy, PartialEq, Eq)]
pub struct Cell1(pub u64);

pub fn concrete_id(c: u8) -> ResourceId {
    match c {
        0 => ResourceId::new_with_dynamic_id::<Cell0>(0),
        1 => ResourceId::new_with_dynamic_id::<Cell0>(1),
        2 => ResourceId::new_with_dynamic_id::<Cell1>(0),
        3 => ResourceId::new_with_dynamic_id::<Cell1>(7),
        4 => ResourceId::new_with_dynamic_id::<Cell0>(0x1_0000_0001),
        _ => ResourceId::new_with_dynamic_id::<Cell1>(u64::MAX - 0xFF),
    }
}
pub fn is_cell0(c: u8) -> bool {
    matches!(c, 0 | 1 | 4)
}
pub const INIT_VALUES: [u64; 6] = [11, 22, 33, 44, 55, 66];

pub fn new_world() -> World {
    let mut w = World::empty();
    for c in 0..6u8 {
        if is_cell0(c) {
            w.insert_by_id(concrete_id(c), Cell0(INIT_VALUES[c as usize]));
        } else {
            w.insert_by_id(concrete_id(c), Cell1(INIT_VALUES[c as usize]));
        }
    }
    w
}
pub fn world_values(w: &World) -> Vec<u64> {
    (0..6u8)
        .map(|c| if is_cell0(c) { w.try_fetch_by_id::<Cell0>(concrete_id(c)).map(|x| x.0).unwrap_or(u64::MAX) } else { w.try_fetch_by_id::<Cell1>(concrete_id(c)).map(|x| x.0).unwrap_or(u64::MAX) })
        .collect()
}

/// What the harness systems report to (a turnstile in E4, nothing in the no-parallel twin).
pub trait Hook: Send + Sync {
    fn ev(&self, kind: &str, sys: usize);
}

pub struct Ctx {
    pub turn: Arc<dyn Hook>,
    pub obs: Mutex<Vec<Vec<u64>>>,
    pub local: Mutex<Vec<u64>>,
    pub runs: Mutex<Vec<u32>>,
    pub dispatch_no: AtomicU32,
    /// identification mode: systems only announce themselves
    pub ident: AtomicBool,
    pub ident_log: Mutex<Vec<usize>>,
    pub inner_layouts: Mutex<Vec<(usize, String)>>,
    /// layout identification of an inner dispatcher (needs the verification hooks; a stub where they are off)
    pub identify: fn(&mut Dispatcher<'_, '_>, &Arc<Ctx>, &World) -> String,
}

pub struct RAcc {
    id: usize,
    reads: Vec<ResourceId>,
    writes: Vec<ResourceId>,
    fetch_reads: Vec<u8>,
    fetch_writes: Vec<u8>,
    ctx: Arc<Ctx>,
}
impl Accessor for RAcc {
    fn try_new() -> Option<Self> {
        None
    }
    fn reads(&self) -> Vec<ResourceId> {
        self.reads.clone()
    }
    fn writes(&self) -> Vec<ResourceId> {
        self.writes.clone()
    }
}
pub enum Guard<'a> {
    R0(Fetch<'a, Cell0>),
    R1(Fetch<'a, Cell1>),
    W0(FetchMut<'a, Cell0>),
    W1(FetchMut<'a, Cell1>),
}
impl Guard<'_> {
    fn get(&self) -> u64 {
        match self {
            Guard::R0(g) => g.0,
            Guard::R1(g) => g.0,
            Guard::W0(g) => g.0,
            Guard::W1(g) => g.0,
        }
    }
    fn set(&mut self, v: u64) {
        match self {
            Guard::W0(g) => g.0 = v,
            Guard::W1(g) => g.0 = v,
            _ => panic!("write through a shared guard"),
        }
    }
}
pub struct RData<'a> {
    id: usize,
    ctx: Arc<Ctx>,
    active: bool,
    reads: Vec<Guard<'a>>,
    writes: Vec<Guard<'a>>,
}
impl<'a> DynamicSystemData<'a> for RData<'a> {
    type Accessor = RAcc;
    fn setup(_: &RAcc, _: &mut World) {}
    fn fetch(acc: &RAcc, world: &'a World) -> Self {
        let ctx = acc.ctx.clone();
        if ctx.ident.load(Ordering::Relaxed) {
            ctx.ident_log.lock().unwrap().push(acc.id);
            return RData { id: acc.id, ctx, active: false, reads: vec![], writes: vec![] };
        }
        ctx.turn.ev("FetchBegin", acc.id);
        let mut reads = Vec::new();
        for &c in &acc.fetch_reads {
            reads.push(if is_cell0(c) { world.try_fetch_by_id::<Cell0>(concrete_id(c)).map(Guard::R0).unwrap() } else { world.try_fetch_by_id::<Cell1>(concrete_id(c)).map(Guard::R1).unwrap() });
        }
        let mut writes = Vec::new();
        for &c in &acc.fetch_writes {
            writes.push(if is_cell0(c) { world.try_fetch_mut_by_id::<Cell0>(concrete_id(c)).map(Guard::W0).unwrap() } else { world.try_fetch_mut_by_id::<Cell1>(concrete_id(c)).map(Guard::W1).unwrap() });
        }
        ctx.turn.ev("Fetched", acc.id);
        RData { id: acc.id, ctx, active: true, reads, writes }
    }
}
impl Drop for RData<'_> {
    fn drop(&mut self) {
        if !self.active {
            return;
        }
        self.reads.clear();
        self.writes.clear();
        self.ctx.turn.ev("Release", self.id);
    }
}
pub struct RSys {
    acc: RAcc,
    time: u8,
}
fn running_time(t: u8) -> RunningTime {
    match t {
        1 => RunningTime::VeryShort,
        2 => RunningTime::Short,
        3 => RunningTime::Average,
        4 => RunningTime::Long,
        _ => RunningTime::VeryLong,
    }
}
const P: u64 = 0x100000001b3;
fn mix(h: u64, v: u64) -> u64 {
    (h ^ v).wrapping_mul(P).rotate_left(17) ^ 0x9e3779b97f4a7c15
}
impl RSys {
    pub fn new(id: usize, reads: &[u8], writes: &[u8], time: u8, ctx: &Arc<Ctx>) -> RSys {
        let mut fw: Vec<u8> = writes.to_vec();
        fw.sort();
        fw.dedup();
        let mut fr: Vec<u8> = reads.iter().copied().filter(|r| !fw.contains(r)).collect();
        fr.sort();
        fr.dedup();
        RSys { acc: RAcc { id, reads: reads.iter().map(|c| concrete_id(*c)).collect(), writes: writes.iter().map(|c| concrete_id(*c)).collect(), fetch_reads: fr, fetch_writes: fw, ctx: ctx.clone() }, time }
    }
}
impl<'a> System<'a> for RSys {
    type SystemData = RData<'a>;
    fn run(&mut self, mut d: RData<'a>) {
        if !d.active {
            return;
        }
        let ctx = d.ctx.clone();
        let id = self.acc.id;
        ctx.runs.lock().unwrap()[id] += 1;
        let cnt = {
            let mut l = ctx.local.lock().unwrap();
            l[id] += 1;
            l[id]
        };
        let mut h = mix(id as u64 + 1, cnt);
        let mut seen = Vec::new();
        for g in &d.reads {
            let v = g.get();
            seen.push(v);
            h = mix(h, v);
        }
        for g in d.writes.iter_mut() {
            let old = g.get();
            seen.push(old);
            g.set(old.wrapping_mul(P).wrapping_add(h));
        }
        let mut oh = mix(0x51, cnt);
        for v in seen {
            oh = mix(oh, v);
        }
        ctx.obs.lock().unwrap()[id].push(oh);
    }
    fn running_time(&self) -> RunningTime {
        running_time(self.time)
    }
    fn accessor<'b>(&'b self) -> AccessorCow<'a, 'b, Self> {
        AccessorCow::Ref(&self.acc)
    }
    fn setup(&mut self, _: &mut World) {}
}

pub trait CtrlKind: Send + 'static {
    type Data<'c>: SystemData<'c>;
}
pub struct KUnit;
pub struct KReadA;
pub struct KWriteA;
pub struct KReadC;
pub struct KWriteC;
pub struct KReadAWriteC;
pub struct KOptReadA;
pub struct KDerOptReadAWriteC;
/// derived bundle used as a controller's declared data
#[derive(shred::SystemData)]
pub struct CtrlDer<'a> {
    pub a: Option<Read<'a, Cell0>>,
    pub c: Write<'a, Cell1>,
}
impl CtrlKind for KDerOptReadAWriteC {
    type Data<'c> = CtrlDer<'c>;
}
impl CtrlKind for KUnit {
    type Data<'c> = ();
}
impl CtrlKind for KReadA {
    type Data<'c> = Read<'c, Cell0>;
}
impl CtrlKind for KWriteA {
    type Data<'c> = Write<'c, Cell0>;
}
impl CtrlKind for KReadC {
    type Data<'c> = Read<'c, Cell1>;
}
impl CtrlKind for KWriteC {
    type Data<'c> = Write<'c, Cell1>;
}
impl CtrlKind for KReadAWriteC {
    type Data<'c> = (Read<'c, Cell0>, Write<'c, Cell1>);
}
impl CtrlKind for KOptReadA {
    type Data<'c> = Option<Read<'c, Cell0>>;
}
pub struct RCtrl<K: CtrlKind> {
    id: usize,
    times: u8,
    fetch_data: bool,
    ctx: Arc<Ctx>,
    _k: PhantomData<K>,
}
impl<'a, 'b, 'c, K: CtrlKind> BatchController<'a, 'b, 'c> for RCtrl<K> {
    type BatchSystemData = K::Data<'c>;
    fn run(&mut self, world: &'c World, dispatcher: &mut Dispatcher<'a, 'b>) {
        let ctx = self.ctx.clone();
        if ctx.ident.load(Ordering::Relaxed) {
            ctx.ident_log.lock().unwrap().push(self.id);
            let saved = std::mem::take(&mut *ctx.ident_log.lock().unwrap());
            let l = (ctx.identify)(dispatcher, &ctx, world);
            ctx.inner_layouts.lock().unwrap().push((self.id, l));
            *ctx.ident_log.lock().unwrap() = saved;
            return;
        }
        ctx.turn.ev("CtrlBegin", self.id);
        ctx.runs.lock().unwrap()[self.id] += 1;
        if self.fetch_data {
            {
                let data: K::Data<'c> = world.system_data();
                ctx.turn.ev("CtrlDataOpen", self.id);
                drop(data);
            }
            ctx.turn.ev("CtrlDataClose", self.id);
        }
        for _ in 0..self.times {
            dispatcher.dispatch(world);
        }
        ctx.turn.ev("CtrlEnd", self.id);
    }
}
pub struct RMulti<K: CtrlKind> {
    id: usize,
    times: u8,
    ctx: Arc<Ctx>,
    _k: PhantomData<K>,
}
impl<'c, K: CtrlKind> MultiDispatchController<'c> for RMulti<K> {
    type SystemData = K::Data<'c>;
    fn plan(&mut self, data: Self::SystemData) -> usize {
        if self.ctx.ident.load(Ordering::Relaxed) {
            self.ctx.ident_log.lock().unwrap().push(self.id);
            drop(data);
            return 0;
        }
        self.ctx.turn.ev("Plan", self.id);
        self.ctx.runs.lock().unwrap()[self.id] += 1;
        drop(data);
        self.times as usize
    }
}

pub type Builder = DispatcherBuilder<'static, 'static>;

fn add_batch_k<K: CtrlKind>(b: &mut Builder, spec: &BatchSpec, id: usize, inner: Builder, ctx: &Arc<Ctx>) {
    let deps: Vec<&str> = spec.deps.iter().map(|s| s.as_str()).collect();
    if spec.multi {
        b.add_batch::<MultiDispatcher<RMulti<K>>>(MultiDispatcher::new(RMulti::<K> { id, times: spec.times, ctx: ctx.clone(), _k: PhantomData }), inner, &spec.name, &deps);
    } else {
        b.add_batch::<RCtrl<K>>(RCtrl::<K> { id, times: spec.times, fetch_data: spec.fetch_data, ctx: ctx.clone(), _k: PhantomData }, inner, &spec.name, &deps);
    }
}

pub fn register_into(b: &mut Builder, ops: &[Op], next_id: &mut usize, ctx: &Arc<Ctx>) {
    for op in ops {
        match op {
            Op::Barrier => b.add_barrier(),
            Op::Sys(s) => {
                let id = *next_id;
                *next_id += 1;
                let deps: Vec<&str> = s.deps.iter().map(|x| x.as_str()).collect();
                b.add(RSys::new(id, &s.reads, &s.writes, s.time, ctx), &s.name, &deps);
            }
            Op::Tl(s) => {
                let id = *next_id;
                *next_id += 1;
                b.add_thread_local(RSys::new(id, &s.reads, &s.writes, s.time, ctx));
            }
            Op::Static(_) => {
                // statically typed systems are only used by the plan-level checks of the engine
                *next_id += 1;
            }
            Op::Batch(bs) => {
                let id = *next_id;
                *next_id += 1;
                let mut inner = DispatcherBuilder::new();
                register_into(&mut inner, &bs.inner, next_id, ctx);
                match bs.ctrl {
                    CtrlData::Unit => add_batch_k::<KUnit>(b, bs, id, inner, ctx),
                    CtrlData::ReadA => add_batch_k::<KReadA>(b, bs, id, inner, ctx),
                    CtrlData::WriteA => add_batch_k::<KWriteA>(b, bs, id, inner, ctx),
                    CtrlData::ReadC => add_batch_k::<KReadC>(b, bs, id, inner, ctx),
                    CtrlData::WriteC => add_batch_k::<KWriteC>(b, bs, id, inner, ctx),
                    CtrlData::ReadAWriteC => add_batch_k::<KReadAWriteC>(b, bs, id, inner, ctx),
                    CtrlData::OptReadA => add_batch_k::<KOptReadA>(b, bs, id, inner, ctx),
                    CtrlData::DerOptReadAWriteC => add_batch_k::<KDerOptReadAWriteC>(b, bs, id, inner, ctx),
                }
            }
        }
    }
}

