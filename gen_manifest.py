#!/usr/bin/env python3
"""Writes MANIFEST.json (kept as a script so that the per-property texts live in one place)."""
import json, subprocess

hooks = subprocess.run(["git","-C","/repo","log","--format=%h %s"],capture_output=True,text=True).stdout.splitlines()
hook_commits=[l.split()[0] for l in hooks if "verif-hooks" in l]

E1="E1 planmc: exhaustive DFS over registration sequences on the real DispatcherBuilder; every prefix is a state, invariants evaluated on the executed layout (visitor hook) in every state"
E2="E2 schedmc: stateless model checking of the real dispatch code on a controlled scheduler (shuttle runtime + own preemption-bounded DFS `PbDfs`) with a stand-in for rayon whose threads the scheduler owns"
E3="E3 histmc: breadth-first / exhaustive enumeration of API histories (or generated programs) on the real World / MetaTable / SystemData types against a boring reference model"

C = {
 "C01": ("explicit-state enumeration of builder states (E1) + preemption-bounded exhaustive schedule exploration of real dispatches (E2)",
   "Every registration sequence inside the stated alphabets/depths is built with the real builder and its executed layout checked for isolation (batches count with the harness's own union); every distinct small plan is then dispatched (dispatch, dispatch_par, dispatch_seq, async; 1-2 dispatches) under every schedule within the preemption bound with shadow reader/writer windows and the real borrow flags as backstop.",
   "Bounded: depth of registration sequences, 3-4 resources, preemption bound (reported per job); pool sizes are over-approximated by an unbounded stand-in pool (DESIGN 6.1); the explored event traces are replayed on the unmodified crate with real rayon (E4) and counted in traces_validated_against_impl; plan-level findings are escalated to a concrete schedule; rayon / atomic_refcell internals trusted. KF2 (thread-local system inside a batch) is a recorded finding."),
 "C02": ("explicit-state enumeration of builder states (E1) + bounded exhaustive schedule exploration with resource-less dependents (E2)",
   "For every sequence with dependency lists (0..2 earlier names, repeated names, names in front of barriers) the dependent is ordered after its dependency in the executed layout; for every distinct small dependency plan every schedule within the bound shows Release(A) before FetchBegin(B), including all schedules that park A inside run.",
   "Bounded depth / preemption bound; stand-in pool model (DESIGN 5.2, bound to real rayon by E4 when built)."),
 "C03": ("explicit-state enumeration (E1, incl. metamorphic no-op barrier comparison) + bounded exhaustive schedule exploration (E2)",
   "Barriers at every position of every sequence up to the depth: pre-barrier systems sit in strictly earlier stages; a redundant barrier yields the identical layout; under every schedule within the bound pre-barrier systems release before post-barrier systems begin.",
   "Bounded depth / preemption bound."),
 "C04": ("explicit-state enumeration with run counters (E1) + bounded exhaustive schedule exploration (E2)",
   "In every builder state: slots = registered systems, each identity exactly once, and the script [dispatch_seq, dispatch_par, dispatch, dispatch_thread_local] yields exactly the expected counters (batches: times x outer runs; MultiDispatcher: plan()); groups filled to capacity and families up to n=64|400; counters also hold at the end of every explored schedule.",
   "Bounded depth; parametric families instead of arbitrary n; pool-size dependence covered by default pools of 1..3 threads in E1 and a sweep of widths 2..7 over pools of 1..4 threads in E2."),
 "C05": ("bounded exhaustive schedule exploration with a sequential twin (E2)",
   "For every distinct small plan and every schedule within the preemption bound, the final world, every system's observation log and local state equal those of a twin dispatcher driven by dispatch_seq (non-commutative folds make any reordering visible); distinct outcomes per scenario are counted.",
   "Preemption bound; larger plans are decided through the plan-level isolation invariant (candidates found by E1 must be exhibited as a diverging schedule by E2); the crate built without `parallel` recomputes layout and outcome of ~27 000 exported sequences; KF2 consequence recorded."),
 "C06": ("exhaustive enumeration of a generated program space, each program run against the real crate (E3)",
   "Every composition inside the bounds (tuple arity 1..26 x position x kind, kind vectors for arity <= 3, nestings <= depth 3, derived named/tuple/generic structs) is generated as a Rust type, instantiated, and probed: reads()/writes(), StaticAccessor, setup on empty and populated worlds, borrow state of every cell while the value lives (every presence subset of Option-reached resources) and after drop.",
   "Quick tier uses a reduced but still exhaustive-within-itself program set (3 kinds per position); thorough the full one. Expected access is computed from the leaf kinds by the generator."),
 "C07": ("explicit-state enumeration of outer/inner registration sequences (E1) + bounded exhaustive schedule exploration of batches (E2)",
   "Outer layouts are checked against the harness's own union (controller data + every inner system, recursively, nesting <= 2-3); inner layouts (obtained through the controller) get the same isolation/ordering/exactly-once invariants; schedules of outer systems x batch x inner systems are explored with leaf-window and batch-as-a-unit monitors.",
   "Bounded nesting/depth/preemption bound. KF2 recorded (thread-local systems inside a batch are not part of its accessor)."),
 "C08": ("explicit-state BFS over borrow histories with live guards (E3) + exhaustive interleavings of concurrent acquisitions (E2)",
   "Every operation (fetch, fetch_mut, try_*, by-id, 4 composite system-data types, meta-table iter/iter_mut, clone, drop, acquire-then-panic) from every reachable observed borrow state (<= 3 live guards): outcome class equals the borrow model, every cell probes as modelled, every live guard still reads the last canary; 2-3 controlled tasks acquire/hold/release in every interleaving (2 tasks unbounded).",
   "Each borrow is one atomic RMW in atomic_refcell (dependency); payload memory ordering outside."),
 "C09": ("exhaustive enumeration of map histories + BFS closure on observed states (E3)",
   "Every history up to the depth over insert / insert_by_id / remove / remove_by_id / entry / has_value(_raw) / get_mut(_raw) / fetch variants / setup / exec (incl. mismatching type arguments) on 3 resource types x 2 dynamic ids against a BTreeMap; after every step all 6 keys are probed (presence, concrete type id, serial) and tracked payloads must be alive exactly once.",
   "Depth bound (3 full alphabet quick; 4 core alphabet thorough); hash-map internals trusted."),
 "C10": ("explicit-state enumeration of builder states (E1)",
   "For the system added by every transition: every skipped stage holds an earlier conflicting system or a dependency sits there or later; compatible dependency-free barrier-free sets share one stage; max_threads() = widest stage. Two genuine defects were found and repaired (fix: commits), their inputs are regression inputs.",
   "Bounded depth; invariants, not a reference planner."),
 "C11": ("bounded exhaustive schedule exploration with a finite-capacity pool model and deadlock detection (E2), with a built-in negative control",
   "Stage widths 2..8 (quick) / 2..16 (thorough), pool >= width, user-supplied and default pool, async and batch-inner: all systems rendezvous inside run; no schedule within the (preemption or delay) bound deadlocks; with one thread too few every scenario must deadlock, otherwise the check reports itself vacuous.",
   "Capacity model of the stand-in pool (DESIGN 5.2); that real rayon runs w jobs on w cores is rayon's business (witnessed by E4 when built)."),
 "C12": ("explicit-state enumeration (E1) + bounded exhaustive schedule exploration with task identity (E2)",
   "Thread-local systems never sit in stages, keep registration order, try_into_sendable is Ok iff none exist and preserves the shape; under every schedule within the bound they run on the dispatch caller's task, outside any pool, after all other systems, in order. KF1 (thread-local system inside a batch runs on a pool worker) is a recorded finding.",
   "Bounded depth / preemption bound; task identity of the stand-in pool."),
 "C13": ("explicit-state enumeration with setup/dispose counters (E1)",
   "For every sequence with batches nested and thread-local systems: after Dispatcher::setup every system has setup count 1, after dispose dispose count 1 (defect found and repaired: dispose was not forwarded into batches).",
   "Statically typed systems and declaring batch controllers exercise the library's own setup path: for every subset of pre-inserted resources the world after setup / second setup / setup-remove-setup is compared with the expectation; per-composition setup is C06's."),
 "C14": ("bounded exhaustive schedule exploration with injected panics (E2)",
   "Every plan x every single (thorough: pair of) panicking system(s) x {fetch, run} x {dispatch, dispatch_seq}, every schedule within the bound incl. run-or-skip of not-yet-started siblings: payload is a panicking system's, no dependent runs, nothing runs twice, no cell stays borrowed, the next dispatch runs everything exactly once and ends in the state a sequential dispatch from the same start state produces.",
   "Preemption bound; sibling skipping over-approximates every pool size."),
 "C15": ("bounded exhaustive schedule exploration of caller scripts against the background job (E2, channel seam)",
   "Every script of length <= 3-5 over {dispatch, running, wait, wait_without_tl, world, world_mut, setup} x 6 background plans, every interleaving within the bound: oracles at the instant each call returns (nothing running, counters complete, running() truthfulness, no overtaking, thread-local only inside wait on the caller); deadlock = violation.",
   "std mpsc replaced by the controlled runtime's channel under the hook (bound to the unhooked crate by E4 when built)."),
 "C16": ("exhaustive enumeration of tree programs + bounded exhaustive schedule exploration (E2) + exhaustive Par::with pairs (debug assertions on)",
   "Every par/seq tree up to the leaf/depth/fan-out bounds with par-compatible access, dispatched from outside and inside the pool, every schedule within the bound: leaves exactly once, seq order, root access = union, setup reaches leaves, outcome = sequential; Par::with panics iff the child conflicts for every pair/triple over a 9-element alphabet incl. nested children.",
   "Trees are assembled at run time from the real Par/Seq nodes through a boxing adapter."),
 "C17": ("explicit-state BFS over meta-table histories (E3)",
   "Every operation from every reachable (first-registration order, present set) state up to the depth: get/get_mut Some iff registered, same address, right vtable (tag, counter); iteration yields registered present types in first-registration order once each with the right borrow kind; conflicting guard or address-changing cast => panic, nothing leaked.",
   "6 types (zero-sized, small, large, heap, never registered, bad cast)."),
 "C18": ("explicit-state enumeration of builder states with catch_unwind around every call (E1)",
   "Every call of every sequence panics iff it names an unregistered dependency or reuses a non-empty name, the message quotes the name; ill-formed calls at every position; groups funnelled to capacity (depth 7|9) and families up to n = 64|400 never panic; build() never panics.",
   "Bounded depth."),
 "C19": ("explicit-state enumeration with metamorphic transformations (E1)",
   "For every sequence: identical layout under a second build, three renamings (fresh, sanitiser-hostile, rotated), reversed / duplicated / rotated read-write lists, and 12|360 injective relabellings of the resources across types and dynamic ids.",
   "The (sequence -> layout, outcome) table of ~27 000 sequences is computed by three separate processes (different hash seeds) and by the crate built without `parallel`, and compared; hash seeds cannot be enumerated, three are sampled."),
 "C20": ("explicit-state enumeration of builder states with a parser for the printed plan (E1)",
   "For every sequence incl. unnamed systems and names with spaces/dashes/slashes: {:?} and {:#?} never panic, parse as seq/par/seq, and the token at (stage, group, position) is the sanitised name of the system the executed layout has there (placeholder for unnamed). Defect found and repaired (unwrap on unnamed systems).",
   "Bounded depth."),
}

# what the seeding rounds 3-7 added to each check (DESIGN.md 13.7), appended to the claim text
ADD = {
 "C01": "Also: ballast / long-list / 256-stage families, profiles DJ (barriers x hints), ED (batches x dependencies x hints), S (statically typed and generic derived data whose systems follow the full event protocol), and the ill-formed-call profile (a rejected call has no effect). Round 11: statically typed systems over two distinct resource types that share one type name; batches nested up to 7 deep.",
 "C02": "Also: dependency lists with non-adjacent repeats and pairs against registration order, hints {1,5} with dependency pairs, dependency chains filling a group, the ill-formed-call profile.",
 "C03": "Also: profile DJ, the ill-formed-call profile, plans with 255/256/257/300 stages in front of the barrier. Round 11: families with n effective barriers for every n in 1..64 and 255..300 (also doubled / leading barriers).",
 "C04": "Also: the script ends with RunNow::run_now on the dispatcher; every dispatch after a dispatch that ended in a caught panic runs every system once; rejected registrations never run; async stage-width x pool-size sweep lives in C15. Round 10: back-to-back dispatch() scripts (DD, DDD, DRDW, DXDD) on every <= 2-op plan of the async dispatcher. Round 11: dispatch entered from a worker of a foreign pool over plans with multi-group stages; the dispatcher used on a second world and back; batches nested up to 7 deep with every level dispatching twice. Round 12: two dispatches on a world lacking a resource that only optional members name.",
 "C05": "Also: statically typed, generic-derived and long-list systems take part (candidates from E1 are exhibited by E2 as diverging schedules); plans over 16-33 distinct resources; accessor types with a default next to per-instance accessors. Round 10: stage-width x pool-size sweep (2..7 systems on user-supplied / default pools of 1..4 threads; top level, async, batch-inner) against the sequential twin. Round 11: same-named distinct resource types; dispatch entered from a worker of a foreign pool. Round 12: joiner-behind-barrier families.",
 "C06": "Also: compositions naming one resource twice (self-conflicting ones must refuse to fetch and release everything, incl. through the derive macro; shared repeats declare the union), custom setup handlers with a call journal (every member, once per member, in member order), two instantiations of every generic derived struct, decoy resources of the same types under dynamic ids 1 / 2^32 / 2^64-1 that nothing may touch. Declared access is compared as a set. Round 10: derived structs whose field types are tuples, parenthesised types or macro `$t:ty` fragments. Round 11: derive syntax zoo (default type parameter, const generic, path-qualified field types, raw identifiers, field attributes, lifetime bounds). Round 14: derived structs with 25..53 fields.",
 "C07": "Also: barriers and thread-local systems inside inner builders (zoo), profile ED (batches and systems with single dependencies and hints). Round 11: the isolation / dependency / barrier invariants are also judged for every layout INSIDE a batch; ballast shapes (groups filling to capacity) as inner plans; nesting up to 7 deep. Round 12: thread-local systems registered inside a batch stay in that batch's own list. Round 14: run counters of every system inside a batch (thread-local ones included) per inner dispatch.",
 "C08": "Also: live meta-table iterators (IterOpen / IterNext), derived bundles, every acquisition also issued from a destructor during unwinding, zero-sized resources with clone_from; the concurrent part preempts between two cell operations (atomic_refcell linked with a scheduling point per operation) and checks linearizability. Round 11: every reached state probes a second, untouched world on the same thread. Round 12: an absent registered type precedes the present ones in the meta table; real-thread witness for guards moved to / dropped on another OS thread (rr --guardhop, 60 configurations).",
 "C09": "Also: five boundary dynamic-id triples ({0, MAX-1, MAX}, 32-bit-truncation and top-bit collisions, 2^32 neighbours) at reduced depth, exec with two-member data, presence queries while a guard of that resource is alive. Round 11: a zoo of nine unusual resource types (Box<dyn Resource>, Box / Arc, (), tuple, Option, Vec<Box<dyn Resource>>, Mutex) with the stored value's dynamic type probed after every step. Round 13: fetches of a present slot while a guard of it is alive succeed or panic, never answer None.",
 "C10": "Also: profile DJ, hints with dependency pairs, non-adjacent repeated dependencies, max_threads for stages wider than any pool, the ill-formed-call profile (a rejected call must not change later placements). Round 11: same-named distinct resource types.",
 "C11": "Also: async scripts with dispatches issued before the first wait, a narrow batch registered before the wide stage, the user-supplied pool handed over late or after a decoy pool, running-time hints 1 and 5, pools built with use_current_thread (stand-in models the building thread as a worker that only works inside install). Round 10: a batch (hand-written / MultiDispatcher controller) beside a sibling registered after / before it; the stand-in models rayon's pending-job query. Round 11: the wide stage inside a batch inside a batch with a default pool as wide as the shared one. Round 12: history of a dispatch_seq with a caught panic followed by a parallel dispatch.",
 "C12": "Also: 5..300 thread-local systems, a dispatch / the first wait after a dispatch runs every top-level thread-local system exactly once (also after a caught panic of an ordinary or a thread-local system, also with polling / accessors / a second dispatch in between), RunNow::run_now on the dispatcher runs them too; thread-local systems inside batches once per inner dispatch (controllers repeating 0/2/3 times); exactly-once across real threads (E4 hop witness, 80 configurations). Round 10: thread-local plans (top level, inside batches) on user-supplied / default pools of 1, 2, 3 threads. Round 11: the dispatcher handed back by a rejected try_into_sendable is dispatched, identified and converted again. Round 13: the sendable form used directly (order of dispatch_seq, run counters); a dispatch issued from a destructor while the calling thread unwinds.",
 "C13": "Also: setup and dispose through Box<dyn RunNow>, two batches with one controller type, static data that first names a resource through a non-creating member, empty / anonymous / thread-local-only batches. Round 10: derived bundles with a type-parameter field, a tuple field, a macro-fragment field. Round 12: setups are counted in DynamicSystemData::setup reached through the library's default System::setup hook. Round 13: setup / dispose of the sendable form.",
 "C14": "Also: panics raised at the end of run (after the system wrote through its guards), controllers dispatching 2-3 times (hand-written and MultiDispatcher), two panicking systems, thread-local panics. Round 10: every single-panic scenario also with a typed (non-string) payload. Round 11/12: unnamed systems among named ones; two-panic histories first run inline in a child process (a dead child is reported as the violation). Round 13: a top-level dependent that ran at all in the panicking dispatch is flagged (before or after the panic); four-system plans whose last system has two dependencies.",
 "C15": "Also: a panicking background system under 9 scripts, stage width x pool size sweep, every sequence of 2..4|5 one/two-wide stages, feature-zoo plans with a batch and a thread-local system. Round 11: pipelines of 5..17 stages dispatched up to three times on one async dispatcher. Round 12: scripts in which the first setup call of one system panics and the caller sets up again.",
 "C16": "Also: dispatch from the only worker of a foreign one-thread pool; oracle that some explored schedule shows par children overlapping; Par::with with the contested id behind up to 40 other entries and with statically typed leaves; a second setup on a fresh world reaches every leaf again. Round 10: leaves over two distinct resource types that share one type name. Round 11: every small tree built with the par! / seq! macros and with new / with behaves identically.",
 "C17": "State key and probes cover the get path, iteration with live guards, and address-changing casts after correct ones. Round 10: a second sweep in which resources reach the world by insert, the entry API or a default provider, with decoys under a dynamic id; every history ends by iterating its own world. Round 11: the histories run a second time with a zero-sized type in the role of the type whose cast changes the address.",
 "C18": "Also: three-resource funnels, hints with dependency pairs, names that collide after sanitising, unnamed batches, repeated dependency names. Round 12: registrations whose running_time() panics unwind with the user's payload.",
 "C19": "Also: relabelling sweep over every ordered pair of a 66|130-id universe (pigeonhole), rayon thread counts 1/2/3/64, naming / un-naming, all 24 relabellings that keep controller-declared resources fixed, parametric families under every transformation and in the no-parallel twin, and: the plan does not depend on (rightly) rejected calls. Round 11: a second builder alive and filled in alternation; statically typed plans (profile S); the plan built on a freshly started thread equals the plan built after thousands of others. Round 13: relabelling sweep also over batches whose inner systems touch both resources. Round 14: dependency lists reversed / written twice / mirrored / every name three times.",
 "C20": "Also: a builder printed after every registration prints and builds the same as one printed once; sequences continue after a rejected call; batches, groups of 2+. Round 10: the layout is identified again on the same dispatcher after a clean dispatch and after a caught panic. Round 12: a registration whose running_time() panics leaves nothing behind in the printed plan. Round 13: placeholders of unnamed systems do not depend on other systems' names and are pairwise distinct; thread-local plans. Round 14: names outside ASCII.",
}

checks=[]
for pid,(tech,text,note) in C.items():
    text = text + " " + ADD.get(pid, "")
    eng = "c06" if pid=="C06" else "mc"
    checks.append({
      "property_id": pid,
      "quick_cmd": "./check %s --tier quick" % pid,
      "thorough_cmd": "./check %s --tier thorough" % pid,
      "evidence_file": "/verif/evidence/%s.json" % pid,
      "replay_cmd_template": "./check %s --replay {path}" % pid,
      "engine": eng,
      "level_claimed": {"category":"model_checking","text":text,"design_ref":"DESIGN.md 7 (%s)" % pid},
      "level_note": note,
      "technique": tech,
    })

m={
 "version":1,
 "setup_cmd":"./setup.sh",
 "hooks":{"guard":"cargo feature verif-hooks (in /repo/Cargo.toml; pulls the optional dependency shuttle)",
          "enable":"the engine workspace depends on shred = { path = \"/repo\", features = [\"verif-hooks\"] } and patches rayon with /verif/engine/rayon-shim",
          "baseline_off_cmd":"cd /repo && (cargo nextest run --workspace --no-fail-fast --offline || cargo test --workspace --no-fail-fast --offline)",
          "source_commits":hook_commits,"add_only":True},
 "engines":[
   {"name":"mc","path":"engine/mc","serves_properties":[p for p in C if p!="C06"],"kind_free_text":E1+"; "+E2+"; "+E3},
   {"name":"c06","path":"engine/c06","serves_properties":["C06"],"kind_free_text":"generated program space (build.rs) instantiated against the real crate"},
   {"name":"rayon-shim","path":"engine/rayon-shim","serves_properties":["C01","C02","C03","C04","C05","C07","C08","C11","C12","C14","C15","C16"],"kind_free_text":"stand-in for rayon ([patch.crates-io]); environment model, not a model of shred"},
 ],
 "checks":checks,
 "notes":"Exit codes: 0 held / 1 violation (VIOLATION line) / 2 machinery failure (no verdict). Known findings: known_findings.json. Fixed defects: 'fix:' commits in /repo.",
 "not_applicable":[],
}
json.dump(m,open('/verif/MANIFEST.json','w'),indent=1)
print("checks:",len(checks))
